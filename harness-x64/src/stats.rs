//! Instance-level accounting (a vcore "case" is a batch; the evidence counts instances).

use serde_json::Value;
use std::collections::{BTreeMap, HashSet};
use std::sync::Mutex;
use std::sync::atomic::{AtomicU64, Ordering};

#[derive(Default)]
pub struct Stats {
    pub instances: AtomicU64,
    pub seen: Mutex<HashSet<u64>>,
    pub nontrivial: Mutex<HashSet<u64>>,
    pub per_method: Mutex<BTreeMap<String, u64>>,
    pub classes: Mutex<BTreeMap<String, u64>>,
    pub samples: Mutex<Vec<Value>>,
}

impl Stats {
    pub fn count_instance(&self, hash: u64, nontrivial: bool, method: &str, render: impl FnOnce() -> Value) {
        self.instances.fetch_add(1, Ordering::Relaxed);
        self.seen.lock().unwrap().insert(hash);
        *self.per_method.lock().unwrap().entry(method.to_string()).or_insert(0) += 1;
        if nontrivial {
            let fresh = self.nontrivial.lock().unwrap().insert(hash);
            if fresh {
                let mut s = self.samples.lock().unwrap();
                // keep a spread: at most one sample per method, 8 in total
                if s.len() < 8 && !s.iter().any(|v| v["m"].as_str() == Some(method)) {
                    s.push(render());
                }
            }
        }
    }
    pub fn class(&self, c: &str) {
        *self.classes.lock().unwrap().entry(c.to_string()).or_insert(0) += 1;
    }
    pub fn class_n(&self, c: &str, n: u64) {
        *self.classes.lock().unwrap().entry(c.to_string()).or_insert(0) += n;
    }
}
