//! Operand model shared by the instruction table, the generators and the JSON replay format.

use dora_asm::x64::{Address, Condition, Immediate, Register, ScaleFactor, XmmRegister};
use serde_json::{Value, json};
use vh::vcore::Choices;

#[derive(Clone, Debug, PartialEq, Eq, Hash)]
pub enum Mem {
    /// `Address::offset(base, disp)` (also what `Address::reg` produces)
    Base { base: u8, disp: i32 },
    /// `Address::array(base, index, scale, disp)`
    Array { base: u8, index: u8, scale: u8, disp: i32 },
    /// `Address::index(index, scale, disp)`
    Index { index: u8, scale: u8, disp: i32 },
    /// `Address::rip(disp)`
    Rip { disp: i32 },
}

#[derive(Clone, Debug, PartialEq, Eq, Hash)]
pub enum Op {
    R(u8),
    X(u8),
    M(Mem),
    I(i64),
    /// index into CONDS
    C(u8),
}

/// One instance: a method of the assembler and concrete operand values.
#[derive(Clone, Debug, PartialEq, Eq, Hash)]
pub struct Inst {
    pub m: &'static str,
    pub avx: bool,
    pub ops: Vec<Op>,
}

pub const R64: [&str; 16] = ["rax", "rcx", "rdx", "rbx", "rsp", "rbp", "rsi", "rdi", "r8", "r9", "r10", "r11", "r12", "r13", "r14", "r15"];
pub const R32: [&str; 16] = ["eax", "ecx", "edx", "ebx", "esp", "ebp", "esi", "edi", "r8d", "r9d", "r10d", "r11d", "r12d", "r13d", "r14d", "r15d"];
pub const R8: [&str; 16] = ["al", "cl", "dl", "bl", "spl", "bpl", "sil", "dil", "r8b", "r9b", "r10b", "r11b", "r12b", "r13b", "r14b", "r15b"];

/// All 28 variants of `Condition` with the mnemonic suffix the *name* stands for
/// (written down from the Intel manual's condition names, not from `Condition::int`).
pub const CONDS: [(&str, &str); 28] = [
    ("Overflow", "o"),
    ("NoOverflow", "no"),
    ("Below", "b"),
    ("NeitherAboveNorEqual", "b"),
    ("NotBelow", "ae"),
    ("AboveOrEqual", "ae"),
    ("Equal", "e"),
    ("Zero", "e"),
    ("NotEqual", "ne"),
    ("NotZero", "ne"),
    ("BelowOrEqual", "be"),
    ("NotAbove", "be"),
    ("NeitherBelowNorEqual", "a"),
    ("Above", "a"),
    ("Sign", "s"),
    ("NoSign", "ns"),
    ("Parity", "p"),
    ("ParityEven", "p"),
    ("NoParity", "np"),
    ("ParityOdd", "np"),
    ("Less", "l"),
    ("NeitherGreaterNorEqual", "l"),
    ("NotLess", "ge"),
    ("GreaterOrEqual", "ge"),
    ("LessOrEqual", "le"),
    ("NotGreater", "le"),
    ("NeitherLessNorEqual", "g"),
    ("Greater", "g"),
];

pub fn condition(i: u8) -> Condition {
    match i {
        0 => Condition::Overflow,
        1 => Condition::NoOverflow,
        2 => Condition::Below,
        3 => Condition::NeitherAboveNorEqual,
        4 => Condition::NotBelow,
        5 => Condition::AboveOrEqual,
        6 => Condition::Equal,
        7 => Condition::Zero,
        8 => Condition::NotEqual,
        9 => Condition::NotZero,
        10 => Condition::BelowOrEqual,
        11 => Condition::NotAbove,
        12 => Condition::NeitherBelowNorEqual,
        13 => Condition::Above,
        14 => Condition::Sign,
        15 => Condition::NoSign,
        16 => Condition::Parity,
        17 => Condition::ParityEven,
        18 => Condition::NoParity,
        19 => Condition::ParityOdd,
        20 => Condition::Less,
        21 => Condition::NeitherGreaterNorEqual,
        22 => Condition::NotLess,
        23 => Condition::GreaterOrEqual,
        24 => Condition::LessOrEqual,
        25 => Condition::NotGreater,
        26 => Condition::NeitherLessNorEqual,
        27 => Condition::Greater,
        _ => panic!("bad condition index {i}"),
    }
}

fn scale(s: u8) -> ScaleFactor {
    match s {
        1 => ScaleFactor::One,
        2 => ScaleFactor::Two,
        4 => ScaleFactor::Four,
        8 => ScaleFactor::Eight,
        _ => panic!("bad scale {s}"),
    }
}

impl Mem {
    pub fn address(&self) -> Address {
        match *self {
            Mem::Base { base, disp } => Address::offset(Register::new(base), disp),
            Mem::Array { base, index, scale: s, disp } => Address::array(Register::new(base), Register::new(index), scale(s), disp),
            Mem::Index { index, scale: s, disp } => Address::index(Register::new(index), scale(s), disp),
            Mem::Rip { disp } => Address::rip(disp),
        }
    }
    /// AT&T text in the canonical form LLVM prints (zero displacement and scale 1 omitted).
    pub fn text(&self) -> String {
        let d = |disp: i32| if disp == 0 { String::new() } else { disp.to_string() };
        let sc = |s: u8| if s == 1 { String::new() } else { format!(",{s}") };
        match *self {
            Mem::Base { base, disp } => format!("{}(%{})", d(disp), R64[base as usize]),
            Mem::Array { base, index, scale, disp } => format!("{}(%{},%{}{})", d(disp), R64[base as usize], R64[index as usize], sc(scale)),
            Mem::Index { index, scale, disp } => format!("{}(,%{}{})", d(disp), R64[index as usize], sc(scale)),
            Mem::Rip { disp } => format!("{}(%rip)", d(disp)),
        }
    }
    pub fn disp(&self) -> i32 {
        match *self {
            Mem::Base { disp, .. } | Mem::Array { disp, .. } | Mem::Index { disp, .. } | Mem::Rip { disp } => disp,
        }
    }
    pub fn has_ext_reg(&self) -> bool {
        match *self {
            Mem::Base { base, .. } => base >= 8,
            Mem::Array { base, index, .. } => base >= 8 || index >= 8,
            Mem::Index { index, .. } => index >= 8,
            Mem::Rip { .. } => false,
        }
    }
    /// rsp/r12 as base (SIB forced) or rbp/r13 as base (displacement forced)
    pub fn special_base(&self) -> bool {
        match *self {
            Mem::Base { base, .. } | Mem::Array { base, .. } => matches!(base, 4 | 5 | 12 | 13),
            _ => false,
        }
    }
    pub fn shape(&self) -> &'static str {
        match *self {
            Mem::Base { base, disp } => {
                if matches!(base, 4 | 12) {
                    "base-rsp/r12(sib-forced)"
                } else if matches!(base, 5 | 13) && disp == 0 {
                    "base-rbp/r13-disp0(disp-forced)"
                } else if disp == 0 {
                    "base"
                } else if (-128..128).contains(&disp) {
                    "base+disp8"
                } else {
                    "base+disp32"
                }
            }
            Mem::Array { base, disp, .. } => {
                if matches!(base, 5 | 13) && disp == 0 {
                    "base-rbp/r13+index*scale-disp0(disp-forced)"
                } else if disp == 0 {
                    "base+index*scale"
                } else if (-128..128).contains(&disp) {
                    "base+index*scale+disp8"
                } else {
                    "base+index*scale+disp32"
                }
            }
            Mem::Index { .. } => "index*scale+disp32",
            Mem::Rip { .. } => "rip-relative",
        }
    }
}

/// within 1 of a width boundary (2^7, 2^8, 2^15, 2^16, 2^31, 2^32, i64 extremes)
pub fn near_boundary(v: i64) -> bool {
    let w = v as i128;
    for k in [7u32, 8, 15, 16, 31, 32] {
        let b = 1i128 << k;
        if (w - b).abs() <= 1 || (w + b).abs() <= 1 {
            return true;
        }
    }
    v >= i64::MAX - 1 || v <= i64::MIN + 1
}

impl Op {
    pub fn reg(&self) -> Register {
        match self {
            Op::R(n) => Register::new(*n),
            o => panic!("operand {o:?} is not a general-purpose register"),
        }
    }
    pub fn xmm(&self) -> XmmRegister {
        match self {
            Op::X(n) => XmmRegister::new(*n),
            o => panic!("operand {o:?} is not an xmm register"),
        }
    }
    pub fn addr(&self) -> Address {
        match self {
            Op::M(m) => m.address(),
            o => panic!("operand {o:?} is not an address"),
        }
    }
    pub fn imm(&self) -> Immediate {
        Immediate(self.int())
    }
    pub fn int(&self) -> i64 {
        match self {
            Op::I(v) => *v,
            o => panic!("operand {o:?} is not an immediate"),
        }
    }
    pub fn cond(&self) -> Condition {
        match self {
            Op::C(i) => condition(*i),
            o => panic!("operand {o:?} is not a condition"),
        }
    }
    pub fn nontrivial(&self) -> bool {
        match self {
            Op::R(n) | Op::X(n) => *n >= 8,
            Op::M(m) => m.has_ext_reg() || m.special_base() || (!matches!(m, Mem::Base { disp: 0, .. } | Mem::Array { disp: 0, .. }) && near_boundary(m.disp() as i64)),
            Op::I(v) => near_boundary(*v),
            Op::C(_) => false,
        }
    }
    pub fn to_json(&self) -> Value {
        match self {
            Op::R(n) => json!({"gpr": n, "name": R64[*n as usize]}),
            Op::X(n) => json!({"xmm": n}),
            Op::I(v) => json!({"imm": v}),
            Op::C(i) => json!({"cond": i, "name": CONDS[*i as usize].0}),
            Op::M(Mem::Base { base, disp }) => json!({"mem": "base", "base": base, "disp": disp, "text": self.mem_text()}),
            Op::M(Mem::Array { base, index, scale, disp }) => json!({"mem": "array", "base": base, "index": index, "scale": scale, "disp": disp, "text": self.mem_text()}),
            Op::M(Mem::Index { index, scale, disp }) => json!({"mem": "index", "index": index, "scale": scale, "disp": disp, "text": self.mem_text()}),
            Op::M(Mem::Rip { disp }) => json!({"mem": "rip", "disp": disp, "text": self.mem_text()}),
        }
    }
    fn mem_text(&self) -> String {
        match self {
            Op::M(m) => m.text(),
            _ => String::new(),
        }
    }
    pub fn from_json(v: &Value) -> Option<Op> {
        let u8of = |k: &str| v.get(k).and_then(|x| x.as_u64()).map(|x| x as u8);
        let reg16 = |k: &str| u8of(k).filter(|x| *x < 16);
        let disp = || v.get("disp").and_then(|x| x.as_i64()).map(|x| x as i32);
        let sc = || u8of("scale").filter(|s| matches!(s, 1 | 2 | 4 | 8));
        if v.get("gpr").is_some() {
            return Some(Op::R(reg16("gpr")?));
        }
        if v.get("xmm").is_some() {
            return Some(Op::X(reg16("xmm")?));
        }
        if let Some(i) = v.get("imm") {
            return Some(Op::I(i.as_i64()?));
        }
        if v.get("cond").is_some() {
            return Some(Op::C(u8of("cond").filter(|c| *c < 28)?));
        }
        match v.get("mem").and_then(|m| m.as_str())? {
            "base" => Some(Op::M(Mem::Base { base: reg16("base")?, disp: disp()? })),
            "array" => Some(Op::M(Mem::Array { base: reg16("base")?, index: reg16("index")?, scale: sc()?, disp: disp()? })),
            "index" => Some(Op::M(Mem::Index { index: reg16("index")?, scale: sc()?, disp: disp()? })),
            "rip" => Some(Op::M(Mem::Rip { disp: disp()? })),
            _ => None,
        }
    }
}

// ---------------------------------------------------------------------------
// Value pools

pub const BOUNDARY_INTS: [i64; 44] = [
    0,
    1,
    -1,
    2,
    8,
    63,
    64,
    126,
    127,
    128,
    129,
    -127,
    -128,
    -129,
    254,
    255,
    256,
    257,
    32767,
    32768,
    32769,
    -32767,
    -32768,
    -32769,
    65535,
    65536,
    0x12345678,
    2147483646,
    2147483647,
    2147483648,
    2147483649,
    -2147483647,
    -2147483648,
    -2147483649,
    4294967294,
    4294967295,
    4294967296,
    0x1234_5678_9abc_def0,
    i64::MAX,
    i64::MAX - 1,
    i64::MIN,
    i64::MIN + 1,
    -4294967296,
    -4294967297,
];

pub const BOUNDARY_DISPS: [i32; 24] = [
    0,
    8,
    -8,
    1,
    -1,
    16,
    126,
    127,
    128,
    129,
    -127,
    -128,
    -129,
    255,
    256,
    32767,
    32768,
    -32768,
    -32769,
    0x12345678,
    i32::MAX,
    i32::MAX - 1,
    i32::MIN,
    i32::MIN + 1,
];

/// Immediate classes = the legal range a method's asserts (and the instruction format) admit.
#[derive(Clone, Copy, Debug, PartialEq, Eq)]
pub enum Ic {
    /// is_int8
    I8,
    /// is_uint8
    U8,
    /// is_int8 || is_uint8
    I8U8,
    /// is_int32
    I32,
    /// is_int32 || is_uint32
    I32U32,
    /// any i64
    I64,
    /// shift count: is_int8 (hardware masks the count; mostly 0..63 generated)
    Sh,
    /// u8 rounding-mode byte
    U8Mode,
}

impl Ic {
    pub fn range(self) -> (i64, i64) {
        match self {
            Ic::I8 | Ic::Sh => (-128, 127),
            Ic::U8 | Ic::U8Mode => (0, 255),
            Ic::I8U8 => (-128, 255),
            Ic::I32 => (i32::MIN as i64, i32::MAX as i64),
            Ic::I32U32 => (i32::MIN as i64, u32::MAX as i64),
            Ic::I64 => (i64::MIN, i64::MAX),
        }
    }
    pub fn boundaries(self) -> Vec<i64> {
        let (lo, hi) = self.range();
        let mut v: Vec<i64> = BOUNDARY_INTS.iter().copied().filter(|x| *x >= lo && *x <= hi).collect();
        if self == Ic::Sh {
            v.extend([3, 31, 32, 62]);
        }
        if self == Ic::U8Mode {
            v.extend([4, 9, 10, 11, 12, 15]);
        }
        v
    }
    pub fn generate(self, c: &mut Choices) -> i64 {
        let (lo, hi) = self.range();
        match c.weighted(&[5, 3, 2]) {
            0 => {
                let b = self.boundaries();
                b[c.below(b.len())]
            }
            1 => match self {
                Ic::Sh => c.range(0, 63),
                Ic::U8Mode => c.range(0, 15),
                _ => c.range(lo.max(-300), hi.min(300)),
            },
            _ => {
                if self == Ic::I64 {
                    // random magnitude
                    let bits = c.below(64) as u32 + 1;
                    let raw = c.u64();
                    let v = if bits >= 64 { raw } else { raw & ((1u64 << bits) - 1) };
                    if c.chance(1, 2) { (v as i64).wrapping_neg() } else { v as i64 }
                } else {
                    c.range(lo, hi)
                }
            }
        }
    }
}

pub fn gen_disp(c: &mut Choices) -> i32 {
    match c.weighted(&[5, 3, 2]) {
        0 => BOUNDARY_DISPS[c.below(BOUNDARY_DISPS.len())],
        1 => c.range(-300, 300) as i32,
        _ => c.range(i32::MIN as i64, i32::MAX as i64) as i32,
    }
}

/// registers legal as SIB index in `Address::array` (asserts index != RSP and != R12)
pub const ARRAY_INDEX_REGS: [u8; 14] = [0, 1, 2, 3, 5, 6, 7, 8, 9, 10, 11, 13, 14, 15];
/// registers legal as SIB index in `Address::index` (asserts index != RSP)
pub const INDEX_REGS: [u8; 15] = [0, 1, 2, 3, 5, 6, 7, 8, 9, 10, 11, 12, 13, 14, 15];
pub const SCALES: [u8; 4] = [1, 2, 4, 8];

pub fn gen_mem(c: &mut Choices) -> Mem {
    match c.weighted(&[4, 4, 2, 1]) {
        0 => Mem::Base { base: c.below(16) as u8, disp: gen_disp(c) },
        1 => Mem::Array { base: c.below(16) as u8, index: *c.pick(&ARRAY_INDEX_REGS), scale: *c.pick(&SCALES), disp: gen_disp(c) },
        2 => Mem::Index { index: *c.pick(&INDEX_REGS), scale: *c.pick(&SCALES), disp: gen_disp(c) },
        _ => Mem::Rip { disp: gen_disp(c) },
    }
}

/// Systematic list of addressing-mode shapes used by the enumeration tier.
pub fn systematic_mems() -> Vec<Mem> {
    let mut v = vec![];
    let base_disps = [0, 8, -8, 127, 128, -128, -129, 0x12345678, i32::MIN, i32::MAX];
    for base in 0..16u8 {
        for d in base_disps {
            v.push(Mem::Base { base, disp: d });
        }
    }
    let arr_disps = [0, 1, -128, 127, 128, -129, 0x01020304, i32::MIN];
    let mut k = 0usize;
    for base in 0..16u8 {
        for &index in ARRAY_INDEX_REGS.iter() {
            // every base x index pair; scale and displacement cycle
            let scale = SCALES[k % 4];
            let disp = arr_disps[(k / 4 + k) % arr_disps.len()];
            v.push(Mem::Array { base, index, scale, disp });
            k += 1;
        }
    }
    // the displacement-forced bases with every scale at disp 0, and rsp/r12 bases with every index class
    for base in [4u8, 5, 12, 13] {
        for &scale in SCALES.iter() {
            for index in [0u8, 5, 13, 15] {
                v.push(Mem::Array { base, index, scale, disp: 0 });
                v.push(Mem::Array { base, index, scale, disp: -1 });
            }
        }
    }
    let idx_disps = [0, 1, -1, 127, 128, -129, 0x7fffffff, i32::MIN];
    let mut k = 0usize;
    for &index in INDEX_REGS.iter() {
        for &scale in SCALES.iter() {
            v.push(Mem::Index { index, scale, disp: idx_disps[k % idx_disps.len()] });
            k += 3;
        }
    }
    for d in [0, 1, -1, 127, 128, -128, -129, 0x12345678, i32::MAX, i32::MIN] {
        v.push(Mem::Rip { disp: d });
    }
    v
}

/// Compact list of addressing-mode shapes (every base register with no / 8-bit / 32-bit displacement,
/// the SIB- and displacement-forced special cases with an index, index-only and RIP-relative forms);
/// used where every instance is expensive (the Dora-assembler cross-check).
pub fn compact_mems() -> Vec<Mem> {
    let mut v = vec![];
    for base in 0..16u8 {
        v.push(Mem::Base { base, disp: 0 });
        v.push(Mem::Base { base, disp: if base % 2 == 0 { 127 } else { -128 } });
        v.push(Mem::Base { base, disp: if base % 2 == 0 { 128 } else { -129 } });
    }
    for (k, base) in [4u8, 5, 12, 13, 0, 9].into_iter().enumerate() {
        for (j, index) in [0u8, 5, 13, 15].into_iter().enumerate() {
            v.push(Mem::Array { base, index, scale: SCALES[(k + j) % 4], disp: 0 });
            v.push(Mem::Array { base, index, scale: SCALES[(k + j + 1) % 4], disp: [1, -128, 128, i32::MIN][(k + j) % 4] });
        }
    }
    for (k, index) in [0u8, 5, 12, 13, 15].into_iter().enumerate() {
        v.push(Mem::Index { index, scale: SCALES[k % 4], disp: [0, -1, 128, i32::MAX, 8][k] });
    }
    v.push(Mem::Rip { disp: 0 });
    v.push(Mem::Rip { disp: -129 });
    v
}
