//! Sub-check "dora-asm" (thorough tier): the optimizing compiler's second assembler, written in Dora
//! (/repo/pkgs/boots/assembler/x64.dora), has same-named methods. A Dora test module calling those
//! methods with the same operands is generated, compiled together with a verbatim copy of the
//! assembler sources (mini package: assembler.dora + assembler/x64.dora + a stub of graph::Location)
//! by `dora compile --cannon --test`, run, and the bytes it prints are judged by the same LLVM oracle
//! and table; equality with the Rust assembler's bytes is recorded as a statistic.

use crate::encode::{Batch, Encode, inst_from_json, inst_json};
use crate::ops::*;
use crate::oracle::{self, Unit, Verdict};
use serde_json::{Value, json};
use std::collections::HashMap;
use std::path::{Path, PathBuf};
use std::process::Command;
use std::sync::atomic::{AtomicU64, Ordering};
use vh::vcore::*;

pub const DORA_BIN: &str = "/verif/.build/target/release/dora";
const SRC_DIR: &str = "/repo/pkgs/boots";

/// sources of the Dora assembler; VASM64_DORA_SRCDIR points the sensitivity study at a mutated copy
fn src_x64() -> String {
    format!("{}/assembler/x64.dora", std::env::var("VASM64_DORA_SRCDIR").unwrap_or_else(|_| SRC_DIR.to_string()))
}
fn src_asm() -> String {
    format!("{}/assembler.dora", std::env::var("VASM64_DORA_SRCDIR").unwrap_or_else(|_| SRC_DIR.to_string()))
}
const PER_FN: usize = 150;

pub struct DoraAsm {
    pub enc: Encode,
    /// Dora method name -> parameter types
    pub sigs: HashMap<String, Vec<String>>,
}

static SEQ: AtomicU64 = AtomicU64::new(0);

struct DirGuard(PathBuf);
impl Drop for DirGuard {
    fn drop(&mut self) {
        let _ = std::fs::remove_dir_all(&self.0);
    }
}

pub fn available() -> Result<(), String> {
    for p in [DORA_BIN.to_string(), src_x64(), src_asm()] {
        if !Path::new(&p).exists() {
            return Err(format!("{p} not found"));
        }
    }
    Ok(())
}

fn parse_sigs(src: &str) -> HashMap<String, Vec<String>> {
    let mut out = HashMap::new();
    let end = src.find("pub enum Condition").unwrap_or(src.len());
    let body = &src[..end];
    let mut pos = 0;
    while let Some(i) = body[pos..].find("    pub fn ") {
        let start = pos + i + "    pub fn ".len();
        let Some(par) = body[start..].find('(') else { break };
        let name = body[start..start + par].trim().to_string();
        let Some(close) = body[start + par..].find(')') else { break };
        let params = &body[start + par + 1..start + par + close];
        let types: Vec<String> = params.split(',').filter_map(|p| p.split_once(':').map(|(_, t)| t.trim().to_string())).collect();
        out.insert(name, types);
        pos = start + par + close;
    }
    out
}

pub fn dora_name(rust: &str) -> String {
    match rust {
        "negl" | "negq" | "notl" | "notq" => format!("{rust}_r"),
        _ => rust.to_string(),
    }
}

fn lit64(v: i64) -> String {
    if v == i64::MIN { "(-9223372036854775807 - 1)".into() } else if v < 0 { format!("({v})") } else { v.to_string() }
}
fn lit32(v: i32) -> String {
    if v == i32::MIN { "(-2147483647i32 - 1i32)".into() } else if v < 0 { format!("({v}i32)") } else { format!("{v}i32") }
}
fn scale_name(s: u8) -> &'static str {
    match s {
        1 => "One",
        2 => "Two",
        4 => "Four",
        _ => "Eight",
    }
}

fn arg(op: &Op, ty: &str) -> Option<String> {
    Some(match (op, ty) {
        (Op::R(n), "Register") => format!("c07r({n})"),
        (Op::X(n), "FloatRegister") => format!("c07x({n})"),
        (Op::I(v), "Immediate") => format!("Immediate({})", lit64(*v)),
        (Op::I(v), "UInt8") if (0..256).contains(v) => format!("{v}u8"),
        (Op::I(v), "Int32") if *v >= i32::MIN as i64 && *v <= i32::MAX as i64 => lit32(*v as i32),
        (Op::C(c), "Condition") => format!("Condition::{}", CONDS[*c as usize].0),
        (Op::M(m), "Address") => match m {
            Mem::Base { base, disp } => format!("Address::offset(c07r({base}), {})", lit32(*disp)),
            Mem::Array { base, index, scale, disp } => format!("Address::array(c07r({base}), c07r({index}), ScaleFactor::{}, {})", scale_name(*scale), lit32(*disp)),
            Mem::Index { index, scale, disp } => format!("Address::index(c07r({index}), ScaleFactor::{}, {})", scale_name(*scale), lit32(*disp)),
            Mem::Rip { disp } => format!("Address::rip({})", lit32(*disp)),
        },
        _ => return None,
    })
}

impl DoraAsm {
    pub fn new(enc: Encode) -> Result<DoraAsm, String> {
        let src = std::fs::read_to_string(src_x64()).map_err(|e| format!("cannot read {}: {e}", src_x64()))?;
        Ok(DoraAsm { enc, sigs: parse_sigs(&src) })
    }

    /// rows of the table that have a same-named Dora method with matching parameter kinds
    pub fn supported(&self, inst: &Inst) -> bool {
        self.call_text(inst).is_some()
    }

    fn call_text(&self, inst: &Inst) -> Option<String> {
        let name = dora_name(inst.m);
        let sig = self.sigs.get(&name)?;
        if sig.len() != inst.ops.len() {
            return None;
        }
        let args: Vec<String> = inst.ops.iter().zip(sig.iter()).map(|(o, t)| arg(o, t)).collect::<Option<Vec<_>>>()?;
        Some(format!("a.{}({});", name, args.join(", ")))
    }

    pub fn uncovered_rows(&self) -> Vec<String> {
        self.enc.rows.iter().filter(|r| !self.sigs.contains_key(&dora_name(r.name))).map(|r| r.name.to_string()).collect()
    }

    pub fn dora_only_methods(&self) -> Vec<String> {
        let mine: Vec<String> = self.enc.rows.iter().map(|r| dora_name(r.name)).collect();
        let mut v: Vec<String> = self.sigs.keys().filter(|k| !mine.contains(k)).cloned().collect();
        v.sort();
        v
    }

    /// systematic instances over the compact addressing-mode list; rows with more than `per_row`
    /// instances are thinned by a stride
    pub fn selection(&self, per_row: usize) -> Batch {
        let mems = compact_mems();
        let mut insts = vec![];
        for row in &self.enc.rows {
            let all = self.enc.systematic(row, 1, &mems);
            let step = all.len().div_ceil(per_row).max(1);
            insts.extend(all.into_iter().step_by(step).filter(|i| self.supported(i)));
        }
        Batch { insts }
    }

    /// Generate, compile and run the Dora side; returns the bytes per instance (None: not produced).
    fn run_dora(&self, insts: &[Inst]) -> Result<(Vec<Option<Vec<u8>>>, Option<String>), String> {
        available()?;
        let dir = PathBuf::from(oracle::SCRATCH).join(format!("c07-dora-{}-{}", std::process::id(), SEQ.fetch_add(1, Ordering::SeqCst)));
        std::fs::create_dir_all(dir.join("assembler")).map_err(|e| format!("cannot create {}: {e}", dir.display()))?;
        let _g = DirGuard(dir.clone());
        // the assembler's own unit tests are disabled in the copy (only the generated tests run); the code is verbatim
        let asm_src = std::fs::read_to_string(src_asm()).map_err(|e| e.to_string())?.replace("\npub mod arm64;\n", "\n").replace("@Test", "");
        let mut x64 = std::fs::read_to_string(src_x64()).map_err(|e| e.to_string())?.replace("@Test", "");
        // group by assembler configuration
        let mut groups: Vec<(bool, Vec<usize>)> = vec![];
        for avx in [false, true] {
            let ids: Vec<usize> = insts.iter().enumerate().filter(|(_, i)| i.avx == avx).map(|(k, _)| k).collect();
            for ch in ids.chunks(PER_FN) {
                groups.push((avx, ch.to_vec()));
            }
        }
        x64.push_str("\n// ---- generated by vasm64 (C07) ----\n");
        x64.push_str("fn c07r(i: Int64): Register { Register(i.to_uint8()) }\n");
        x64.push_str("fn c07x(i: Int64): FloatRegister { FloatRegister(i.to_uint8()) }\n");
        // markers are printed immediately: if an assert inside the assembler aborts the process, the last marker names the culprit
        x64.push_str("fn c07m(a: AssemblerX64, out: std::StringBuffer, id: Int64) { println(\"C07M ${id} ${a.size()}\"); }\n");
        x64.push_str("fn c07d(a: AssemblerX64, out: std::StringBuffer, fid: Int64) {\n    let bytes = a.finalize();\n    out.append(\"C07B ${fid}\");\n    for b in bytes { out.append(\" ${b.to_string_hex()}\"); }\n    out.append(\"\\nC07E ${fid}\");\n    println(out.to_string());\n}\n");
        for (fid, (avx, ids)) in groups.iter().enumerate() {
            x64.push_str(&format!("@Test\nfn c07_f{fid}() {{\n    let a = AssemblerX64::new({avx});\n    let out = std::StringBuffer::new();\n    println(\"\");\n"));
            for &k in ids {
                let call = self.call_text(&insts[k]).ok_or_else(|| format!("instance {} has no Dora counterpart", self.enc.describe(&insts[k])))?;
                x64.push_str(&format!("    {call} c07m(a, out, {k});\n"));
            }
            x64.push_str(&format!("    c07d(a, out, {fid});\n}}\n"));
        }
        std::fs::write(dir.join("main.dora"), "mod assembler;\nmod graph;\n\nfn main() {}\n").map_err(|e| e.to_string())?;
        std::fs::write(dir.join("graph.dora"), "use package::assembler::{FloatRegister, Register};\n\npub enum Location {\n    None,\n    Reg(Register),\n    FloatReg(FloatRegister),\n}\n").map_err(|e| e.to_string())?;
        std::fs::write(dir.join("assembler.dora"), asm_src).map_err(|e| e.to_string())?;
        std::fs::write(dir.join("assembler/x64.dora"), x64).map_err(|e| e.to_string())?;
        let exe = dir.join("c07-dora-tests");
        let comp = Command::new(DORA_BIN)
            .args(["compile", "--cannon", "--test"])
            .arg(dir.join("main.dora"))
            .arg("-o")
            .arg(&exe)
            .env("DORA_FLAGS", "")
            .env("TMPDIR", &dir)
            .current_dir(&dir)
            .output()
            .map_err(|e| format!("cannot run {DORA_BIN}: {e}"))?;
        if !comp.status.success() || !exe.exists() {
            let all = format!("{}{}", String::from_utf8_lossy(&comp.stdout), String::from_utf8_lossy(&comp.stderr));
            let lines: Vec<&str> = all.lines().filter(|l| !l.contains("/usr/bin/ld:")).take(8).collect();
            return Err(format!("dora compile of the generated test module failed: {}", lines.join(" | ")));
        }
        let run = Command::new(&exe).env("DORA_FLAGS", "").env("TMPDIR", &dir).current_dir(&dir).output().map_err(|e| format!("cannot run generated tests: {e}"))?;
        let out = String::from_utf8_lossy(&run.stdout);
        let mut marks: HashMap<usize, usize> = HashMap::new();
        let mut code: HashMap<usize, Vec<u8>> = HashMap::new();
        for l in out.lines() {
            if let Some(r) = l.strip_prefix("C07M ") {
                let mut it = r.split(' ');
                if let (Some(a), Some(b)) = (it.next().and_then(|x| x.parse().ok()), it.next().and_then(|x| x.parse().ok())) {
                    marks.insert(a, b);
                }
            } else if let Some(r) = l.strip_prefix("C07B ") {
                let mut it = r.split(' ');
                if let Some(fid) = it.next().and_then(|x| x.parse::<usize>().ok()) {
                    let bytes: Option<Vec<u8>> = it.filter(|t| !t.is_empty()).map(|t| u8::from_str_radix(t, 16).ok()).collect();
                    if let Some(b) = bytes {
                        code.insert(fid, b);
                    }
                }
            }
        }
        let mut res: Vec<Option<Vec<u8>>> = vec![None; insts.len()];
        let mut trouble: Option<String> = None;
        for (fid, (_, ids)) in groups.iter().enumerate() {
            let Some(c) = code.get(&fid) else {
                // function did not finish: an assertion inside the assembler fired (test failure)
                if trouble.is_none() {
                    let err = String::from_utf8_lossy(&run.stderr);
                    let hint: Vec<&str> = err.lines().chain(out.lines().filter(|l| l.contains("assert") || l.contains("panic"))).filter(|l| !l.trim().is_empty()).take(6).collect();
                    let culprit = ids.iter().find(|k| !marks.contains_key(k)).map(|&k| self.enc.describe(&insts[k])).unwrap_or_default();
                    trouble = Some(format!("the Dora assembler aborted the generated test c07_f{fid} (exit status {:?}) at {culprit}: {}", run.status.code(), hint.join(" | ")));
                }
                // instances before the abort were emitted; without the final dump their bytes are unknown
                continue;
            };
            let mut prev = 0usize;
            for &k in ids {
                let Some(&end) = marks.get(&k) else { break };
                if end < prev || end > c.len() {
                    return Err(format!("inconsistent position markers in c07_f{fid}"));
                }
                res[k] = Some(c[prev..end].to_vec());
                prev = end;
            }
        }
        Ok((res, trouble))
    }

    pub fn judge(&self, batch: &Batch) -> Result<Vec<(usize, String, String)>, String> {
        let (bytes, trouble) = self.run_dora(&batch.insts)?;
        let mut units = vec![];
        let mut unit_of = vec![];
        for (i, inst) in batch.insts.iter().enumerate() {
            let Some(b) = &bytes[i] else { continue };
            let row = self.enc.row(inst.m).ok_or("unknown row")?;
            if b.is_empty() {
                return Err(format!("Dora assembler emitted no bytes for {}", self.enc.describe(inst)));
            }
            units.push(Unit { method: inst.m.to_string(), tag: format!("[Dora assembler] {}", self.enc.describe(inst)), bytes: b.clone(), expect: (row.text)(&inst.ops), imm_bits: row.imm_bits, rel: row.rel });
            unit_of.push(i);
        }
        if units.is_empty() {
            return Err(trouble.unwrap_or_else(|| "the generated Dora tests produced no output".into()));
        }
        let verdicts = oracle::check_units(&units)?;
        let mut fails = vec![];
        for (u, v) in verdicts.iter().enumerate() {
            let i = unit_of[u];
            let inst = &batch.insts[i];
            self.enc.stats.count_instance(hash64(&("dora-asm", inst)), inst.ops.iter().any(|o| o.nontrivial()), &format!("dora:{}", inst.m), || inst_json(&self.enc, inst));
            let same = self.enc.emit(inst).map(|r| r == units[u].bytes).unwrap_or(false);
            self.enc.stats.class(if same { "dora-asm/bytes-equal-to-rust-assembler" } else { "dora-asm/bytes-differ-from-rust-assembler" });
            if let Verdict::Bad { class, got, detail } = v {
                fails.push((i, format!("dora-encoding:{}:{}", inst.m, class), format!("{}: requested `{}`, decoder says `{}` ({})", units[u].tag, units[u].expect, got, detail)));
            }
        }
        if let Some(t) = trouble {
            // instances after the last produced one were not evaluated: harness-side trouble unless explained
            if fails.is_empty() {
                return Err(t);
            }
        }
        Ok(fails)
    }

    fn pick<'a>(&self, fails: &'a [(usize, String, String)]) -> Option<&'a (usize, String, String)> {
        fails.iter().find(|f| !self.enc.known.iter().any(|k| k.property == "C07" && k.status == "open" && crate::encode::key_matches(&k.key, &f.1))).or(fails.first())
    }
}

impl Prop for DoraAsm {
    type Case = Batch;
    fn name(&self) -> &str {
        "dora-asm"
    }
    fn generate(&self, c: &mut Choices) -> Batch {
        let mut insts = vec![];
        loop {
            let i = self.enc.gen_inst(c);
            if self.supported(&i) {
                insts.push(i);
            }
            if c.exhausted() || insts.len() >= 3000 {
                break;
            }
        }
        if insts.is_empty() {
            insts.push(Inst { m: "nop", avx: false, ops: vec![] });
        }
        Batch { insts }
    }
    fn eval(&self, case: &Batch) -> Outcome {
        let h = hash64(&("dora", &case.insts));
        match self.judge(case) {
            Err(e) => Outcome { inconclusive: Some(e), hash: h, ..Default::default() },
            Ok(fails) => match self.pick(&fails) {
                Some(f) => Outcome::fail(h, f.1.clone(), format!("{} [{} of {} instances fail]", f.2, fails.len(), case.insts.len())),
                None => Outcome::pass(h, true).class("batches"),
            },
        }
    }
    fn render(&self, case: &Batch) -> Value {
        json!({"insts": case.insts.iter().take(if case.insts.len() > 8 { 3 } else { 8 }).map(|i| inst_json(&self.enc, i)).collect::<Vec<_>>(), "batch_size": case.insts.len(), "assembler": "pkgs/boots/assembler/x64.dora"})
    }
    fn from_rendered(&self, v: &Value) -> Option<Batch> {
        let arr = v["insts"].as_array()?;
        if v["batch_size"].as_u64().map(|n| n as usize != arr.len()).unwrap_or(false) {
            return None;
        }
        let insts: Vec<Inst> = arr.iter().map(|x| inst_from_json(&self.enc, x)).collect::<Option<Vec<_>>>()?;
        if insts.is_empty() || insts.iter().any(|i| !self.supported(i)) { None } else { Some(Batch { insts }) }
    }
    fn minimize(&self, case: &Batch, fails: &dyn Fn(&Batch) -> bool) -> Option<Batch> {
        if case.insts.len() <= 1 {
            return None;
        }
        let judged = self.judge(case).ok()?;
        let f = self.pick(&judged)?;
        let single = Batch { insts: vec![case.insts[f.0].clone()] };
        if fails(&single) { Some(single) } else { None }
    }
}
