//! The oracle: LLVM 14 as independent reference decoder (and encoder for the converse direction).
//!
//! A batch of units is written into one assembly file: the emitted bytes of unit i as a `.byte` run
//! under symbol `e<i>`, the expected instruction text under symbol `x<i>`. `llvm-mc -filetype=obj`
//! assembles it, `llvm-objdump -d` disassembles it. A unit passes when its emitted bytes decode to
//! exactly one instruction (plus a `lock` prefix line where requested) that covers exactly the
//! emitted length and whose normalised text equals
//!   (a) the normalised expected text (decode direction), or
//!   (b) the text LLVM prints for its own encoding of the expected text (converse direction; takes
//!       care of aliases and of spellings the printer chooses by encoding form).

use std::collections::HashMap;
use std::path::PathBuf;
use std::process::Command;
use std::sync::atomic::{AtomicU64, Ordering};

pub const SCRATCH: &str = "/verif/.build/scratch";

pub struct Unit {
    pub method: String,
    /// human-readable description for messages
    pub tag: String,
    pub bytes: Vec<u8>,
    /// expected AT&T text; for `rel` units `<mnemonic> rel:<displacement from end of instruction>`
    pub expect: String,
    pub imm_bits: u8,
    pub rel: bool,
}

#[derive(Clone, Debug)]
pub enum Verdict {
    Ok,
    Bad { class: String, got: String, detail: String },
}

fn tool(name: &str) -> String {
    let p = format!("/usr/lib/llvm-14/bin/{name}");
    if std::path::Path::new(&p).exists() { p } else { format!("{name}-14") }
}

static SEQ: AtomicU64 = AtomicU64::new(0);

struct Scratch {
    files: Vec<PathBuf>,
}
impl Drop for Scratch {
    fn drop(&mut self) {
        for f in &self.files {
            let _ = std::fs::remove_file(f);
        }
    }
}

#[derive(Debug, Clone)]
pub struct Line {
    pub addr: u64,
    pub len: usize,
    pub text: String,
}

/// Parse `llvm-objdump -d` output into symbol -> instruction lines.
pub fn parse_objdump(out: &str) -> HashMap<String, Vec<Line>> {
    let mut map: HashMap<String, Vec<Line>> = HashMap::new();
    let mut cur: Option<String> = None;
    for line in out.lines() {
        if line.ends_with(">:") {
            if let Some(i) = line.find('<') {
                let name = &line[i + 1..line.len() - 2];
                cur = Some(name.to_string());
                map.entry(name.to_string()).or_default();
                continue;
            }
        }
        let Some(sym) = &cur else { continue };
        // "      2e: 49 b9 89 67 45 23 01 00 00 00\tmovabsq\t$4886718345, %r9   # imm = ..."
        let Some((a, rest)) = line.split_once(':') else { continue };
        let Ok(addr) = u64::from_str_radix(a.trim(), 16) else { continue };
        let (bytes_part, text_part) = match rest.split_once('\t') {
            Some((b, t)) => (b, t),
            None => (rest, ""),
        };
        let len = bytes_part.split_whitespace().filter(|t| t.len() == 2 && t.chars().all(|c| c.is_ascii_hexdigit())).count();
        if len == 0 {
            continue;
        }
        map.get_mut(sym).unwrap().push(Line { addr, len, text: text_part.replace('\t', " ") });
    }
    map
}

fn mask_imm(v: i128, bits: u8) -> u64 {
    let m: u128 = if bits >= 64 { u64::MAX as u128 } else { (1u128 << bits) - 1 };
    ((v as u128) & m) as u64
}

const SHIFT_MNEMONICS: [&str; 10] = ["shll", "shlq", "shrl", "shrq", "sarl", "sarq", "roll", "rolq", "rorl", "rorq"];

/// Normalise one instruction text: comments and symbol annotations removed, whitespace collapsed,
/// immediates reduced to `bits`, one-operand shift spelling expanded to the `$1` form.
pub fn norm_text(t: &str, bits: u8) -> String {
    let t = t.split('#').next().unwrap_or("");
    // remove <sym+off> annotations
    let mut s = String::with_capacity(t.len());
    let mut depth = 0;
    for ch in t.chars() {
        match ch {
            '<' => depth += 1,
            '>' => {
                if depth > 0 {
                    depth -= 1
                }
            }
            _ if depth > 0 => {}
            '\t' => s.push(' '),
            _ => s.push(ch),
        }
    }
    let s = s.split_whitespace().collect::<Vec<_>>().join(" ");
    // immediates
    let mut out = String::with_capacity(s.len());
    let b = s.as_bytes();
    let mut i = 0;
    while i < b.len() {
        if b[i] == b'$' {
            let mut j = i + 1;
            let neg = j < b.len() && b[j] == b'-';
            if neg {
                j += 1;
            }
            let start = j;
            let hex = j + 1 < b.len() && b[j] == b'0' && (b[j + 1] == b'x' || b[j + 1] == b'X');
            if hex {
                j += 2;
            }
            let ds = j;
            while j < b.len() && (if hex { b[j].is_ascii_hexdigit() } else { b[j].is_ascii_digit() }) {
                j += 1;
            }
            if j > ds {
                let digits = &s[ds..j];
                let mag = if hex { i128::from_str_radix(digits, 16) } else { digits.parse::<i128>() };
                if let Ok(mag) = mag {
                    let v = if neg { -mag } else { mag };
                    out.push('$');
                    out.push_str(&mask_imm(v, bits).to_string());
                    i = j;
                    continue;
                }
            }
            let _ = start;
        }
        out.push(b[i] as char);
        i += 1;
    }
    // shift/rotate by one: "shll %eax" == "shll $1, %eax"
    if let Some((mn, rest)) = out.split_once(' ') {
        if SHIFT_MNEMONICS.contains(&mn) && !rest.contains(',') {
            return format!("{mn} $1, {rest}");
        }
    }
    out
}

/// Turn a decoded branch `jmp 0x1f` at `addr` with length `len` into `jmp rel:<n>`.
fn rel_text(t: &str, addr: u64, len: usize) -> String {
    let n = norm_text(t, 64);
    let mut parts = n.split(' ');
    let mn = parts.next().unwrap_or("");
    let tgt = parts.next().unwrap_or("");
    if let Some(h) = tgt.strip_prefix("0x") {
        if let Ok(v) = u64::from_str_radix(h, 16) {
            let rel = v.wrapping_sub(addr.wrapping_add(len as u64)) as i64;
            return format!("{mn} rel:{rel}");
        }
    }
    n
}

fn split_operands(s: &str) -> Vec<String> {
    let mut out = vec![];
    let mut depth = 0;
    let mut cur = String::new();
    for ch in s.chars() {
        match ch {
            '(' => {
                depth += 1;
                cur.push(ch)
            }
            ')' => {
                depth -= 1;
                cur.push(ch)
            }
            ',' if depth == 0 => {
                out.push(cur.trim().to_string());
                cur.clear();
            }
            _ => cur.push(ch),
        }
    }
    if !cur.trim().is_empty() {
        out.push(cur.trim().to_string());
    }
    out
}

fn reg_index(name: &str) -> Option<(char, u8)> {
    let n = name.strip_prefix('%')?;
    if let Some(x) = n.strip_prefix("xmm") {
        return x.parse().ok().map(|i| ('x', i));
    }
    for (w, tab) in [('q', &crate::ops::R64), ('l', &crate::ops::R32), ('b', &crate::ops::R8)] {
        if let Some(i) = tab.iter().position(|r| *r == n) {
            return Some((w, i as u8));
        }
    }
    match n {
        "ah" => Some(('h', 4)),
        "ch" => Some(('h', 5)),
        "dh" => Some(('h', 6)),
        "bh" => Some(('h', 7)),
        _ => None,
    }
}

/// Short, stable description of how `got` differs from `expect` (both normalised).
pub fn classify(expect: &str, got: &str) -> String {
    let (em, eo) = expect.split_once(' ').unwrap_or((expect, ""));
    let (gm, go) = got.split_once(' ').unwrap_or((got, ""));
    let (em, eo, gm, go) = if em == "lock" || gm == "lock" {
        if em != gm {
            return "lock-prefix".to_string();
        }
        let (em2, eo2) = eo.split_once(' ').unwrap_or((eo, ""));
        let (gm2, go2) = go.split_once(' ').unwrap_or((go, ""));
        (em2, eo2, gm2, go2)
    } else {
        (em, eo, gm, go)
    };
    if em != gm {
        return format!("decodes-as-{gm}");
    }
    let e = split_operands(eo);
    let g = split_operands(go);
    if e.len() != g.len() {
        return "operand-count".to_string();
    }
    for (k, (a, b)) in e.iter().zip(g.iter()).enumerate() {
        if a == b {
            continue;
        }
        let kind = match (reg_index(a), reg_index(b)) {
            (Some((wa, ia)), Some((wb, ib))) => {
                if wa != wb {
                    "reg-width".to_string()
                } else if ia % 8 == ib % 8 {
                    "reg-ext-bit".to_string()
                } else {
                    "reg".to_string()
                }
            }
            _ if a.starts_with('$') && b.starts_with('$') => "imm".to_string(),
            _ if a.contains('(') && b.contains('(') => {
                // which part of the address differs
                let (da, ra) = a.split_once('(').unwrap();
                let (db, rb) = b.split_once('(').unwrap();
                if ra == rb {
                    "mem-disp".to_string()
                } else if da == db {
                    let pa: Vec<&str> = ra.trim_end_matches(')').split(',').collect();
                    let pb: Vec<&str> = rb.trim_end_matches(')').split(',').collect();
                    if pa.len() != pb.len() {
                        "mem-shape".to_string()
                    } else if pa.first() != pb.first() {
                        "mem-base".to_string()
                    } else if pa.get(1) != pb.get(1) {
                        "mem-index".to_string()
                    } else {
                        "mem-scale".to_string()
                    }
                } else {
                    "mem".to_string()
                }
            }
            _ if a.starts_with("rel:") => "target".to_string(),
            _ => "kind".to_string(),
        };
        return format!("operand{k}-{kind}");
    }
    "text".to_string()
}

fn joined(lines: &[Line], bits: u8) -> String {
    lines.iter().map(|l| norm_text(&l.text, bits)).collect::<Vec<_>>().join(" ")
}

/// Evaluate a batch of units. `Err` = tool trouble / expected text does not assemble (harness side).
pub fn check_units(units: &[Unit]) -> Result<Vec<Verdict>, String> {
    if units.is_empty() {
        return Ok(vec![]);
    }
    std::fs::create_dir_all(SCRATCH).map_err(|e| format!("cannot create {SCRATCH}: {e}"))?;
    let id = format!("c07-{}-{}", std::process::id(), SEQ.fetch_add(1, Ordering::SeqCst));
    let s_path = PathBuf::from(SCRATCH).join(format!("{id}.s"));
    let o_path = PathBuf::from(SCRATCH).join(format!("{id}.o"));
    let _guard = Scratch { files: vec![s_path.clone(), o_path.clone()] };

    let mut src = String::with_capacity(units.len() * 96);
    src.push_str(".text\n");
    let mut line_no = 1usize;
    let mut line_unit: HashMap<usize, usize> = HashMap::new();
    for (i, u) in units.iter().enumerate() {
        if u.bytes.is_empty() {
            return Err(format!("unit {} ({}) has no emitted bytes", i, u.tag));
        }
        src.push_str(&format!("e{i}:\n.byte "));
        for (k, b) in u.bytes.iter().enumerate() {
            if k > 0 {
                src.push(',');
            }
            src.push_str(&format!("0x{b:02x}"));
        }
        src.push('\n');
        line_no += 2;
        if !u.rel {
            src.push_str(&format!("x{i}:\n{}\n", u.expect));
            line_no += 2;
            line_unit.insert(line_no, i);
        }
    }
    // end marker so that the last symbol has a successor
    src.push_str("zend:\nnop\n");
    std::fs::write(&s_path, &src).map_err(|e| format!("cannot write {}: {e}", s_path.display()))?;

    let mc = Command::new(tool("llvm-mc"))
        .args(["-triple=x86_64", "-mattr=+avx2,+lzcnt,+popcnt,+bmi", "-filetype=obj", "-o"])
        .arg(&o_path)
        .arg(&s_path)
        .output()
        .map_err(|e| format!("cannot run llvm-mc: {e}"))?;
    if !mc.status.success() {
        let err = String::from_utf8_lossy(&mc.stderr);
        // attribute to a unit: "<file>:<line>:<col>: error: ..."
        for l in err.lines() {
            if let Some(rest) = l.strip_prefix(s_path.to_str().unwrap_or("")) {
                let mut it = rest.trim_start_matches(':').split(':');
                if let Some(n) = it.next().and_then(|x| x.parse::<usize>().ok()) {
                    if let Some(&i) = line_unit.get(&n) {
                        return Err(format!(
                            "table/harness bug: expected text {:?} of {} does not assemble with llvm-mc: {}",
                            units[i].expect,
                            units[i].tag,
                            l.rsplit("error:").next().unwrap_or("").trim()
                        ));
                    }
                }
            }
        }
        return Err(format!("llvm-mc failed: {}", err.lines().take(3).collect::<Vec<_>>().join(" | ")));
    }
    let od = Command::new(tool("llvm-objdump")).args(["-d", "--mattr=+avx2,+lzcnt,+popcnt,+bmi"]).arg(&o_path).output().map_err(|e| format!("cannot run llvm-objdump: {e}"))?;
    if !od.status.success() {
        return Err(format!("llvm-objdump failed: {}", String::from_utf8_lossy(&od.stderr).lines().take(3).collect::<Vec<_>>().join(" | ")));
    }
    let out = String::from_utf8_lossy(&od.stdout);
    let map = parse_objdump(&out);

    let mut verdicts = Vec::with_capacity(units.len());
    let empty: Vec<Line> = vec![];
    for (i, u) in units.iter().enumerate() {
        let Some(e) = map.get(&format!("e{i}")) else {
            return Err(format!("symbol e{i} missing from llvm-objdump output"));
        };
        let x = if u.rel { &empty } else { map.get(&format!("x{i}")).ok_or_else(|| format!("symbol x{i} missing from llvm-objdump output"))? };
        let total: usize = e.iter().map(|l| l.len).sum();
        let raw_got = e.iter().map(|l| l.text.split('#').next().unwrap_or("").split_whitespace().collect::<Vec<_>>().join(" ")).collect::<Vec<_>>().join(" ; ");
        let want_lines = if u.expect.starts_with("lock ") { 2 } else { 1 };
        let undecodable = e.is_empty() || e.iter().any(|l| l.text.contains("<unknown>") || l.text.contains("(bad)") || l.text.trim().is_empty());
        let bad = |class: &str, detail: String| Verdict::Bad { class: class.to_string(), got: raw_got.clone(), detail };
        if undecodable {
            verdicts.push(bad("undecodable", format!("bytes {} do not decode", hex(&u.bytes))));
            continue;
        }
        if e.len() != want_lines || total != u.bytes.len() {
            let class = if total > u.bytes.len() {
                "truncated-instruction"
            } else if e.len() > want_lines {
                "more-than-one-instruction"
            } else {
                "wrong-length"
            };
            verdicts.push(bad(class, format!("emitted {} bytes [{}], decoder lists {} instruction(s) covering {} bytes", u.bytes.len(), hex(&u.bytes), e.len(), total)));
            continue;
        }
        let (got, want) = if u.rel {
            let l = &e[0];
            (rel_text(&l.text, l.addr, l.len), u.expect.clone())
        } else {
            (joined(e, u.imm_bits), norm_text(&u.expect, u.imm_bits))
        };
        if got == want {
            verdicts.push(Verdict::Ok);
            continue;
        }
        if !u.rel {
            // converse direction: LLVM's own encoding of the expected text, printed by the same printer
            if x.is_empty() {
                return Err(format!("expected text {:?} of {} produced no instruction", u.expect, u.tag));
            }
            let via = joined(x, u.imm_bits);
            if via == got {
                verdicts.push(Verdict::Ok);
                continue;
            }
        }
        let shown = if u.rel { format!("{raw_got}` = `{got}") } else { raw_got.clone() };
        verdicts.push(bad(&classify(&want, &got), format!("bytes [{}] decode to `{}`", hex(&u.bytes), shown)));
    }
    Ok(verdicts)
}

pub fn hex(b: &[u8]) -> String {
    b.iter().map(|x| format!("{x:02x}")).collect::<Vec<_>>().join(" ")
}

/// Round-trip sanity check used by the table self-check: does every expected text assemble, and does
/// LLVM print it back in the spelling the table uses? Returns (assembles, canonical) per text.
pub fn roundtrip(texts: &[(String, u8)]) -> Result<Vec<(bool, String)>, String> {
    let units: Vec<Unit> = texts.iter().enumerate().map(|(i, (t, bits))| Unit { method: String::new(), tag: format!("row {i}"), bytes: vec![0x90], expect: t.clone(), imm_bits: *bits, rel: false }).collect();
    // reuse the file layout; only the x side is interesting
    std::fs::create_dir_all(SCRATCH).map_err(|e| format!("cannot create {SCRATCH}: {e}"))?;
    let id = format!("c07-rt-{}-{}", std::process::id(), SEQ.fetch_add(1, Ordering::SeqCst));
    let s_path = PathBuf::from(SCRATCH).join(format!("{id}.s"));
    let o_path = PathBuf::from(SCRATCH).join(format!("{id}.o"));
    let _guard = Scratch { files: vec![s_path.clone(), o_path.clone()] };
    let mut src = String::from(".text\n");
    for (i, u) in units.iter().enumerate() {
        src.push_str(&format!("x{i}:\n{}\n", u.expect));
    }
    src.push_str("zend:\nnop\n");
    std::fs::write(&s_path, &src).map_err(|e| format!("cannot write {}: {e}", s_path.display()))?;
    let mc = Command::new(tool("llvm-mc")).args(["-triple=x86_64", "-mattr=+avx2,+lzcnt,+popcnt,+bmi", "-filetype=obj", "-o"]).arg(&o_path).arg(&s_path).output().map_err(|e| format!("cannot run llvm-mc: {e}"))?;
    if !mc.status.success() {
        let err = String::from_utf8_lossy(&mc.stderr);
        let mut bad_lines: Vec<usize> = vec![];
        for l in err.lines() {
            if let Some(rest) = l.strip_prefix(s_path.to_str().unwrap_or("")) {
                if let Some(n) = rest.trim_start_matches(':').split(':').next().and_then(|x| x.parse::<usize>().ok()) {
                    bad_lines.push(n);
                }
            }
        }
        // line of unit i's text = 3 + 2*i
        let mut res: Vec<(bool, String)> = texts.iter().map(|_| (true, String::new())).collect();
        for n in bad_lines {
            if n >= 3 && (n - 3) % 2 == 0 && (n - 3) / 2 < res.len() {
                res[(n - 3) / 2].0 = false;
            }
        }
        if res.iter().all(|r| r.0) {
            return Err(format!("llvm-mc failed: {}", err.lines().take(3).collect::<Vec<_>>().join(" | ")));
        }
        return Ok(res);
    }
    let od = Command::new(tool("llvm-objdump")).args(["-d", "--mattr=+avx2,+lzcnt,+popcnt,+bmi"]).arg(&o_path).output().map_err(|e| format!("cannot run llvm-objdump: {e}"))?;
    let out = String::from_utf8_lossy(&od.stdout);
    let map = parse_objdump(&out);
    Ok(units.iter().enumerate().map(|(i, u)| (true, map.get(&format!("x{i}")).map(|l| joined(l, u.imm_bits)).unwrap_or_default())).collect())
}
