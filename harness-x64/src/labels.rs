//! Sub-check "labels": short programs with labels, jumps (jmp, jmp_near, jcc, jcc_near) and
//! label-relative loads (movq_rl, movss_rl, ... vxorpd_rl), forward and backward, at distances that
//! straddle the rel8 range boundary. After `finalize` (what the compilers call) every jump / load is
//! decoded by LLVM and its target must be the position the label was bound to.

use crate::encode::{key_matches, op_short};
use crate::ops::*;
use crate::oracle::{self, Unit, Verdict};
use crate::stats::Stats;
use crate::table::{Av, K, LRow};
use dora_asm::x64::AssemblerX64;
use serde_json::{Value, json};
use vh::vcore::*;

pub const MAX_PROGS: usize = 400;

#[derive(Clone, Debug, PartialEq, Eq, Hash)]
pub enum Item {
    Bind(usize),
    /// n single-byte nops (`nop()`)
    Nops(u32),
    /// raw data through emit_u32 / emit_u64 / emit_u128 (4, 8 or 16 bytes)
    Data(u8),
    /// kind: 0 jmp, 1 jmp_near, 2 jcc, 3 jcc_near
    Jump { kind: u8, cond: u8, label: usize },
    Load { m: &'static str, ops: Vec<Op>, label: usize },
}

#[derive(Clone, Debug, PartialEq, Eq, Hash)]
pub struct Prog {
    pub avx: bool,
    pub align: usize,
    pub nlabels: usize,
    pub items: Vec<Item>,
}

#[derive(Clone, Debug)]
pub struct PBatch {
    pub progs: Vec<Prog>,
}

pub struct Labels {
    pub lrows: Vec<LRow>,
    pub known: Vec<KnownFinding>,
    pub stats: &'static Stats,
}

pub struct Judged {
    pub idx: usize,
    pub key: String,
    pub msg: String,
}

const JUMP_NAMES: [&str; 4] = ["jmp", "jmp_near", "jcc", "jcc_near"];

/// filler lengths around the rel8 boundary: backward short iff n + 2 <= 128, forward near iff n <= 127
const EDGE_FILL: [u32; 22] = [0, 1, 2, 3, 60, 120, 121, 122, 123, 124, 125, 126, 127, 128, 129, 130, 131, 132, 200, 255, 256, 300];
const FAR_FILL: [u32; 8] = [1000, 32760, 32765, 32766, 32767, 32768, 65536, 70000];

struct Asmd {
    code: Vec<u8>,
    starts: Vec<usize>,
    end: usize,
    bind: Vec<Option<usize>>,
}

enum AsmResult {
    Done(Asmd),
    /// assembler panicked: (item index or None for finalize, message, item starts so far, bind positions so far)
    Panic { at: Option<usize>, msg: String, starts: Vec<usize>, bind: Vec<Option<usize>> },
}

impl Labels {
    pub fn new(stats: &'static Stats) -> Labels {
        Labels { lrows: crate::table::label_rows(), known: load_known_findings(), stats }
    }

    fn lrow(&self, name: &str) -> Option<&LRow> {
        self.lrows.iter().find(|r| r.name == name)
    }

    fn assemble(&self, p: &Prog) -> AsmResult {
        let mut starts: Vec<usize> = vec![];
        let mut bind: Vec<Option<usize>> = vec![None; p.nlabels];
        let at: std::cell::Cell<Option<usize>> = std::cell::Cell::new(None);
        let end = std::cell::Cell::new(0usize);
        let r = guarded(|| {
            let mut a = AssemblerX64::new(p.avx);
            let labels: Vec<_> = (0..p.nlabels).map(|_| a.create_label()).collect();
            for (i, it) in p.items.iter().enumerate() {
                at.set(Some(i));
                starts.push(a.position());
                match it {
                    Item::Bind(l) => {
                        a.bind_label(labels[*l]);
                        bind[*l] = Some(a.position());
                    }
                    Item::Nops(n) => {
                        for _ in 0..*n {
                            a.nop();
                        }
                    }
                    Item::Data(4) => a.emit_u32(0xdeadbeef),
                    Item::Data(8) => a.emit_u64(0x0123456789abcdef),
                    Item::Data(_) => a.emit_u128(0x00112233445566778899aabbccddeeff),
                    Item::Jump { kind, cond, label } => match kind {
                        0 => a.jmp(labels[*label]),
                        1 => a.jmp_near(labels[*label]),
                        2 => a.jcc(condition(*cond), labels[*label]),
                        _ => a.jcc_near(condition(*cond), labels[*label]),
                    },
                    Item::Load { m, ops, label } => {
                        let row = self.lrow(m).expect("label row");
                        (row.emit)(&mut a, ops, labels[*label]);
                    }
                }
            }
            at.set(None);
            end.set(a.position());
            a.finalize(p.align).code()
        });
        match r {
            Ok(code) => AsmResult::Done(Asmd { code, starts, end: end.get(), bind }),
            Err(pi) => AsmResult::Panic { at: at.get(), msg: format!("{} at {}", pi.message, pi.location), starts, bind },
        }
    }

    fn item_name(it: &Item) -> String {
        match it {
            Item::Jump { kind, .. } => JUMP_NAMES[*kind as usize].to_string(),
            Item::Load { m, .. } => m.to_string(),
            Item::Bind(_) => "bind_label".into(),
            Item::Nops(_) => "nop".into(),
            Item::Data(_) => "emit_data".into(),
        }
    }

    fn describe_item(it: &Item) -> String {
        match it {
            Item::Jump { kind, cond, label } => {
                if *kind >= 2 {
                    format!("{}({}, L{label})", JUMP_NAMES[*kind as usize], CONDS[*cond as usize].0)
                } else {
                    format!("{}(L{label})", JUMP_NAMES[*kind as usize])
                }
            }
            Item::Load { m, ops, label } => format!("{m}({}, L{label})", ops.iter().map(op_short).collect::<Vec<_>>().join(", ")),
            Item::Bind(l) => format!("bind L{l}"),
            Item::Nops(n) => format!("{n} x nop"),
            Item::Data(n) => format!("{n} data bytes"),
        }
    }

    pub fn describe(p: &Prog) -> String {
        format!("[{}]{}{}", p.items.iter().map(Self::describe_item).collect::<Vec<_>>().join("; "), if p.avx { " [has_avx2]" } else { "" }, if p.align != 1 { format!(" finalize({})", p.align) } else { String::new() })
    }

    pub fn judge(&self, batch: &PBatch) -> Result<Vec<Judged>, String> {
        let mut failures: Vec<Judged> = vec![];
        let mut units: Vec<Unit> = vec![];
        // (program index, item index, rel distance)
        let mut unit_of: Vec<(usize, usize, i64)> = vec![];
        for (pi, p) in batch.progs.iter().enumerate() {
            let ph = hash64(&("labels", p));
            match self.assemble(p) {
                AsmResult::Panic { at, msg, starts, bind } => {
                    // a refusal is legitimate only for a near jump whose target is out of the rel8 range
                    let mut legit = false;
                    let mut culprit = "finalize".to_string();
                    match at {
                        Some(i) => {
                            culprit = Self::item_name(&p.items[i]);
                            if let Item::Jump { kind, label, .. } = &p.items[i] {
                                if matches!(kind, 1 | 3) {
                                    if let Some(b) = bind[*label] {
                                        let dist = b as i64 - (starts[i] as i64 + 2);
                                        legit = dist < -128;
                                    }
                                }
                            }
                        }
                        None => {
                            for (i, it) in p.items.iter().enumerate() {
                                if let Item::Jump { kind, label, .. } = it {
                                    if matches!(kind, 1 | 3) {
                                        if let Some(b) = bind[*label] {
                                            let dist = b as i64 - (starts[i] as i64 + 2);
                                            if dist > 127 {
                                                legit = true;
                                            } else if dist >= 0 {
                                                culprit = Self::item_name(it);
                                            }
                                        }
                                    }
                                }
                            }
                        }
                    }
                    self.stats.count_instance(ph, true, "near-jump-range-check", || prog_json(p));
                    if legit {
                        self.stats.class("labels/near-jump-out-of-range-refused");
                    } else {
                        failures.push(Judged { idx: pi, key: format!("labels:{culprit}:panics-on-legal-program"), msg: format!("program {} panicked: {}", Self::describe(p), msg) });
                    }
                }
                AsmResult::Done(a) => {
                    // structure: filler untouched, length / padding as requested
                    let mut structural: Option<String> = None;
                    let item_end = |i: usize| if i + 1 < a.starts.len() { a.starts[i + 1] } else { a.end };
                    if a.end > a.code.len() || a.code.len() % p.align != 0 || a.code.len() - a.end >= p.align || a.code[a.end..].iter().any(|b| *b != 0xCC) {
                        structural = Some(format!("finalize({}) of a {}-byte program returned {} bytes / wrong padding", p.align, a.end, a.code.len()));
                    }
                    for (i, it) in p.items.iter().enumerate() {
                        if structural.is_some() {
                            break;
                        }
                        let (s, e) = (a.starts[i], item_end(i));
                        match it {
                            Item::Nops(n) => {
                                if e - s != *n as usize || a.code[s..e].iter().any(|b| *b != 0x90) {
                                    structural = Some(format!("filler item {i} ({n} nops at {s}) was modified"));
                                }
                            }
                            Item::Data(n) => {
                                let want: Vec<u8> = match n {
                                    4 => 0xdeadbeefu32.to_le_bytes().to_vec(),
                                    8 => 0x0123456789abcdefu64.to_le_bytes().to_vec(),
                                    _ => 0x00112233445566778899aabbccddeeffu128.to_le_bytes().to_vec(),
                                };
                                if a.code[s..e] != want[..] {
                                    structural = Some(format!("data item {i} ({n} bytes at {s}) reads [{}]", oracle::hex(&a.code[s..e])));
                                }
                            }
                            Item::Bind(_) => {
                                if e != s {
                                    structural = Some(format!("bind item {i} emitted bytes"));
                                }
                            }
                            _ => {}
                        }
                    }
                    if let Some(m) = structural {
                        self.stats.count_instance(ph, true, "program-structure", || prog_json(p));
                        failures.push(Judged { idx: pi, key: "labels:program:bytes-outside-the-patched-field-changed".into(), msg: format!("program {}: {}", Self::describe(p), m) });
                        continue;
                    }
                    for (i, it) in p.items.iter().enumerate() {
                        let (s, e) = (a.starts[i], item_end(i));
                        match it {
                            Item::Jump { kind, cond, label } => {
                                let tgt = a.bind[*label].expect("generated programs bind every label") as i64;
                                let rel = tgt - e as i64;
                                let mn = if *kind < 2 { "jmp".to_string() } else { format!("j{}", CONDS[*cond as usize].1) };
                                if matches!(kind, 1 | 3) && e - s != 2 {
                                    failures.push(Judged { idx: pi, key: format!("labels:{}:not-the-short-form", JUMP_NAMES[*kind as usize]), msg: format!("program {}: item {i} emitted {} bytes", Self::describe(p), e - s) });
                                    continue;
                                }
                                units.push(Unit { method: JUMP_NAMES[*kind as usize].to_string(), tag: format!("item {i} of {}", Self::describe(p)), bytes: a.code[s..e].to_vec(), expect: format!("{mn} rel:{rel}"), imm_bits: 64, rel: true });
                                unit_of.push((pi, i, rel));
                            }
                            Item::Load { m, ops, label } => {
                                let tgt = a.bind[*label].expect("generated programs bind every label") as i64;
                                let rel = tgt - e as i64;
                                let row = self.lrow(m).expect("label row");
                                units.push(Unit { method: m.to_string(), tag: format!("item {i} of {}", Self::describe(p)), bytes: a.code[s..e].to_vec(), expect: (row.text)(ops, rel), imm_bits: 64, rel: false });
                                unit_of.push((pi, i, rel));
                            }
                            _ => {}
                        }
                    }
                }
            }
        }
        let verdicts = oracle::check_units(&units)?;
        for (u, v) in verdicts.iter().enumerate() {
            let (pi, i, rel) = unit_of[u];
            let p = &batch.progs[pi];
            let it = &p.items[i];
            let name = Self::item_name(it);
            let ext = matches!(it, Item::Load { ops, .. } if ops.iter().any(|o| o.nontrivial()));
            let edge = (rel + 128).abs() <= 2 || (rel - 127).abs() <= 2 || near_boundary(rel);
            // distinctness: the checked instruction together with its distance and direction
            let h = hash64(&("labels", it, rel, units[u].bytes.len()));
            self.stats.count_instance(h, ext || edge, &name, || json!({"m": name, "item": Self::describe_item(it), "rel": rel, "emitted": oracle::hex(&units[u].bytes), "expect": units[u].expect}));
            let dir = if rel < 0 { "backward" } else { "forward" };
            let form = match it {
                Item::Jump { .. } => {
                    if units[u].bytes.len() == 2 {
                        "rel8"
                    } else {
                        "rel32"
                    }
                }
                _ => "rip-load",
            };
            self.stats.class(&format!("labels/{dir}-{form}"));
            if edge {
                self.stats.class(&format!("labels/{dir}-{form}-at-rel8-boundary"));
            }
            if let Verdict::Bad { class, got, detail } = v {
                failures.push(Judged {
                    idx: pi,
                    key: format!("labels:{name}:{class}"),
                    msg: format!("{}: label is {} bytes from the end of the instruction, requested `{}`, decoder says `{}` ({})", units[u].tag, rel, units[u].expect, got, detail),
                });
            }
        }
        failures.sort_by_key(|f| f.idx);
        Ok(failures)
    }

    pub fn pick<'a>(&self, fails: &'a [Judged]) -> Option<&'a Judged> {
        fails.iter().find(|f| !self.known.iter().any(|k| k.property == "C07" && k.status == "open" && key_matches(&k.key, &f.key))).or(fails.first())
    }

    fn gen_ops(&self, row: &LRow, c: &mut Choices) -> Vec<Op> {
        row.kinds
            .iter()
            .map(|k| match k {
                K::R => Op::R(c.below(16) as u8),
                _ => Op::X(c.below(16) as u8),
            })
            .collect()
    }

    /// a jump or a label load compatible with the assembler configuration
    fn gen_ref(&self, c: &mut Choices, avx: bool, label: usize, allow_near: bool) -> Item {
        let loads: Vec<&LRow> = self.lrows.iter().filter(|r| match r.av {
            Av::Any => true,
            Av::Sse => !avx,
            Av::Avx => avx,
        }).collect();
        match c.weighted(&[3, if allow_near { 3 } else { 0 }, 3, if allow_near { 3 } else { 0 }, 4]) {
            k @ 0..=3 => Item::Jump { kind: k as u8, cond: c.below(28) as u8, label },
            _ => {
                let row = loads[c.below(loads.len())];
                Item::Load { m: row.name, ops: self.gen_ops(row, c), label }
            }
        }
    }

    fn gen_fill(c: &mut Choices) -> u32 {
        match c.weighted(&[6, 3, 1]) {
            0 => EDGE_FILL[c.below(EDGE_FILL.len())],
            1 => c.below(300) as u32,
            _ => FAR_FILL[c.below(FAR_FILL.len())],
        }
    }

    pub fn gen_prog(&self, c: &mut Choices) -> Prog {
        let avx = c.chance(1, 2);
        let align = *c.pick(&[1usize, 16, 1, 8]);
        if c.chance(3, 5) {
            // targeted: one reference, one label, filler of a boundary length in between
            let pre = c.below(24) as u32;
            let backward = c.chance(1, 2);
            let r = self.gen_ref(c, avx, 0, true);
            let n = Self::gen_fill(c);
            let mut items = vec![];
            if pre > 0 {
                items.push(Item::Nops(pre));
            }
            if backward {
                items.extend([Item::Bind(0), Item::Nops(n), r]);
            } else {
                items.extend([r, Item::Nops(n), Item::Bind(0)]);
            }
            if c.chance(1, 3) {
                items.push(Item::Data(*c.pick(&[4u8, 8, 16])));
            }
            Prog { avx, align, nlabels: 1, items }
        } else {
            // generic: several labels, references in any order
            let nlabels = 1 + c.below(4);
            let nrefs = 2 + c.below(8);
            let mut items: Vec<Item> = vec![];
            for _ in 0..nrefs {
                if c.chance(2, 3) {
                    items.push(Item::Nops(match c.weighted(&[3, 2, 1]) {
                        0 => c.below(8) as u32,
                        1 => 100 + c.below(40) as u32,
                        _ => c.below(400) as u32,
                    }));
                }
                if c.chance(1, 8) {
                    items.push(Item::Data(*c.pick(&[4u8, 8, 16])));
                }
                let l = c.below(nlabels);
                let near = c.chance(1, 6);
                items.push(self.gen_ref(c, avx, l, near));
            }
            for l in 0..nlabels {
                let pos = c.below(items.len() + 1);
                items.insert(pos, Item::Bind(l));
            }
            Prog { avx, align, nlabels, items }
        }
    }

    /// Systematic boundary programs: every jump method and every label load x forward / backward x
    /// every filler length of EDGE_FILL (+ far distances for the rel32 forms).
    pub fn enumeration(&self) -> Vec<PBatch> {
        let mut progs = vec![];
        let mut t = 0u32;
        let mut refs: Vec<(bool, Item)> = vec![];
        for kind in 0..4u8 {
            for cond in 0..28u8 {
                if kind < 2 && cond > 0 {
                    continue;
                }
                for avx in [false, true] {
                    refs.push((avx, Item::Jump { kind, cond, label: 0 }));
                }
            }
        }
        for row in &self.lrows {
            for r0 in 0..16u8 {
                let ops: Vec<Op> = row.kinds.iter().enumerate().map(|(k, kd)| if *kd == K::R { Op::R(r0) } else { Op::X((r0 + 5 * k as u8) % 16) }).collect();
                match row.av {
                    Av::Any => {
                        refs.push((false, Item::Load { m: row.name, ops: ops.clone(), label: 0 }));
                        refs.push((true, Item::Load { m: row.name, ops, label: 0 }));
                    }
                    Av::Sse => refs.push((false, Item::Load { m: row.name, ops, label: 0 })),
                    Av::Avx => refs.push((true, Item::Load { m: row.name, ops, label: 0 })),
                }
            }
        }
        for (avx, r) in refs {
            let is_jump = matches!(r, Item::Jump { .. });
            let cond_variant = matches!(r, Item::Jump { cond, .. } if cond > 0);
            let fills: Vec<u32> = if !is_jump {
                vec![0, 126, 127, 128, 70000]
            } else if cond_variant {
                // all distances for one condition per method, a rotating subset for the others
                let k = (t as usize * 5) % EDGE_FILL.len();
                vec![EDGE_FILL[k], EDGE_FILL[(k + 7) % EDGE_FILL.len()], 126, 127, 128]
            } else {
                EDGE_FILL.iter().chain(FAR_FILL.iter()).copied().collect()
            };
            for n in fills {
                for backward in [false, true] {
                    t += 1;
                    let pre = t % 5;
                    let mut items = vec![];
                    if pre > 0 {
                        items.push(Item::Nops(pre));
                    }
                    if backward {
                        items.extend([Item::Bind(0), Item::Nops(n), r.clone()]);
                    } else {
                        items.extend([r.clone(), Item::Nops(n), Item::Bind(0)]);
                    }
                    progs.push(Prog { avx, align: if t % 3 == 0 { 16 } else { 1 }, nlabels: 1, items });
                }
            }
        }
        progs.chunks(MAX_PROGS).map(|c| PBatch { progs: c.to_vec() }).collect()
    }
}

pub fn item_json(it: &Item) -> Value {
    match it {
        Item::Bind(l) => json!({"bind": l}),
        Item::Nops(n) => json!({"nops": n}),
        Item::Data(n) => json!({"data": n}),
        Item::Jump { kind, cond, label } => json!({"jump": JUMP_NAMES[*kind as usize], "cond": cond, "cond_name": CONDS[*cond as usize].0, "label": label}),
        Item::Load { m, ops, label } => json!({"load": m, "ops": ops.iter().map(|o| o.to_json()).collect::<Vec<_>>(), "label": label}),
    }
}

pub fn prog_json(p: &Prog) -> Value {
    json!({"avx": p.avx, "align": p.align, "nlabels": p.nlabels, "items": p.items.iter().map(item_json).collect::<Vec<_>>(), "text": Labels::describe(p)})
}

fn prog_from_json(l: &Labels, v: &Value) -> Option<Prog> {
    let nlabels = v["nlabels"].as_u64()? as usize;
    let align = v["align"].as_u64()? as usize;
    if !matches!(align, 1 | 2 | 4 | 8 | 16) || nlabels > 64 {
        return None;
    }
    let mut items = vec![];
    let mut bound = vec![false; nlabels];
    for it in v["items"].as_array()? {
        let label = || it["label"].as_u64().map(|x| x as usize).filter(|x| *x < nlabels);
        if let Some(b) = it.get("bind") {
            let b = b.as_u64()? as usize;
            if b >= nlabels || bound[b] {
                return None;
            }
            bound[b] = true;
            items.push(Item::Bind(b));
        } else if let Some(n) = it.get("nops") {
            items.push(Item::Nops(n.as_u64().filter(|n| *n <= 1_000_000)? as u32));
        } else if let Some(n) = it.get("data") {
            items.push(Item::Data(n.as_u64().filter(|n| matches!(n, 4 | 8 | 16))? as u8));
        } else if let Some(j) = it.get("jump") {
            let kind = JUMP_NAMES.iter().position(|n| Some(*n) == j.as_str())? as u8;
            items.push(Item::Jump { kind, cond: it["cond"].as_u64().filter(|c| *c < 28)? as u8, label: label()? });
        } else if let Some(m) = it.get("load") {
            let row = l.lrow(m.as_str()?)?;
            let ops: Vec<Op> = it["ops"].as_array()?.iter().map(Op::from_json).collect::<Option<Vec<_>>>()?;
            if ops.len() != row.kinds.len() || ops.iter().zip(row.kinds.iter()).any(|(o, k)| !matches!((o, k), (Op::R(_), K::R) | (Op::X(_), K::X))) {
                return None;
            }
            items.push(Item::Load { m: row.name, ops, label: label()? });
        } else {
            return None;
        }
    }
    if bound.iter().any(|b| !*b) {
        return None;
    }
    Some(Prog { avx: v["avx"].as_bool()?, align, nlabels, items })
}

impl Prop for Labels {
    type Case = PBatch;
    fn name(&self) -> &str {
        "labels"
    }
    fn generate(&self, c: &mut Choices) -> PBatch {
        let mut progs = vec![];
        loop {
            progs.push(self.gen_prog(c));
            if c.exhausted() || progs.len() >= MAX_PROGS {
                break;
            }
        }
        PBatch { progs }
    }
    fn eval(&self, case: &PBatch) -> Outcome {
        let h = hash64(&case.progs);
        match self.judge(case) {
            Err(e) => Outcome { inconclusive: Some(e), hash: h, ..Default::default() },
            Ok(fails) => match self.pick(&fails) {
                Some(f) => Outcome::fail(h, f.key.clone(), format!("{} [{} failures in a batch of {} programs]", f.msg, fails.len(), case.progs.len())),
                None => Outcome::pass(h, true).class("batches"),
            },
        }
    }
    fn render(&self, case: &PBatch) -> Value {
        json!({"progs": case.progs.iter().take(if case.progs.len() > 4 { 2 } else { 4 }).map(prog_json).collect::<Vec<_>>(), "batch_size": case.progs.len()})
    }
    fn from_rendered(&self, v: &Value) -> Option<PBatch> {
        let arr = v["progs"].as_array()?;
        if v["batch_size"].as_u64().map(|n| n as usize != arr.len()).unwrap_or(false) {
            return None;
        }
        let progs: Vec<Prog> = arr.iter().map(|x| prog_from_json(self, x)).collect::<Option<Vec<_>>>()?;
        if progs.is_empty() { None } else { Some(PBatch { progs }) }
    }
    fn minimize(&self, case: &PBatch, fails: &dyn Fn(&PBatch) -> bool) -> Option<PBatch> {
        let judged = self.judge(case).ok()?;
        let f = self.pick(&judged)?;
        let mut cur = case.progs[f.idx].clone();
        if !fails(&PBatch { progs: vec![cur.clone()] }) {
            return None;
        }
        // drop items that are not needed (never a Bind: every label must stay bound), then shrink fillers
        let mut i = 0;
        while i < cur.items.len() {
            if matches!(cur.items[i], Item::Bind(_)) {
                i += 1;
                continue;
            }
            let mut cand = cur.clone();
            cand.items.remove(i);
            if fails(&PBatch { progs: vec![cand.clone()] }) {
                cur = cand;
            } else {
                i += 1;
            }
        }
        if cur.align != 1 {
            let mut cand = cur.clone();
            cand.align = 1;
            if fails(&PBatch { progs: vec![cand.clone()] }) {
                cur = cand;
            }
        }
        Some(PBatch { progs: vec![cur] })
    }
}
