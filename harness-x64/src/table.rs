//! The instruction table: one row per public instruction-emitting method of `AssemblerX64`.
//!
//! `emit` calls the method; `text` is the *independent* statement of what the method name asks
//! for, written as AT&T assembly in the canonical spelling LLVM prints. Operand indices follow the
//! parameter order of the method. Nothing here is derived from the encoder's implementation.

use crate::ops::*;
use dora_asm::Label;
use dora_asm::x64::AssemblerX64;

#[derive(Clone, Copy, Debug, PartialEq, Eq)]
pub enum K {
    R,
    X,
    M,
    C,
    I(Ic),
}

#[derive(Clone, Copy, Debug, PartialEq, Eq)]
pub enum Av {
    /// method debug_asserts !has_avx2
    Sse,
    /// method debug_asserts has_avx2
    Avx,
    /// no constraint: both assembler configurations are generated
    Any,
}

pub struct Row {
    pub name: &'static str,
    pub kinds: &'static [K],
    pub av: Av,
    /// width the immediate operand is reduced to before comparing (LLVM prints the same 32-bit
    /// immediate as -1 or 4294967295 depending on the encoding form)
    pub imm_bits: u8,
    /// operand 0 is a rel32 displacement (call_rel32): compared as a relative target
    pub rel: bool,
    pub emit: fn(&mut AssemblerX64, &[Op]),
    pub text: fn(&[Op]) -> String,
}

fn q(o: &[Op], i: usize) -> String {
    match o[i] {
        Op::R(n) => format!("%{}", R64[n as usize]),
        _ => panic!("table: operand {i} is not a gpr"),
    }
}
fn l(o: &[Op], i: usize) -> String {
    match o[i] {
        Op::R(n) => format!("%{}", R32[n as usize]),
        _ => panic!("table: operand {i} is not a gpr"),
    }
}
fn b(o: &[Op], i: usize) -> String {
    match o[i] {
        Op::R(n) => format!("%{}", R8[n as usize]),
        _ => panic!("table: operand {i} is not a gpr"),
    }
}
fn x(o: &[Op], i: usize) -> String {
    match o[i] {
        Op::X(n) => format!("%xmm{n}"),
        _ => panic!("table: operand {i} is not an xmm register"),
    }
}
fn m(o: &[Op], i: usize) -> String {
    match &o[i] {
        Op::M(mm) => mm.text(),
        _ => panic!("table: operand {i} is not an address"),
    }
}
fn im(o: &[Op], i: usize) -> String {
    format!("${}", o[i].int())
}
fn cc(o: &[Op], i: usize) -> &'static str {
    match o[i] {
        Op::C(c) => CONDS[c as usize].1,
        _ => panic!("table: operand {i} is not a condition"),
    }
}

use K::*;
const I8: K = I(Ic::I8);
const U8: K = I(Ic::U8);
const I8U8: K = I(Ic::I8U8);
const I32: K = I(Ic::I32);
const I32U32: K = I(Ic::I32U32);
const I64: K = I(Ic::I64);
const SH: K = I(Ic::Sh);
const MODE: K = I(Ic::U8Mode);
const _: K = I8;

macro_rules! row {
    ($name:ident, [$($k:expr),*], $av:ident, $bits:expr, |$a:ident, $o:ident| $emit:expr, |$t:ident| $text:expr) => {
        Row {
            name: stringify!($name),
            kinds: &[$($k),*],
            av: Av::$av,
            imm_bits: $bits,
            rel: false,
            emit: |$a: &mut AssemblerX64, $o: &[Op]| { $emit; },
            text: |$t: &[Op]| -> String { $text },
        }
    };
}

/// dest, src general-purpose registers, same width: `op src, dest`
macro_rules! rr {
    ($name:ident, $mn:literal, $w:ident) => {
        row!($name, [R, R], Any, 64, |a, o| a.$name(o[0].reg(), o[1].reg()), |o| format!(concat!($mn, " {}, {}"), $w(o, 1), $w(o, 0)))
    };
}
/// single general-purpose register
macro_rules! r1 {
    ($name:ident, $fmt:literal, $w:ident) => {
        row!($name, [R], Any, 64, |a, o| a.$name(o[0].reg()), |o| format!($fmt, $w(o, 0)))
    };
}
/// register, immediate: `op $imm, reg`
macro_rules! ri {
    ($name:ident, $mn:literal, $w:ident, $ik:expr, $bits:expr) => {
        row!($name, [R, $ik], Any, $bits, |a, o| a.$name(o[0].reg(), o[1].imm()), |o| format!(concat!($mn, " {}, {}"), im(o, 1), $w(o, 0)))
    };
}
/// address, immediate: `op $imm, mem`
macro_rules! ai {
    ($name:ident, $mn:literal, $ik:expr, $bits:expr) => {
        row!($name, [M, $ik], Any, $bits, |a, o| a.$name(o[0].addr(), o[1].imm()), |o| format!(concat!($mn, " {}, {}"), im(o, 1), m(o, 0)))
    };
}
/// address, register: `op reg, mem`
macro_rules! ar {
    ($name:ident, $mn:literal, $w:ident) => {
        row!($name, [M, R], Any, 64, |a, o| a.$name(o[0].addr(), o[1].reg()), |o| format!(concat!($mn, " {}, {}"), $w(o, 1), m(o, 0)))
    };
}
/// register, address: `op mem, reg`
macro_rules! ra {
    ($name:ident, $mn:literal, $w:ident) => {
        row!($name, [R, M], Any, 64, |a, o| a.$name(o[0].reg(), o[1].addr()), |o| format!(concat!($mn, " {}, {}"), m(o, 1), $w(o, 0)))
    };
}
/// SSE dest, src xmm: `op src, dest`
macro_rules! xx {
    ($name:ident, $mn:literal, $av:ident) => {
        row!($name, [X, X], $av, 64, |a, o| a.$name(o[0].xmm(), o[1].xmm()), |o| format!(concat!($mn, " {}, {}"), x(o, 1), x(o, 0)))
    };
}
/// AVX dest, lhs, rhs xmm: `op rhs, lhs, dest`
macro_rules! vxxx {
    ($name:ident, $mn:literal) => {
        row!($name, [X, X, X], Avx, 64, |a, o| a.$name(o[0].xmm(), o[1].xmm(), o[2].xmm()), |o| format!(concat!($mn, " {}, {}, {}"), x(o, 2), x(o, 1), x(o, 0)))
    };
}
/// xmm dest, address: `op mem, dest`
macro_rules! xa {
    ($name:ident, $mn:literal, $av:ident) => {
        row!($name, [X, M], $av, 64, |a, o| a.$name(o[0].xmm(), o[1].addr()), |o| format!(concat!($mn, " {}, {}"), m(o, 1), x(o, 0)))
    };
}
/// address dest, xmm src: `op src, mem`
macro_rules! ax {
    ($name:ident, $mn:literal, $av:ident) => {
        row!($name, [M, X], $av, 64, |a, o| a.$name(o[0].addr(), o[1].xmm()), |o| format!(concat!($mn, " {}, {}"), x(o, 1), m(o, 0)))
    };
}
/// AVX xmm dest, xmm lhs, address: `op mem, lhs, dest`
macro_rules! vxxa {
    ($name:ident, $mn:literal) => {
        row!($name, [X, X, M], Avx, 64, |a, o| a.$name(o[0].xmm(), o[1].xmm(), o[2].addr()), |o| format!(concat!($mn, " {}, {}, {}"), m(o, 2), x(o, 1), x(o, 0)))
    };
}
/// no operands
macro_rules! z {
    ($name:ident, $mn:literal) => {
        row!($name, [], Any, 64, |a, _o| a.$name(), |_o| $mn.to_string())
    };
}

pub fn rows() -> Vec<Row> {
    vec![
        // ---- integer arithmetic / logic, register-register
        rr!(addl_rr, "addl", l),
        rr!(addq_rr, "addq", q),
        rr!(andl_rr, "andl", l),
        rr!(andq_rr, "andq", q),
        rr!(orl_rr, "orl", l),
        rr!(orq_rr, "orq", q),
        rr!(subl_rr, "subl", l),
        rr!(subq_rr, "subq", q),
        rr!(xorl_rr, "xorl", l),
        rr!(xorq_rr, "xorq", q),
        rr!(movl_rr, "movl", l),
        rr!(movq_rr, "movq", q),
        // cmp lhs, rhs computes lhs - rhs; AT&T: cmp rhs, lhs
        rr!(cmpb_rr, "cmpb", b),
        rr!(cmpl_rr, "cmpl", l),
        rr!(cmpq_rr, "cmpq", q),
        rr!(testb_rr, "testb", b),
        rr!(testl_rr, "testl", l),
        rr!(testq_rr, "testq", q),
        rr!(imull_rr, "imull", l),
        rr!(imulq_rr, "imulq", q),
        rr!(lzcntl_rr, "lzcntl", l),
        rr!(lzcntq_rr, "lzcntq", q),
        rr!(popcntl_rr, "popcntl", l),
        rr!(popcntq_rr, "popcntq", q),
        rr!(tzcntl_rr, "tzcntl", l),
        rr!(tzcntq_rr, "tzcntq", q),
        // ---- extensions
        row!(movsxbl_rr, [R, R], Any, 64, |a, o| a.movsxbl_rr(o[0].reg(), o[1].reg()), |o| format!("movsbl {}, {}", b(o, 1), l(o, 0))),
        row!(movsxbq_rr, [R, R], Any, 64, |a, o| a.movsxbq_rr(o[0].reg(), o[1].reg()), |o| format!("movsbq {}, {}", b(o, 1), q(o, 0))),
        row!(movsxlq_rr, [R, R], Any, 64, |a, o| a.movsxlq_rr(o[0].reg(), o[1].reg()), |o| format!("movslq {}, {}", l(o, 1), q(o, 0))),
        row!(movzxb_rr, [R, R], Any, 64, |a, o| a.movzxb_rr(o[0].reg(), o[1].reg()), |o| format!("movzbl {}, {}", b(o, 1), l(o, 0))),
        ra!(movsxbl_ra, "movsbl", l),
        ra!(movsxbq_ra, "movsbq", q),
        ra!(movzxb_ra, "movzbl", l),
        // ---- conditional
        row!(cmovl, [C, R, R], Any, 64, |a, o| a.cmovl(o[0].cond(), o[1].reg(), o[2].reg()), |o| format!("cmov{}l {}, {}", cc(o, 0), l(o, 2), l(o, 1))),
        row!(cmovq, [C, R, R], Any, 64, |a, o| a.cmovq(o[0].cond(), o[1].reg(), o[2].reg()), |o| format!("cmov{}q {}, {}", cc(o, 0), q(o, 2), q(o, 1))),
        row!(setcc_r, [C, R], Any, 64, |a, o| a.setcc_r(o[0].cond(), o[1].reg()), |o| format!("set{} {}", cc(o, 0), b(o, 1))),
        // ---- single register
        r1!(call_r, "callq *{}", q),
        r1!(jmp_r, "jmpq *{}", q),
        r1!(idivl_r, "idivl {}", l),
        r1!(idivq_r, "idivq {}", q),
        r1!(negl, "negl {}", l),
        r1!(negq, "negq {}", q),
        r1!(notl, "notl {}", l),
        r1!(notq, "notq {}", q),
        r1!(pushq_r, "pushq {}", q),
        r1!(popq_r, "popq {}", q),
        r1!(roll_r, "roll %cl, {}", l),
        r1!(rolq_r, "rolq %cl, {}", q),
        r1!(rorl_r, "rorl %cl, {}", l),
        r1!(rorq_r, "rorq %cl, {}", q),
        r1!(sarl_r, "sarl %cl, {}", l),
        r1!(sarq_r, "sarq %cl, {}", q),
        r1!(shll_r, "shll %cl, {}", l),
        r1!(shlq_r, "shlq %cl, {}", q),
        r1!(shrl_r, "shrl %cl, {}", l),
        r1!(shrq_r, "shrq %cl, {}", q),
        // ---- register, immediate
        ri!(addl_ri, "addl", l, I32, 32),
        ri!(addq_ri, "addq", q, I32, 64),
        ri!(andq_ri, "andq", q, I32, 64),
        ri!(cmpl_ri, "cmpl", l, I32, 32),
        ri!(cmpq_ri, "cmpq", q, I32, 64),
        ri!(subq_ri, "subq", q, I32, 64),
        ri!(xorl_ri, "xorl", l, I32, 32),
        ri!(movl_ri, "movl", l, I32, 32),
        // movq with a 64-bit immediate is the movabs form
        row!(movq_ri, [R, I64], Any, 64, |a, o| a.movq_ri(o[0].reg(), o[1].imm()), |o| {
            let v = o[1].int();
            if v >= i32::MIN as i64 && v <= i32::MAX as i64 { format!("movq {}, {}", im(o, 1), q(o, 0)) } else { format!("movabsq {}, {}", im(o, 1), q(o, 0)) }
        }),
        ri!(sarl_ri, "sarl", l, SH, 8),
        ri!(sarq_ri, "sarq", q, SH, 8),
        ri!(shll_ri, "shll", l, SH, 8),
        ri!(shlq_ri, "shlq", q, SH, 8),
        ri!(shrl_ri, "shrl", l, SH, 8),
        ri!(shrq_ri, "shrq", q, SH, 8),
        // testl reg, imm: the assembler deliberately narrows to `testb` for immediates 0..=255 (its unit
        // tests pin those bytes). Accepted as the requested operation, see assumptions in the evidence.
        row!(testl_ri, [R, I32], Any, 32, |a, o| a.testl_ri(o[0].reg(), o[1].imm()), |o| {
            let v = o[1].int();
            if (0..256).contains(&v) { format!("testb {}, {}", im(o, 1), b(o, 0)) } else { format!("testl {}, {}", im(o, 1), l(o, 0)) }
        }),
        // ---- address, immediate
        ai!(cmpb_ai, "cmpb", I8U8, 8),
        ai!(cmpl_ai, "cmpl", I32U32, 32),
        ai!(cmpq_ai, "cmpq", I32, 64),
        ai!(movb_ai, "movb", I8U8, 8),
        ai!(movl_ai, "movl", I32U32, 32),
        ai!(movq_ai, "movq", I32, 64),
        ai!(testb_ai, "testb", U8, 8),
        ai!(testl_ai, "testl", I32, 32),
        ai!(testq_ai, "testq", I32, 64),
        // ---- address, register
        ar!(cmpb_ar, "cmpb", b),
        ar!(cmpl_ar, "cmpl", l),
        ar!(cmpq_ar, "cmpq", q),
        ar!(cmpxchgl_ar, "cmpxchgl", l),
        ar!(cmpxchgq_ar, "cmpxchgq", q),
        ar!(lock_cmpxchgl_ar, "lock cmpxchgl", l),
        ar!(lock_cmpxchgq_ar, "lock cmpxchgq", q),
        ar!(xaddl_ar, "xaddl", l),
        ar!(xaddq_ar, "xaddq", q),
        ar!(lock_xaddl_ar, "lock xaddl", l),
        ar!(lock_xaddq_ar, "lock xaddq", q),
        ar!(xchgb_ar, "xchgb", b),
        ar!(xchgl_ar, "xchgl", l),
        ar!(xchgq_ar, "xchgq", q),
        ar!(movb_ar, "movb", b),
        ar!(movl_ar, "movl", l),
        ar!(movq_ar, "movq", q),
        ar!(testl_ar, "testl", l),
        ar!(testq_ar, "testq", q),
        // ---- register, address
        ra!(lea, "leaq", q),
        ra!(movb_ra, "movb", b),
        ra!(movl_ra, "movl", l),
        ra!(movq_ra, "movq", q),
        // ---- no operands
        z!(cdq, "cltd"),
        z!(cqo, "cqto"),
        z!(int3, "int3"),
        z!(mfence, "mfence"),
        z!(nop, "nop"),
        z!(retq, "retq"),
        // ---- call rel32: compared as relative target
        Row {
            name: "call_rel32",
            kinds: &[I32],
            av: Av::Any,
            imm_bits: 64,
            rel: true,
            emit: |a: &mut AssemblerX64, o: &[Op]| a.call_rel32(o[0].int() as i32),
            text: |o: &[Op]| format!("callq rel:{}", o[0].int()),
        },
        // ---- SSE scalar
        xx!(addss_rr, "addss", Sse),
        xx!(addsd_rr, "addsd", Sse),
        xx!(subss_rr, "subss", Sse),
        xx!(subsd_rr, "subsd", Sse),
        xx!(mulss_rr, "mulss", Sse),
        xx!(mulsd_rr, "mulsd", Sse),
        xx!(divss_rr, "divss", Sse),
        xx!(divsd_rr, "divsd", Sse),
        xx!(sqrtss_rr, "sqrtss", Sse),
        xx!(sqrtsd_rr, "sqrtsd", Sse),
        xx!(cvtsd2ss_rr, "cvtsd2ss", Sse),
        xx!(cvtss2sd_rr, "cvtss2sd", Sse),
        xx!(movss_rr, "movss", Sse),
        xx!(movsd_rr, "movsd", Sse),
        xx!(pxor_rr, "pxor", Sse),
        xx!(ucomiss_rr, "ucomiss", Sse),
        xx!(ucomisd_rr, "ucomisd", Sse),
        xx!(xorps_rr, "xorps", Any),
        row!(cvtsi2ssd_rr, [X, R], Sse, 64, |a, o| a.cvtsi2ssd_rr(o[0].xmm(), o[1].reg()), |o| format!("cvtsi2ss {}, {}", l(o, 1), x(o, 0))),
        row!(cvtsi2ssq_rr, [X, R], Sse, 64, |a, o| a.cvtsi2ssq_rr(o[0].xmm(), o[1].reg()), |o| format!("cvtsi2ss {}, {}", q(o, 1), x(o, 0))),
        row!(cvtsi2sdd_rr, [X, R], Sse, 64, |a, o| a.cvtsi2sdd_rr(o[0].xmm(), o[1].reg()), |o| format!("cvtsi2sd {}, {}", l(o, 1), x(o, 0))),
        row!(cvtsi2sdq_rr, [X, R], Sse, 64, |a, o| a.cvtsi2sdq_rr(o[0].xmm(), o[1].reg()), |o| format!("cvtsi2sd {}, {}", q(o, 1), x(o, 0))),
        row!(cvttss2sid_rr, [R, X], Sse, 64, |a, o| a.cvttss2sid_rr(o[0].reg(), o[1].xmm()), |o| format!("cvttss2si {}, {}", x(o, 1), l(o, 0))),
        row!(cvttss2siq_rr, [R, X], Sse, 64, |a, o| a.cvttss2siq_rr(o[0].reg(), o[1].xmm()), |o| format!("cvttss2si {}, {}", x(o, 1), q(o, 0))),
        row!(cvttsd2sid_rr, [R, X], Sse, 64, |a, o| a.cvttsd2sid_rr(o[0].reg(), o[1].xmm()), |o| format!("cvttsd2si {}, {}", x(o, 1), l(o, 0))),
        row!(cvttsd2siq_rr, [R, X], Sse, 64, |a, o| a.cvttsd2siq_rr(o[0].reg(), o[1].xmm()), |o| format!("cvttsd2si {}, {}", x(o, 1), q(o, 0))),
        row!(movd_rx, [R, X], Sse, 64, |a, o| a.movd_rx(o[0].reg(), o[1].xmm()), |o| format!("movd {}, {}", x(o, 1), l(o, 0))),
        row!(movd_xr, [X, R], Sse, 64, |a, o| a.movd_xr(o[0].xmm(), o[1].reg()), |o| format!("movd {}, {}", l(o, 1), x(o, 0))),
        row!(movq_rx, [R, X], Sse, 64, |a, o| a.movq_rx(o[0].reg(), o[1].xmm()), |o| format!("movq {}, {}", x(o, 1), q(o, 0))),
        row!(movq_xr, [X, R], Sse, 64, |a, o| a.movq_xr(o[0].xmm(), o[1].reg()), |o| format!("movq {}, {}", q(o, 1), x(o, 0))),
        row!(roundss_ri, [X, X, MODE], Sse, 8, |a, o| a.roundss_ri(o[0].xmm(), o[1].xmm(), o[2].int() as u8), |o| format!("roundss {}, {}, {}", im(o, 2), x(o, 1), x(o, 0))),
        row!(roundsd_ri, [X, X, MODE], Sse, 8, |a, o| a.roundsd_ri(o[0].xmm(), o[1].xmm(), o[2].int() as u8), |o| format!("roundsd {}, {}, {}", im(o, 2), x(o, 1), x(o, 0))),
        // SSE memory forms
        xa!(andps_ra, "andps", Sse),
        xa!(xorps_ra, "xorps", Any),
        xa!(xorpd_ra, "xorpd", Any),
        xa!(movss_ra, "movss", Sse),
        xa!(movsd_ra, "movsd", Sse),
        ax!(movss_ar, "movss", Sse),
        ax!(movsd_ar, "movsd", Sse),
        ax!(movaps_ar, "movaps", Sse),
        ax!(movups_ar, "movups", Sse),
        // ---- AVX scalar
        vxxx!(vaddss_rr, "vaddss"),
        vxxx!(vaddsd_rr, "vaddsd"),
        vxxx!(vsubss_rr, "vsubss"),
        vxxx!(vsubsd_rr, "vsubsd"),
        vxxx!(vmulss_rr, "vmulss"),
        vxxx!(vmulsd_rr, "vmulsd"),
        vxxx!(vdivss_rr, "vdivss"),
        vxxx!(vdivsd_rr, "vdivsd"),
        vxxx!(vsqrtss_rr, "vsqrtss"),
        vxxx!(vsqrtsd_rr, "vsqrtsd"),
        vxxx!(vcvtsd2ss_rr, "vcvtsd2ss"),
        vxxx!(vcvtss2sd_rr, "vcvtss2sd"),
        vxxx!(vmovss_rr, "vmovss"),
        vxxx!(vmovsd_rr, "vmovsd"),
        vxxx!(vxorps_rr, "vxorps"),
        xx!(vmovaps_rr, "vmovaps", Avx),
        xx!(vmovapd_rr, "vmovapd", Avx),
        // vucomis* lhs, rhs compares lhs with rhs; AT&T: vucomis rhs, lhs
        xx!(vucomiss_rr, "vucomiss", Avx),
        xx!(vucomisd_rr, "vucomisd", Avx),
        row!(vcvtsi2ssd_rr, [X, X, R], Avx, 64, |a, o| a.vcvtsi2ssd_rr(o[0].xmm(), o[1].xmm(), o[2].reg()), |o| format!("vcvtsi2ss {}, {}, {}", l(o, 2), x(o, 1), x(o, 0))),
        row!(vcvtsi2ssq_rr, [X, X, R], Avx, 64, |a, o| a.vcvtsi2ssq_rr(o[0].xmm(), o[1].xmm(), o[2].reg()), |o| format!("vcvtsi2ss {}, {}, {}", q(o, 2), x(o, 1), x(o, 0))),
        row!(vcvtsi2sdd_rr, [X, X, R], Avx, 64, |a, o| a.vcvtsi2sdd_rr(o[0].xmm(), o[1].xmm(), o[2].reg()), |o| format!("vcvtsi2sd {}, {}, {}", l(o, 2), x(o, 1), x(o, 0))),
        row!(vcvtsi2sdq_rr, [X, X, R], Avx, 64, |a, o| a.vcvtsi2sdq_rr(o[0].xmm(), o[1].xmm(), o[2].reg()), |o| format!("vcvtsi2sd {}, {}, {}", q(o, 2), x(o, 1), x(o, 0))),
        row!(vcvttss2sid_rr, [R, X], Avx, 64, |a, o| a.vcvttss2sid_rr(o[0].reg(), o[1].xmm()), |o| format!("vcvttss2si {}, {}", x(o, 1), l(o, 0))),
        row!(vcvttss2siq_rr, [R, X], Avx, 64, |a, o| a.vcvttss2siq_rr(o[0].reg(), o[1].xmm()), |o| format!("vcvttss2si {}, {}", x(o, 1), q(o, 0))),
        row!(vcvttsd2sid_rr, [R, X], Avx, 64, |a, o| a.vcvttsd2sid_rr(o[0].reg(), o[1].xmm()), |o| format!("vcvttsd2si {}, {}", x(o, 1), l(o, 0))),
        row!(vcvttsd2siq_rr, [R, X], Avx, 64, |a, o| a.vcvttsd2siq_rr(o[0].reg(), o[1].xmm()), |o| format!("vcvttsd2si {}, {}", x(o, 1), q(o, 0))),
        row!(vmovd_rx, [R, X], Avx, 64, |a, o| a.vmovd_rx(o[0].reg(), o[1].xmm()), |o| format!("vmovd {}, {}", x(o, 1), l(o, 0))),
        row!(vmovd_xr, [X, R], Avx, 64, |a, o| a.vmovd_xr(o[0].xmm(), o[1].reg()), |o| format!("vmovd {}, {}", l(o, 1), x(o, 0))),
        row!(vmovq_rx, [R, X], Avx, 64, |a, o| a.vmovq_rx(o[0].reg(), o[1].xmm()), |o| format!("vmovq {}, {}", x(o, 1), q(o, 0))),
        row!(vmovq_xr, [X, R], Avx, 64, |a, o| a.vmovq_xr(o[0].xmm(), o[1].reg()), |o| format!("vmovq {}, {}", q(o, 1), x(o, 0))),
        row!(vroundss_ri, [X, X, X, MODE], Avx, 8, |a, o| a.vroundss_ri(o[0].xmm(), o[1].xmm(), o[2].xmm(), o[3].int() as u8), |o| format!("vroundss {}, {}, {}, {}", im(o, 3), x(o, 2), x(o, 1), x(o, 0))),
        row!(vroundsd_ri, [X, X, X, MODE], Avx, 8, |a, o| a.vroundsd_ri(o[0].xmm(), o[1].xmm(), o[2].xmm(), o[3].int() as u8), |o| format!("vroundsd {}, {}, {}, {}", im(o, 3), x(o, 2), x(o, 1), x(o, 0))),
        // AVX memory forms
        vxxa!(vandps_ra, "vandps"),
        vxxa!(vandpd_ra, "vandpd"),
        vxxa!(vxorps_ra, "vxorps"),
        vxxa!(vxorpd_ra, "vxorpd"),
        xa!(vmovss_ra, "vmovss", Avx),
        xa!(vmovsd_ra, "vmovsd", Avx),
        ax!(vmovss_ar, "vmovss", Avx),
        ax!(vmovsd_ar, "vmovsd", Avx),
    ]
}

// ---------------------------------------------------------------------------
// Label-relative loads (exercised by the label programs)

pub struct LRow {
    pub name: &'static str,
    pub kinds: &'static [K],
    pub av: Av,
    pub emit: fn(&mut AssemblerX64, &[Op], Label),
    /// expected text given the rip-relative displacement that reaches the label
    pub text: fn(&[Op], i64) -> String,
}

fn d(disp: i64) -> String {
    if disp == 0 { String::new() } else { disp.to_string() }
}

macro_rules! lrow1 {
    ($name:ident, $k:ident, $av:ident, $mn:literal, $w:ident) => {
        LRow {
            name: stringify!($name),
            kinds: &[$k],
            av: Av::$av,
            emit: |a: &mut AssemblerX64, o: &[Op], lbl: Label| lrow1!(@call a, $name, $k, o, lbl),
            text: |o: &[Op], disp: i64| format!(concat!($mn, " {}(%rip), {}"), d(disp), $w(o, 0)),
        }
    };
    (@call $a:ident, $name:ident, R, $o:ident, $lbl:ident) => { $a.$name($o[0].reg(), $lbl) };
    (@call $a:ident, $name:ident, X, $o:ident, $lbl:ident) => { $a.$name($o[0].xmm(), $lbl) };
}
macro_rules! lrow2 {
    ($name:ident, $mn:literal) => {
        LRow {
            name: stringify!($name),
            kinds: &[X, X],
            av: Av::Avx,
            emit: |a: &mut AssemblerX64, o: &[Op], lbl: Label| a.$name(o[0].xmm(), o[1].xmm(), lbl),
            text: |o: &[Op], disp: i64| format!(concat!($mn, " {}(%rip), {}, {}"), d(disp), x(o, 1), x(o, 0)),
        }
    };
}

pub fn label_rows() -> Vec<LRow> {
    vec![
        lrow1!(movq_rl, R, Any, "movq", q),
        lrow1!(movss_rl, X, Sse, "movss", x),
        lrow1!(movsd_rl, X, Sse, "movsd", x),
        lrow1!(andps_rl, X, Sse, "andps", x),
        lrow1!(xorps_rl, X, Any, "xorps", x),
        lrow1!(xorpd_rl, X, Any, "xorpd", x),
        lrow1!(vmovss_rl, X, Avx, "vmovss", x),
        lrow1!(vmovsd_rl, X, Avx, "vmovsd", x),
        lrow2!(vandps_rl, "vandps"),
        lrow2!(vandpd_rl, "vandpd"),
        lrow2!(vxorps_rl, "vxorps"),
        lrow2!(vxorpd_rl, "vxorpd"),
    ]
}

/// methods exercised by the label programs directly
pub const JUMP_METHODS: [&str; 4] = ["jmp", "jmp_near", "jcc", "jcc_near"];

/// public methods of `AssemblerX64` that do not emit an instruction (buffer / label plumbing and raw
/// data emitters); they are used by the label programs but are not "instruction methods".
pub const PLUMBING: [&str; 14] = [
    "new",
    "create_label",
    "create_and_bind_label",
    "bind_label",
    "offset",
    "finalize",
    "align_to",
    "position",
    "set_position",
    "set_position_end",
    "emit_u8",
    "emit_u32",
    "emit_u64",
    "emit_u128",
];

/// Public method names of `impl AssemblerX64` blocks, read from the source file.
pub fn source_methods() -> Result<Vec<String>, String> {
    let path = "/repo/dora-asm/src/x64.rs";
    let src = std::fs::read_to_string(path).map_err(|e| format!("cannot read {path}: {e}"))?;
    let mut out = vec![];
    let mut in_impl = false;
    for line in src.lines() {
        if line.starts_with("impl AssemblerX64") {
            in_impl = true;
            continue;
        }
        if line.starts_with('}') {
            in_impl = false;
            continue;
        }
        if in_impl {
            if let Some(rest) = line.strip_prefix("    pub fn ") {
                let name: String = rest.chars().take_while(|c| c.is_alphanumeric() || *c == '_').collect();
                out.push(name);
            }
        }
    }
    if out.len() < 50 {
        return Err(format!("only {} public methods found in {path}: source layout changed?", out.len()));
    }
    Ok(out)
}
