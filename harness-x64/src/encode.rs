//! Sub-check "encode": every table row, operands from the choice sequence / the systematic
//! enumeration, judged by the LLVM oracle. A case is a *batch* of instances (one tool run per batch).

use crate::ops::*;
use crate::oracle::{self, Unit, Verdict};
use crate::stats::Stats;
use crate::table::{Av, K, Row};
use dora_asm::x64::AssemblerX64;
use serde_json::{Value, json};
use std::collections::HashMap;
use vh::vcore::*;

pub const MAX_PER_BATCH: usize = 2500;

pub struct Encode {
    pub rows: Vec<Row>,
    pub index: HashMap<&'static str, usize>,
    pub known: Vec<KnownFinding>,
    pub stats: &'static Stats,
}

#[derive(Clone, Debug)]
pub struct Batch {
    pub insts: Vec<Inst>,
}

pub struct Judged {
    pub idx: usize,
    pub key: String,
    pub msg: String,
}

pub fn key_matches(pattern: &str, key: &str) -> bool {
    if let Some(p) = pattern.strip_suffix('*') { key.starts_with(p) } else { pattern == key }
}

fn splitmix(mut x: u64) -> u64 {
    x = x.wrapping_add(0x9E3779B97F4A7C15);
    let mut z = x;
    z = (z ^ (z >> 30)).wrapping_mul(0xBF58476D1CE4E5B9);
    z = (z ^ (z >> 27)).wrapping_mul(0x94D049BB133111EB);
    z ^ (z >> 31)
}

impl Encode {
    pub fn new(stats: &'static Stats) -> Encode {
        let rows = crate::table::rows();
        let index = rows.iter().enumerate().map(|(i, r)| (r.name, i)).collect();
        Encode { rows, index, known: load_known_findings(), stats }
    }

    pub fn row(&self, name: &str) -> Option<&Row> {
        self.index.get(name).map(|&i| &self.rows[i])
    }

    pub fn emit(&self, inst: &Inst) -> Result<Vec<u8>, PanicInfo> {
        let row = self.row(inst.m).expect("instance names a table row");
        guarded(|| {
            let mut a = AssemblerX64::new(inst.avx);
            (row.emit)(&mut a, &inst.ops);
            a.finalize(1).code()
        })
    }

    pub fn expect_text(&self, inst: &Inst) -> String {
        let row = self.row(inst.m).expect("instance names a table row");
        (row.text)(&inst.ops)
    }

    pub fn describe(&self, inst: &Inst) -> String {
        format!("{}({}){}", inst.m, inst.ops.iter().map(op_short).collect::<Vec<_>>().join(", "), if inst.avx { " [has_avx2]" } else { "" })
    }

    pub fn gen_inst(&self, c: &mut Choices) -> Inst {
        let row = &self.rows[c.below(self.rows.len())];
        let avx = match row.av {
            Av::Sse => {
                c.raw();
                false
            }
            Av::Avx => {
                c.raw();
                true
            }
            Av::Any => c.chance(1, 2),
        };
        let ops = row
            .kinds
            .iter()
            .map(|k| match k {
                K::R => Op::R(c.below(16) as u8),
                K::X => Op::X(c.below(16) as u8),
                K::C => Op::C(c.below(28) as u8),
                K::M => Op::M(gen_mem(c)),
                K::I(ic) => Op::I(ic.generate(c)),
            })
            .collect();
        Inst { m: row.name, avx, ops }
    }

    /// Systematic instances of one row: exhaustive over the register operands when there are at most
    /// two of them (structured sample of 768 triples beyond), every addressing-mode shape of
    /// `systematic_mems`, every boundary immediate, every condition.
    pub fn systematic(&self, row: &Row, passes: usize, mems: &[Mem]) -> Vec<Inst> {
        let lists: Vec<Vec<Op>> = row
            .kinds
            .iter()
            .map(|k| match k {
                K::R => (0..16).map(Op::R).collect(),
                K::X => (0..16).map(Op::X).collect(),
                K::C => (0..28).map(Op::C).collect(),
                K::M => mems.iter().cloned().map(Op::M).collect(),
                K::I(ic) => ic.boundaries().into_iter().map(Op::I).collect(),
            })
            .collect();
        let reg_pos: Vec<usize> = row.kinds.iter().enumerate().filter(|(_, k)| matches!(k, K::R | K::X)).map(|(i, _)| i).collect();
        let mut cross: Vec<Vec<u8>> = vec![];
        match reg_pos.len() {
            0 => cross.push(vec![]),
            1 => (0..16u8).for_each(|a| cross.push(vec![a])),
            2 => (0..16u8).for_each(|a| (0..16u8).for_each(|b| cross.push(vec![a, b]))),
            _ => {
                for a in 0..16u8 {
                    for b in 0..16u8 {
                        let f = ((a as u32 * 5 + b as u32 * 3 + 1) % 16) as u8;
                        cross.push(vec![a, b, f]);
                        cross.push(vec![a, f, b]);
                        cross.push(vec![f, a, b]);
                    }
                }
            }
        }
        let rowh = hash64(row.name);
        // small domains: full cartesian product of register tuples x all other operand lists
        let other_pos: Vec<usize> = (0..lists.len()).filter(|i| !reg_pos.contains(i)).collect();
        let full: usize = other_pos.iter().map(|&i| lists[i].len()).product::<usize>().saturating_mul(cross.len());
        if !other_pos.is_empty() && full <= 4096 {
            let mut out = Vec::with_capacity(full);
            let mut t = 0u64;
            for regs in &cross {
                let mut idx = vec![0usize; other_pos.len()];
                loop {
                    let mut ops = Vec::with_capacity(lists.len());
                    for k in 0..lists.len() {
                        if let Some(p) = reg_pos.iter().position(|&rp| rp == k) {
                            ops.push(if row.kinds[k] == K::R { Op::R(regs[p]) } else { Op::X(regs[p]) });
                        } else {
                            let j = other_pos.iter().position(|&op| op == k).unwrap();
                            ops.push(lists[k][idx[j]].clone());
                        }
                    }
                    t += 1;
                    let avx = match row.av {
                        Av::Sse => false,
                        Av::Avx => true,
                        Av::Any => splitmix(rowh ^ t.wrapping_mul(77)) & 1 == 1,
                    };
                    out.push(Inst { m: row.name, avx, ops });
                    // odometer
                    let mut d = 0;
                    loop {
                        if d == idx.len() {
                            break;
                        }
                        idx[d] += 1;
                        if idx[d] < lists[other_pos[d]].len() {
                            break;
                        }
                        idx[d] = 0;
                        d += 1;
                    }
                    if d == idx.len() {
                        break;
                    }
                }
            }
            return out;
        }
        let other_max =lists.iter().enumerate().filter(|(i, _)| !reg_pos.contains(i)).map(|(_, l)| l.len()).max().unwrap_or(1);
        let has_big_other = other_max > 64;
        let n = cross.len().max(other_max) * if has_big_other { passes } else { 1 };
        let mut out = Vec::with_capacity(n);
        for t in 0..n {
            let regs = if t < cross.len() { &cross[t] } else { &cross[(splitmix(rowh ^ (t as u64 * 31)) % cross.len() as u64) as usize] };
            let mut ops = Vec::with_capacity(lists.len());
            for (k, l) in lists.iter().enumerate() {
                if let Some(p) = reg_pos.iter().position(|&rp| rp == k) {
                    let v = regs[p];
                    ops.push(if row.kinds[k] == K::R { Op::R(v) } else { Op::X(v) });
                } else {
                    let idx = if t < l.len() { t } else { (splitmix(rowh ^ (t as u64 * 1000003 + k as u64 * 7919)) % l.len() as u64) as usize };
                    ops.push(l[idx].clone());
                }
            }
            let avx = match row.av {
                Av::Sse => false,
                Av::Avx => true,
                Av::Any => splitmix(rowh ^ (t as u64).wrapping_mul(77)) & 1 == 1,
            };
            out.push(Inst { m: row.name, avx, ops });
        }
        out
    }

    pub fn enumeration(&self, thorough: bool) -> Vec<Batch> {
        let mems = systematic_mems();
        let passes = if thorough { 16 } else { 2 };
        let mut all: Vec<Inst> = vec![];
        for row in &self.rows {
            all.extend(self.systematic(row, passes, &mems));
        }
        all.chunks(MAX_PER_BATCH).map(|c| Batch { insts: c.to_vec() }).collect()
    }

    /// Evaluate a batch; returns every failing instance (in batch order) or a harness-side error.
    pub fn judge(&self, batch: &Batch) -> Result<Vec<Judged>, String> {
        let mut failures: Vec<Judged> = vec![];
        let mut units: Vec<Unit> = vec![];
        let mut unit_of: Vec<usize> = vec![];
        for (i, inst) in batch.insts.iter().enumerate() {
            let Some(row) = self.row(inst.m) else {
                return Err(format!("instance names unknown method {}", inst.m));
            };
            match self.emit(inst) {
                Ok(bytes) => {
                    units.push(Unit { method: inst.m.to_string(), tag: self.describe(inst), bytes, expect: (row.text)(&inst.ops), imm_bits: row.imm_bits, rel: row.rel });
                    unit_of.push(i);
                }
                Err(p) => failures.push(Judged {
                    idx: i,
                    key: format!("encoding:{}:panics-on-legal-operands", inst.m),
                    msg: format!("{} panicked: {} at {}; requested `{}`", self.describe(inst), p.message, p.location, (row.text)(&inst.ops)),
                }),
            }
        }
        let verdicts = oracle::check_units(&units)?;
        for (u, v) in verdicts.iter().enumerate() {
            let i = unit_of[u];
            let inst = &batch.insts[i];
            self.stats.count_instance(hash64(&("encode", inst)), inst.ops.iter().any(|o| o.nontrivial()), inst.m, || inst_json(self, inst));
            for o in &inst.ops {
                if let Op::M(m) = o {
                    self.stats.class(&format!("encode/addr:{}", m.shape()));
                }
            }
            self.stats.class(if inst.avx { "encode/assembler-has_avx2" } else { "encode/assembler-no-avx2" });
            if let Verdict::Bad { class, got, detail } = v {
                failures.push(Judged {
                    idx: i,
                    key: format!("encoding:{}:{}", inst.m, class),
                    msg: format!("{}: requested `{}`, decoder says `{}` ({})", self.describe(inst), units[u].expect, got, detail),
                });
            }
        }
        failures.sort_by_key(|f| f.idx);
        Ok(failures)
    }

    /// the failure to report for a batch: the first one that is not an open known finding, else the first
    pub fn pick<'a>(&self, fails: &'a [Judged]) -> Option<&'a Judged> {
        fails.iter().find(|f| !self.known.iter().any(|k| k.property == "C07" && k.status == "open" && key_matches(&k.key, &f.key))).or(fails.first())
    }
}

pub fn op_short(o: &Op) -> String {
    match o {
        Op::R(n) => R64[*n as usize].to_string(),
        Op::X(n) => format!("xmm{n}"),
        Op::I(v) => format!("{v}"),
        Op::C(c) => CONDS[*c as usize].0.to_string(),
        Op::M(Mem::Base { base, disp }) => format!("Address::offset({}, {disp})", R64[*base as usize]),
        Op::M(Mem::Array { base, index, scale, disp }) => format!("Address::array({}, {}, x{scale}, {disp})", R64[*base as usize], R64[*index as usize]),
        Op::M(Mem::Index { index, scale, disp }) => format!("Address::index({}, x{scale}, {disp})", R64[*index as usize]),
        Op::M(Mem::Rip { disp }) => format!("Address::rip({disp})"),
    }
}

pub fn inst_json(e: &Encode, inst: &Inst) -> Value {
    let bytes = e.emit(inst).map(|b| oracle::hex(&b)).unwrap_or_else(|p| format!("<panic: {}>", p.message));
    json!({"m": inst.m, "avx": inst.avx, "ops": inst.ops.iter().map(|o| o.to_json()).collect::<Vec<_>>(), "call": e.describe(inst), "expect": e.expect_text(inst), "emitted": bytes})
}

pub fn inst_from_json(e: &Encode, v: &Value) -> Option<Inst> {
    let name = v["m"].as_str()?;
    let row = e.row(name)?;
    let ops: Vec<Op> = v["ops"].as_array()?.iter().map(Op::from_json).collect::<Option<Vec<_>>>()?;
    if ops.len() != row.kinds.len() {
        return None;
    }
    for (o, k) in ops.iter().zip(row.kinds.iter()) {
        let ok = matches!((o, k), (Op::R(_), K::R) | (Op::X(_), K::X) | (Op::M(_), K::M) | (Op::C(_), K::C) | (Op::I(_), K::I(_)));
        if !ok {
            return None;
        }
    }
    Some(Inst { m: row.name, avx: v["avx"].as_bool().unwrap_or(false), ops })
}

impl Prop for Encode {
    type Case = Batch;
    fn name(&self) -> &str {
        "encode"
    }
    fn generate(&self, c: &mut Choices) -> Batch {
        let mut insts = vec![];
        loop {
            insts.push(self.gen_inst(c));
            if c.exhausted() || insts.len() >= MAX_PER_BATCH {
                break;
            }
        }
        Batch { insts }
    }
    fn eval(&self, case: &Batch) -> Outcome {
        let h = hash64(&case.insts);
        match self.judge(case) {
            Err(e) => Outcome { inconclusive: Some(e), hash: h, ..Default::default() },
            Ok(fails) => match self.pick(&fails) {
                Some(f) => Outcome::fail(h, f.key.clone(), format!("{} [{} of {} instances of the batch fail]", f.msg, fails.len(), case.insts.len())),
                None => Outcome::pass(h, case.insts.iter().any(|i| i.ops.iter().any(|o| o.nontrivial()))).class("batches"),
            },
        }
    }
    fn render(&self, case: &Batch) -> Value {
        json!({"insts": case.insts.iter().take(if case.insts.len() > 8 { 3 } else { 8 }).map(|i| inst_json(self, i)).collect::<Vec<_>>(), "batch_size": case.insts.len()})
    }
    fn from_rendered(&self, v: &Value) -> Option<Batch> {
        let arr = v["insts"].as_array()?;
        // a truncated rendering of a big batch cannot be rebuilt (replay then uses the choices)
        if v["batch_size"].as_u64().map(|n| n as usize != arr.len()).unwrap_or(false) {
            return None;
        }
        let insts: Vec<Inst> = arr.iter().map(|x| inst_from_json(self, x)).collect::<Option<Vec<_>>>()?;
        if insts.is_empty() { None } else { Some(Batch { insts }) }
    }
    fn minimize(&self, case: &Batch, fails: &dyn Fn(&Batch) -> bool) -> Option<Batch> {
        if case.insts.len() <= 1 {
            return None;
        }
        let judged = self.judge(case).ok()?;
        let f = self.pick(&judged)?;
        let mut single = Batch { insts: vec![case.insts[f.idx].clone()] };
        if !fails(&single) {
            return None;
        }
        // simplify the operands of the one failing instance (bounded number of oracle calls)
        let mut budget = 40usize;
        for k in 0..single.insts[0].ops.len() {
            let cands: Vec<Op> = match &single.insts[0].ops[k] {
                Op::R(n) => [0u8, 1, 8].iter().filter(|c| *c < n).map(|c| Op::R(*c)).collect(),
                Op::X(n) => [0u8, 1, 8].iter().filter(|c| *c < n).map(|c| Op::X(*c)).collect(),
                Op::C(n) => [0u8].iter().filter(|c| *c < n).map(|c| Op::C(*c)).collect(),
                Op::I(v) => [0i64, 1, -1, 127, 128, 255, 256, -129, 65536, 1 << 31, 1 << 32].iter().filter(|c| c.unsigned_abs() < v.unsigned_abs()).map(|c| Op::I(*c)).collect(),
                Op::M(m) => {
                    let mut c = vec![];
                    if m.disp() != 0 {
                        for d in [0, 1, 128] {
                            if (d as i64) < (m.disp() as i64).abs() {
                                c.push(Op::M(match m.clone() {
                                    Mem::Base { base, .. } => Mem::Base { base, disp: d },
                                    Mem::Array { base, index, scale, .. } => Mem::Array { base, index, scale, disp: d },
                                    Mem::Index { index, scale, .. } => Mem::Index { index, scale, disp: d },
                                    Mem::Rip { .. } => Mem::Rip { disp: d },
                                }));
                            }
                        }
                    }
                    if let Mem::Array { base, disp, .. } = m {
                        c.push(Op::M(Mem::Base { base: *base, disp: *disp }));
                    }
                    c
                }
            };
            for cand in cands {
                if budget == 0 {
                    break;
                }
                budget -= 1;
                let mut t = single.clone();
                t.insts[0].ops[k] = cand;
                if fails(&t) {
                    single = t;
                    break;
                }
            }
        }
        Some(single)
    }
}
