//! vasm64 — C07: every x86-64 instruction is encoded as the instruction that was requested.
//!
//! `vasm64 quick|thorough|--replay <file>`; evidence in /verif/evidence/C07.json.

mod dora;
mod encode;
mod labels;
mod ops;
mod oracle;
mod stats;
mod table;

use encode::Encode;
use labels::Labels;
use serde_json::json;
use stats::Stats;
use std::collections::BTreeSet;
use std::sync::OnceLock;
use std::sync::atomic::Ordering;
use vh::vcore::*;

static STATS: OnceLock<Stats> = OnceLock::new();

fn hard_inconclusive(ctx: &mut Ctx, why: String) -> ! {
    println!("INCONCLUSIVE property=C07 {why}");
    ctx.inconclusive.push(why);
    ctx.extra.insert("hard_inconclusive".into(), json!(true));
    let code = ctx.finish();
    std::process::exit(if code == 1 { 1 } else { 2 });
}

/// Every row's expected text (simplest operands and one generated variant) must assemble with llvm-mc.
fn table_self_check(enc: &Encode, lab: &Labels) -> Result<serde_json::Value, String> {
    let mems = ops::systematic_mems();
    let mut texts: Vec<(String, u8)> = vec![];
    let mut owner: Vec<String> = vec![];
    for row in &enc.rows {
        if row.rel {
            continue;
        }
        let insts = enc.systematic(row, 1, &mems[..1]);
        for inst in insts.iter().take(1).chain(insts.iter().rev().take(1)) {
            texts.push(((row.text)(&inst.ops), row.imm_bits));
            owner.push(row.name.to_string());
        }
    }
    for row in &lab.lrows {
        let ops: Vec<ops::Op> = row.kinds.iter().map(|k| if *k == table::K::R { ops::Op::R(9) } else { ops::Op::X(12) }).collect();
        for d in [0i64, -77] {
            texts.push(((row.text)(&ops, d), 64));
            owner.push(row.name.to_string());
        }
    }
    let res = oracle::roundtrip(&texts)?;
    let mut noncanonical = vec![];
    for (i, (ok, canon)) in res.iter().enumerate() {
        if !ok {
            return Err(format!("table row {}: expected text {:?} does not assemble with llvm-mc", owner[i], texts[i].0));
        }
        let mine = oracle::norm_text(&texts[i].0, texts[i].1);
        if *canon != mine {
            noncanonical.push(json!({"row": owner[i], "table": mine, "llvm_prints": canon}));
        }
    }
    Ok(json!({"texts_checked": texts.len(), "spelled_differently_by_llvm": noncanonical}))
}

fn main() {
    let args: Vec<String> = std::env::args().skip(1).collect();
    let stats: &'static Stats = STATS.get_or_init(Stats::default);
    match parse_mode_from(&args) {
        Mode::Replay(_, doc) => {
            let mut ctx = Ctx::new("C07", "quick");
            let code = match doc["sub"].as_str() {
                Some("labels") => ctx.replay(&Labels::new(stats), &doc),
                Some("dora-asm") => match dora::DoraAsm::new(Encode::new(stats)) {
                    Ok(d) => ctx.replay(&d, &doc),
                    Err(e) => {
                        println!("INCONCLUSIVE property=C07 {e}");
                        2
                    }
                },
                _ => ctx.replay(&Encode::new(stats), &doc),
            };
            std::process::exit(code);
        }
        Mode::Minimize(..) | Mode::Worker(_) => {
            eprintln!("usage: vasm64 quick|thorough|--replay <file>");
            std::process::exit(2);
        }
        Mode::Run(tier) => run(&tier, stats),
    }
}

fn run(tier: &str, stats: &'static Stats) {
    let mut ctx = Ctx::new("C07", tier);
    start_watchdog(if tier == "thorough" { 1800 } else { 600 }, "C07");
    let enc = Encode::new(stats);
    let lab = Labels::new(stats);
    ctx.rule = "an instance is one call of one public instruction method of dora_asm::x64::AssemblerX64 with concrete operands (or, in the label programs, one jump / label-relative load together with its distance to the bound label). Non-trivial = at least one extended register (r8-r15 / xmm8-xmm15) in any operand position incl. base/index, or an rsp/r12 (SIB-forced) or rbp/r13 (displacement-forced) base register, or an immediate / displacement / branch distance within 1 of a width boundary (2^7, 2^8, 2^15, 2^16, 2^31, 2^32, i64 extremes). Distinct by content hash of (method, assembler configuration, operands) resp. (reference, distance). evaluations = instances judged by the LLVM oracle (not batches).".into();
    ctx.assumptions = vec![
        "oracle = LLVM 14 (llvm-mc -filetype=obj + llvm-objdump -d, AT&T syntax): the emitted bytes must decode to exactly one instruction covering exactly the emitted length whose text equals the table's expected text, or the text LLVM prints for its own encoding of the expected text (alias / spelling tolerance); immediates are compared modulo the operand width".into(),
        "testl_ri deliberately narrows `testl $imm, reg` to `testb $imm, reg8` for 0 <= imm <= 255 (the crate's own unit tests pin those bytes; ZF/PF/CF/OF identical, SF differs only for imm >= 128); the table accepts this as the requested operation".into(),
        "operands are generated inside the preconditions the methods assert: Address::array index not rsp/r12, Address::index index not rsp, immediates inside the asserted range (is_int8 / is_uint8 / is_int32 / is_uint32); SSE methods on an assembler without has_avx2, VEX methods on one with it (debug_asserts), methods without such an assert on both".into(),
        "a near jump (jmp_near / jcc_near) whose label is outside the rel8 range must be refused (assert) — counted as pass; being accepted silently shows up as a wrong target".into(),
        "VEX.L / VEX.W on LIG/WIG scalar instructions and redundant REX bits that the decoder does not print are not distinguished (architecturally equivalent)".into(),
    ];

    // ---- coverage of the source's method list
    let src = match table::source_methods() {
        Ok(s) => s,
        Err(e) => hard_inconclusive(&mut ctx, e),
    };
    let mut covered: BTreeSet<String> = enc.rows.iter().map(|r| r.name.to_string()).collect();
    covered.extend(lab.lrows.iter().map(|r| r.name.to_string()));
    covered.extend(table::JUMP_METHODS.iter().map(|s| s.to_string()));
    let plumbing: BTreeSet<String> = table::PLUMBING.iter().map(|s| s.to_string()).collect();
    let instr_methods: Vec<String> = src.iter().filter(|m| !plumbing.contains(*m)).cloned().collect();
    let uncovered: Vec<String> = instr_methods.iter().filter(|m| !covered.contains(*m)).cloned().collect();
    let stale: Vec<String> = covered.iter().filter(|m| !src.contains(m)).cloned().collect();
    ctx.extra.insert("uncovered_methods".into(), json!(uncovered));
    ctx.extra.insert("methods_in_source".into(), json!(instr_methods.len()));
    ctx.extra.insert("methods_covered".into(), json!(instr_methods.len() - uncovered.len()));
    ctx.extra.insert("non_instruction_methods".into(), json!(table::PLUMBING));
    if !stale.is_empty() {
        hard_inconclusive(&mut ctx, format!("table rows without a method in the source: {stale:?}"));
    }

    // ---- table self-check
    match table_self_check(&enc, &lab) {
        Ok(v) => {
            ctx.extra.insert("table_self_check".into(), v);
        }
        Err(e) => hard_inconclusive(&mut ctx, e),
    }

    // developer aid (never set by the registered commands): VASM64_ONLY=encode|labels|dora
    let only = std::env::var("VASM64_ONLY").ok();
    let on = |s: &str| only.as_deref().map(|o| o == s).unwrap_or(true);
    if only.is_some() {
        ctx.extra.insert("developer_subset".into(), json!(only));
    }

    // ---- regression inputs, reproducers of known findings; systematic tier; random search
    // (proptest choice sequences; a case is a batch)
    if on("encode") {
        ctx.run_regressions(&enc);
        ctx.run_known_reproducers(&enc);
        ctx.run_enum(&enc, enc.enumeration(ctx.thorough()));
        let nb = ctx.n(120, 8000);
        ctx.run_search(&enc, nb, 14_000, 12);
    }
    if on("labels") {
        ctx.run_regressions(&lab);
        ctx.run_known_reproducers(&lab);
        ctx.run_enum(&lab, lab.enumeration());
        let nl = ctx.n(40, 2500);
        ctx.run_search(&lab, nl, 6_000, 12);
    }

    // ---- the Dora-written assembler of the optimizing compiler (thorough tier; VASM64_DORA=1 forces it)
    if on("dora") && (ctx.thorough() || only.is_some() || std::env::var("VASM64_DORA").map(|v| v == "1").unwrap_or(false)) {
        match dora::available().and_then(|_| dora::DoraAsm::new(Encode::new(stats))) {
            Ok(d) => {
                ctx.run_regressions(&d);
                ctx.run_known_reproducers(&d);
                let sel = d.selection(if ctx.thorough() { 400 } else { 128 });
                let n = sel.insts.len();
                // several mini packages of <= 6000 instances each: compiled and run in parallel
                ctx.run_enum(&d, sel.insts.chunks(6000).map(|c| encode::Batch { insts: c.to_vec() }).collect());
                if ctx.thorough() {
                    ctx.run_search(&d, 3, 14_000, 0);
                }
                ctx.extra.insert("dora_assembler".into(), json!({"status": "checked", "selected_systematic_instances": n, "table_rows_without_dora_method": d.uncovered_rows(), "dora_methods_without_table_row": d.dora_only_methods()}));
            }
            Err(e) => {
                ctx.extra.insert("dora_assembler".into(), json!({"status": format!("skipped: {e}")}));
            }
        }
    } else {
        ctx.extra.insert("dora_assembler".into(), json!({"status": "not part of the quick tier (needs a ~20-40 s Dora compile); run thorough or set VASM64_DORA=1"}));
    }

    // ---- instance-level accounting
    ctx.extra.insert("batches_evaluated".into(), json!(ctx.evaluations));
    ctx.evaluations = stats.instances.load(Ordering::SeqCst);
    ctx.nontrivial = stats.nontrivial.lock().unwrap().clone();
    ctx.extra.insert("distinct_instances".into(), json!(stats.seen.lock().unwrap().len()));
    let per_method = stats.per_method.lock().unwrap().clone();
    let never: Vec<&String> = covered.iter().filter(|m| per_method.get(*m).copied().unwrap_or(0) == 0).collect();
    ctx.extra.insert("instances_per_method_min".into(), json!(covered.iter().map(|m| per_method.get(m).copied().unwrap_or(0)).min().unwrap_or(0)));
    ctx.extra.insert("instances_per_method".into(), json!(per_method));
    for (k, v) in stats.classes.lock().unwrap().iter() {
        ctx.classes.insert(k.clone(), *v);
    }
    ctx.samples = stats.samples.lock().unwrap().iter().take(6).map(|s| json!({"sub": if s.get("ops").is_some() { "encode" } else { "labels" }, "case": s})).collect();
    if !never.is_empty() && ctx.violations.is_empty() && only.is_none() {
        ctx.inconclusive.push(format!("table rows never evaluated: {never:?}"));
    }
    if !ctx.inconclusive.is_empty() {
        ctx.extra.insert("hard_inconclusive".into(), json!(true));
    }
    for c in [
        "encode/addr:base-rsp/r12(sib-forced)",
        "encode/addr:base-rbp/r13-disp0(disp-forced)",
        "encode/addr:base+disp8",
        "encode/addr:base+disp32",
        "encode/addr:base+index*scale",
        "encode/addr:base+index*scale+disp8",
        "encode/addr:base+index*scale+disp32",
        "encode/addr:index*scale+disp32",
        "encode/addr:rip-relative",
        "encode/assembler-has_avx2",
        "encode/assembler-no-avx2",
        "labels/forward-rel8",
        "labels/backward-rel8",
        "labels/forward-rel32",
        "labels/backward-rel32",
        "labels/forward-rip-load",
        "labels/backward-rip-load",
        "labels/backward-rel8-at-rel8-boundary",
        "labels/forward-rel8-at-rel8-boundary",
        "labels/near-jump-out-of-range-refused",
    ] {
        if ctx.violations.is_empty() && only.is_none() {
            ctx.require_class(c);
        }
    }
    std::process::exit(ctx.finish());
}
