#!/bin/bash
# developer tool: a private copy of /repo (git worktree at main HEAD) and of /verif under /tmp/seedenv,
# with every /repo and /verif path rewritten, so seeded patches can be tried without touching /repo.
#   seedenv.sh sync                       refresh copies from /repo HEAD and /verif working tree
#   seedenv.sh run <patch.diff> <ID>...   apply patch in the copy, run ./check <ID> quick there, revert
E=/tmp/seedenv
case "$1" in
sync)
  mkdir -p $E
  if [ ! -d $E/repo ]; then git -C /repo worktree add --detach $E/repo HEAD >/dev/null 2>&1; fi
  git -C $E/repo checkout -q -- . ; git -C $E/repo checkout -q --detach $(git -C /repo rev-parse HEAD)
  mkdir -p $E/verif
  rsync -a --delete --exclude .build --exclude .git --exclude violations --exclude evidence /verif/ $E/verif/
  mkdir -p $E/verif/evidence
  grep -rlE "/repo|/verif" $E/verif/check $E/verif/harness/Cargo.toml $E/verif/harness/.cargo/config.toml $E/verif/harness/src $E/verif/harness-*/Cargo.toml $E/verif/harness-*/src $E/verif/tools 2>/dev/null | while read f; do
    sed -i "s|/repo|$E/repo|g; s|/verif|$E/verif|g" "$f"; done
  echo synced ;;
run)
  P=$2; shift 2
  NAME=$(basename $(dirname $P))
  cd $E/repo && git checkout -q -- . && git apply $P || { echo "seed=$NAME patch does not apply"; exit 9; }
  mkdir -p $E/results
  for ID in "$@"; do
    ( cd $E/verif && ./check $ID quick > $E/results/$NAME.$ID.log 2>&1; echo "seed=$NAME check=$ID rc=$? $(grep -c '^VIOLATION' $E/results/$NAME.$ID.log) violation lines" )
  done
  cd $E/repo && git checkout -q -- . ;;
esac
