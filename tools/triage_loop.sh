#!/bin/bash
# developer tool: run a check with many seeds in triage mode, collecting violation files
# usage: triage_loop.sh <ID> <from> <to> [tier]
ID=$1; FROM=$2; TO=$3; TIER=${4:-quick}
mkdir -p /verif/.build/triage/$ID
for s in $(seq $FROM $TO); do
  RAYON_NUM_THREADS=3 nice -n 19 env VERIF_VIOL_DIR=/verif/.build/triage/$ID VERIF_CONTINUE=1 VERIF_SEED=$s VERIF_EVIDENCE_DIR=/verif/.build/triage/ev /verif/.build/vh-triage $ID $TIER > /verif/.build/triage/$ID/run-$s.log 2>&1
done
