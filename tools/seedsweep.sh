#!/bin/bash
# developer tool: run every seeded patch through the check of its own property (in the seedenv copy)
# usage: seedsweep.sh [ID...]   (default: all); summary lines on stdout, logs in /tmp/seedenv/results
IDS="$@"; [ -z "$IDS" ] && IDS=$(ls /verif/seeded)
for ID in $IDS; do
  bash /verif/tools/seedenv.sh run /verif/seeded/$ID/patch.diff $ID
done
