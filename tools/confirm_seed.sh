#!/bin/bash
# developer tool: confirm a sub-agent's seeded change in a scratch worktree:
#  (1) patch applies and builds, (2) the repo's test suite passes with it,
#  (3) the demo fails with it, (4) the demo passes without it.
# usage: confirm_seed.sh <ID>...   -> /tmp/seed/<ID>/confirm.json
WT=/tmp/confirm/wt; T=/tmp/confirm/target
mkdir -p /tmp/confirm
if [ ! -d $WT ]; then git -C /repo worktree add --detach $WT d5a6d25d8 >/dev/null 2>&1; fi
ln -sfn $WT/pkgs /tmp/confirm/pkgs
export CARGO_NET_OFFLINE=true CARGO_TARGET_DIR=$T
for ID in "$@"; do
  S=/tmp/seed/$ID
  cd $WT && git checkout -q -- . && git clean -fdq
  # demo on the clean tree
  bash $S/demo/run.sh $WT $T > $S/confirm.demo_clean.log 2>&1; DC=$?
  git checkout -q -- . ; git clean -fdq
  git apply $S/patch.diff; AP=$?
  cargo nextest run --workspace --no-fail-fast --offline --test-threads 8 > $S/confirm.tests.log 2>&1; TR=$?
  SUMMARY=$(grep -E "tests run:" $S/confirm.tests.log | tail -1)
  bash $S/demo/run.sh $WT $T > $S/confirm.demo_patched.log 2>&1; DP=$?
  git checkout -q -- . ; git clean -fdq
  python3 - <<PY
import json
json.dump({"id":"$ID","patch_applies":$AP==0,"tests_rc_with_patch":$TR,"tests_summary":"""$SUMMARY""".strip(),"demo_rc_clean":$DC,"demo_rc_patched":$DP,
 "confirmed": $AP==0 and $TR==0 and $DC==0 and $DP!=0}, open("$S/confirm.json","w"), indent=1)
PY
  cat $S/confirm.json
done
