#!/usr/bin/env python3
"""Developer tool: append violation files to known_findings.json as open findings
(after manual triage confirmed a genuine defect). Never run by checks."""
import json, sys, os
kf_path = '/verif/known_findings.json'
kf = json.load(open(kf_path)) if os.path.exists(kf_path) else {"findings": []}
have = {(f['property'], f['key']) for f in kf['findings']}
what_prefix = sys.argv[1]
for f in sys.argv[2:]:
    d = json.load(open(f))
    k = (d['property'], d['key'])
    if k in have:
        continue
    have.add(k)
    rend = d['case'].get('rendered')
    kf['findings'].append({
        "property": d['property'], "key": d['key'],
        "what": f"{what_prefix}: {d['message'].splitlines()[0][:160]}",
        "reproducer": rend, "sub": d['sub'], "status": "open"})
json.dump(kf, open(kf_path, 'w'), indent=1, ensure_ascii=False)
print(len(kf['findings']), 'findings')
