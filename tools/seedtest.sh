#!/bin/bash
# developer tool: apply a seeded patch to /repo, run the given checks (quick), revert.
# usage: seedtest.sh <patch.diff> <ID>...   (results: /verif/.build/seedtest/<name>.<ID>.log)
P=$1; shift
NAME=$(basename $(dirname $P))
mkdir -p /verif/.build/seedtest
cd /repo
if ! git diff --quiet; then echo "repo dirty; abort"; exit 9; fi
git apply $P || { echo "patch does not apply"; exit 9; }
for ID in "$@"; do
  ( cd /verif && VERIF_VIOL_DIR=/verif/.build/seedtest/viol-$NAME VERIF_EVIDENCE_DIR=/verif/.build/seedtest/ev ./check $ID quick > /verif/.build/seedtest/$NAME.$ID.log 2>&1; echo "seed=$NAME check=$ID rc=$?" )
done
git -C /repo checkout -- .
