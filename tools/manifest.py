#!/usr/bin/env python3
"""Regenerates /verif/MANIFEST.json from the table below (developer tool)."""
import json, subprocess
props = [json.loads(l) for l in open('/verif/properties.jsonl')]
EXPL = "exploration"
# id -> (engine, technique, level text, level note, design ref)
CLAIMED = {
 "C16": ("vcore+textgen", "property-based testing: generated texts (proptest choice sequences, corpus, token-level mutants) against a round-trip/tiling oracle, ddmin shrinking",
         "Search, not proof: every repo source in 3 line-ending styles plus >=150k generated/mutated texts per quick run are parsed and the tree is checked to reproduce the text byte for byte, to tile, to sum lengths, to keep error spans inside the text and to be stable under re-parse. Right level because the property quantifies over all texts incl. every error-recovery path and the oracle is exact and cheap (µs per case).",
         "Trusts std string slicing and my walker; sizes <=64 KiB, bracket nesting <=64.", "DESIGN.md §3 C16"),
 "C19": ("vcore", "property-based testing: generated adversarial name sets against injectivity / charset / length / demangle round-trip oracles, plus cross-process determinism",
         "Search over adversarial name families (edits placed past the truncation point, escape look-alikes, multi-byte, 120–5000 byte prefixes) and limits; a systematic single-byte sweep of three long names. Cannot find a genuine 128-bit hash collision except by luck.",
         "String level only in this check's in-process part; program-level label uniqueness is added by the assembly scanner sub-check when tools are available.", "DESIGN.md §3 C19"),
 "C20": ("vcore+textgen", "property-based testing: exhaustive small documents + generated texts, every offset and every position, against an independent recomputation and round trip",
         "Exhaustive over all documents up to length 5 (quick) over {a, astral, 2-byte, 3-byte, LF, CR} and random texts beyond; for each text all char-boundary offsets and all (line, column) incl. out-of-range are checked. position.rs is compiled in unchanged via #[path].",
         "Document-symbol ranges over the real language server are a separate sub-check (lspdrive).", "DESIGN.md §3 C20"),
}
checks = []
for pid, (engine, tech, text, note, ref) in sorted(CLAIMED.items()):
    checks.append({
        "property_id": pid,
        "quick_cmd": f"./check {pid} quick",
        "thorough_cmd": f"./check {pid} thorough",
        "evidence_file": f"/verif/evidence/{pid}.json",
        "replay_cmd_template": f"./check {pid} --replay {{path}}",
        "engine": engine,
        "level_claimed": {"category": EXPL, "text": text, "design_ref": ref},
        "level_note": note,
        "technique": tech,
    })
hook_commits = subprocess.run(["git", "-C", "/repo", "log", "--format=%h %s", "--grep=^hook:"], capture_output=True, text=True).stdout.strip().splitlines()
m = {
 "version": 1,
 "setup_cmd": "./check --setup",
 "hooks": {"guard": "dinfuehr_dora_verif",
           "enable": "RUSTFLAGS=\"--cfg dinfuehr_dora_verif\" (set by ./check for every cargo build of /repo into /verif/.build/target and of the harness into /verif/.build/htarget)",
           "baseline_off_cmd": "cd /repo && cargo nextest run --workspace --no-fail-fast --offline --test-threads 8",
           "source_commits": [c.split()[0] for c in hook_commits], "add_only": True},
 "engines": [
   {"name": "vcore", "path": "harness/src/vcore.rs", "serves_properties": sorted(CLAIMED), "kind_free_text": "choice-sequence engine on proptest (seeded TestRunner, value-tree shrinking, parallel evaluation), case-level ddmin, evidence/replay/known-finding handling, watchdog"},
   {"name": "isolate", "path": "harness/src/isolate.rs", "serves_properties": [p for p in ("C06","C17","C05","C11") if p in CLAIMED], "kind_free_text": "worker-process pool so hard crashes/hangs of in-process code are attributed to a case"},
   {"name": "textgen", "path": "harness/src/textgen.rs", "serves_properties": [p for p in ("C06","C16","C17","C20") if p in CLAIMED], "kind_free_text": "token soups, grammar-directed programs, repo corpus, token-level mutators, line-ending/multi-byte transforms"},
 ],
 "checks": checks,
 "notes": "See DESIGN.md. Every check: ./check <id> quick|thorough|--replay <file>; exit 0 held / 1 VIOLATION / 2 inconclusive. Known findings: known_findings.json.",
 "not_applicable": [{"property_id": p['id'], "reason": "check not registered yet (work in progress; see DESIGN.md build order)"} for p in props if p['id'] not in CLAIMED],
}
json.dump(m, open('/verif/MANIFEST.json', 'w'), indent=1)
print("claimed:", sorted(CLAIMED))
