#!/usr/bin/env python3
"""Regenerates /verif/MANIFEST.json from the table below (developer tool)."""
import json, subprocess
props = [json.loads(l) for l in open('/verif/properties.jsonl')]
EXPL = "exploration"
# id -> (engine, technique, level text, level note, design ref)
CLAIMED = {
 "C01": ("vcore+progen+runner", "property-based testing: typed program generator (proptest choice sequences) against an independent reference interpreter, both code generators, choice-level shrinking",
         "Search over generated well-typed terminating programs; each is compiled by both code generators and its stdout/exit status/trap message compared with a reference interpreter written from the language rules. Right level: the property quantifies over programs, the oracle is an executable model; no proof of the compilers is attempted.",
         "Trusts the reference interpreter (harness/src/progen/interp.rs) and Rust's float Display (= the runtime's printer). Constructs the language does not pin down (target read order of `x op= e`) are excluded by construction and covered by C02.", "DESIGN.md §3 C01"),
 "C02": ("vcore+runner+corpus", "differential testing: hostile-argument programs, repository corpus with its directives, type-preserving mutants and 'wide' generated programs; baseline vs optimizing executable + classification of the ending",
         "Differential search: both executables must agree on stdout and ending, and every ending must be a return/exit/fatal_error/documented trap. Says nothing when both are wrong the same way (C01 covers the reference subset).",
         "Programs depending on threads/clock/files are compared on 'defined ending' only.", "DESIGN.md §3 C02"),
 "C03": ("vcore+progen+runner", "metamorphic testing: one program under a generated list of collector configurations (gc kind, stress modes, TLAB, workers, verify, heap sizes), reference result from the interpreter / closed form",
         "Search over (program, configuration list): all configurations must give the reference result, never crash, and bounded-live-set programs must not run out of memory. Dynamic only: cannot show absence of a root-missing race.",
         "Multi-threaded allocation only via C09 workloads; every-allocation stress limited to small programs (cost).", "DESIGN.md §3 C03"),
 "C05": ("vcore+progen+isolate", "property-based testing: well-typed generated programs (accept, verifier, both generators) and single-fault mutants of 10 rule classes injected at random blocks (reject)",
         "Two-sided search: every generated well-typed program must be accepted and verified; every mutant with exactly one injected static error must be rejected with a diagnostic and emit nothing.",
         "Only the 10 listed rule classes are attacked for rejection; fault statements are self-contained.", "DESIGN.md §3 C05"),
 "C06": ("vcore+textgen+isolate", "fuzzing-style property-based testing: token soups, grammar programs, corpus and token-level mutants through lexer+parser+semantic analysis in isolated worker processes; crash signatures",
         "Search for panics/aborts/hangs/out-of-file diagnostics over generated and mutated texts; every case runs in a worker process so stack overflows and aborts are attributed to an input. Many genuine crashes of the unchanged tree are listed as known findings by signature; anything else is a violation.",
         "size <= 64 KiB, nesting <= 64; a case over 60 s is inconclusive, never a violation.", "DESIGN.md §3 C06"),
 "C10": ("vcore+asmscan+runner", "property-based testing over compiled artefacts: independent sweep of the emitted assembly (objdump / bl-blr masks) against the stack-map, function and location tables",
         "For generated and corpus programs x {baseline x64, optimizing x64, optimizing arm64}: every call return address that can be suspended has a map, slots are aligned and inside the frame's static extent, ranges are registered once and end where the code ends, tables are ordered. Presence/shape only: whether a listed slot really holds a reference is attacked dynamically by C03.",
         "Trusts GNU objdump's linear sweep for x64 instruction boundaries; arm64 is static (never executed here).", "DESIGN.md §3 C10"),
 "C11": ("vcore+matchgen", "property-based testing: generated pattern matrices over small finite types against a brute-force oracle over all values; run-time arm selection on both generators",
         "Exactness of exhaustiveness and arm reachability is checked against enumeration of every value of the scrutinee type (literal types: all literals used + one fresh value); a sample is executed on every value with both generators.",
         "Random matrices only (no exhaustive enumeration of small shapes); infinite types only through literals + wildcard.", "DESIGN.md §3 C11"),
 "C13": ("vcore+runner", "property-based testing: generated recursion/allocation programs x collectors x heap sizes x generators; oracle = documented trap with trace, bounded partner program must succeed (metamorphic)",
         "Search over frame shapes, thread placement, retention shapes and impossible lengths: the run must end in 107/106 (or 109 for impossible sizes) with a trace, never a signal/hang/bogus success.",
         "Negative and astronomically large lengths are a listed known finding (both generators / baseline).", "DESIGN.md §3 C13"),
 "C14": ("vcore+runner", "property-based testing: generated programs with exactly one failing operation at a generator-known line inside a generator-known call chain; stderr frames compared with the chain, both generators",
         "Search over failing-op kinds x call-chain shapes (plain, generic, class method, mutating method, lambda, trait object, inlinable): status, message, every frame's function and line, identical report for both generators, stdout delivered.",
         "Frame names are matched by unique identifiers; columns only compared between generators.", "DESIGN.md §3 C14"),
 "C15": ("vcore+runner", "property-based testing over build histories: each program built 3x concurrently from different working/output directories (package, assembly, executable; both generators; collectors) + bootstrap fixed point",
         "Byte identity within each group of builds; stage2 == stage3 of the self-compiled optimizing compiler in release and debug tool builds.",
         "Same host/toolchain; source path constant within a group.", "DESIGN.md §3 C15"),
 "C16": ("vcore+textgen", "property-based testing: generated texts (proptest choice sequences, corpus, token-level mutants) against a round-trip/tiling oracle, ddmin shrinking",
         "Search, not proof: every repo source in 3 line-ending styles plus >=150k generated/mutated texts per quick run are parsed and the tree is checked to reproduce the text byte for byte, to tile, to sum lengths, to keep error spans inside the text and to be stable under re-parse. Right level because the property quantifies over all texts incl. every error-recovery path and the oracle is exact and cheap (µs per case).",
         "Trusts std string slicing and my walker; sizes <=64 KiB, bracket nesting <=64.", "DESIGN.md §3 C16"),
 "C17": ("vcore+textgen+isolate", "property-based testing: corpus, grammar programs and layout mutants x line widths against token/comment preservation, re-parse and idempotence oracles",
         "Search over layouts and widths; the comparator derives optional trailing commas from the syntax tree. Numerous genuine formatter defects of the unchanged tree are listed as known findings by signature; comments/blank lines in the middle of a construct are excluded from the random search by construction (counted) and kept alive through their reproducers.",
         "Inputs that do not parse are outside the quantifier (skipped, counted).", "DESIGN.md §3 C17"),
 "C18": ("vcore+runner", "round-trip and fault-injection testing: package decode/encode identity, via-package build == direct build (both generators), truncations and bit flips must be refused or harmless; bytecode stream round trip in harness-bc",
         "Search over programs and generated faults; bit flips that yield a different program are a listed known finding (no integrity protection).",
         "Bytecode writer/reader stream round trip is a separate crate (harness-bc) merged into the evidence when present.", "DESIGN.md §3 C18"),
 "C19": ("vcore+asmscan", "property-based testing: generated adversarial name sets against injectivity / charset / length / demangle round-trip oracles, cross-process determinism, and label sets of emitted assembly",
         "Search over adversarial name families (edits placed past the truncation point, escape look-alikes, multi-byte, 120–5000 byte prefixes) and limits; a systematic single-byte sweep of three long names; programs with deeply nested generic instantiations and same-named items whose assembly labels must be unique, valid and assemble. Cannot find a genuine 128-bit hash collision except by luck.",
         "FNV-128 collisions are out of reach of random search.", "DESIGN.md §3 C19"),
 "C20": ("vcore+textgen", "property-based testing: exhaustive small documents + generated texts, every offset and every position, against an independent recomputation and round trip",
         "Exhaustive over all documents up to length 5 (quick) over {a, astral, 2-byte, 3-byte, LF, CR} and random texts beyond; for each text all char-boundary offsets and all (line, column) incl. out-of-range are checked. position.rs is compiled in unchanged via #[path].",
         "Document-symbol ranges over the real language server are a separate sub-check (lspdrive).", "DESIGN.md §3 C20"),
}
checks = []
for pid, (engine, tech, text, note, ref) in sorted(CLAIMED.items()):
    checks.append({
        "property_id": pid,
        "quick_cmd": f"./check {pid} quick",
        "thorough_cmd": f"./check {pid} thorough",
        "evidence_file": f"/verif/evidence/{pid}.json",
        "replay_cmd_template": f"./check {pid} --replay {{path}}",
        "engine": engine,
        "level_claimed": {"category": EXPL, "text": text, "design_ref": ref},
        "level_note": note,
        "technique": tech,
    })
hook_commits = subprocess.run(["git", "-C", "/repo", "log", "--format=%h %s", "--grep=^hook:"], capture_output=True, text=True).stdout.strip().splitlines()
m = {
 "version": 1,
 "setup_cmd": "./check --setup",
 "hooks": {"guard": "dinfuehr_dora_verif",
           "enable": "RUSTFLAGS=\"--cfg dinfuehr_dora_verif\" (set by ./check for every cargo build of /repo into /verif/.build/target and of the harness into /verif/.build/htarget)",
           "baseline_off_cmd": "cd /repo && cargo nextest run --workspace --no-fail-fast --offline --test-threads 8",
           "source_commits": [c.split()[0] for c in hook_commits], "add_only": True},
 "engines": [
   {"name": "vcore", "path": "harness/src/vcore.rs", "serves_properties": sorted(CLAIMED), "kind_free_text": "choice-sequence engine on proptest (seeded TestRunner, value-tree shrinking, parallel evaluation), case-level ddmin, evidence/replay/known-finding handling, watchdog"},
   {"name": "isolate", "path": "harness/src/isolate.rs", "serves_properties": [p for p in ("C06","C17","C05","C11") if p in CLAIMED], "kind_free_text": "worker-process pool so hard crashes/hangs of in-process code are attributed to a case"},
   {"name": "textgen", "path": "harness/src/textgen.rs", "serves_properties": [p for p in ("C06","C16","C17","C20") if p in CLAIMED], "kind_free_text": "token soups, grammar-directed programs, repo corpus, token-level mutators, line-ending/multi-byte transforms"},
 ],
 "checks": checks,
 "notes": "See DESIGN.md. Every check: ./check <id> quick|thorough|--replay <file>; exit 0 held / 1 VIOLATION / 2 inconclusive. Known findings: known_findings.json.",
 "not_applicable": [{"property_id": p['id'], "reason": "check not registered yet (work in progress; see DESIGN.md build order)"} for p in props if p['id'] not in CLAIMED],
}
json.dump(m, open('/verif/MANIFEST.json', 'w'), indent=1)
print("claimed:", sorted(CLAIMED))
