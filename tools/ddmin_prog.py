#!/usr/bin/env python3
"""developer tool: line-based ddmin of a Dora program.
usage: ddmin_prog.py <file.dora> <predicate-shell-snippet using $F for the candidate file>
the predicate must exit 0 when the candidate still shows the behaviour."""
import subprocess, sys, os, tempfile
src = open(sys.argv[1]).read().splitlines(keepends=True)
pred = sys.argv[2]
d = tempfile.mkdtemp(dir='/verif/.build/scratch')
def ok(lines):
    f = os.path.join(d, 'cand.dora'); open(f, 'w').write(''.join(lines))
    return subprocess.run(pred, shell=True, env=dict(os.environ, F=f, D=d), stdout=subprocess.DEVNULL, stderr=subprocess.DEVNULL).returncode == 0
assert ok(src), "predicate does not hold on the input"
n = 2
while len(src) >= 2:
    chunk = max(1, len(src) // n); removed = False; i = 0
    while i < len(src):
        cand = src[:i] + src[i+chunk:]
        if ok(cand): src = cand; removed = True
        else: i += chunk
    if removed: n = max(2, n - 1)
    else:
        if chunk == 1: break
        n = min(n * 2, len(src))
sys.stdout.write(''.join(src))
subprocess.run(['rm', '-rf', d])
