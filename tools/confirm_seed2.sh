#!/bin/bash
# developer tool: confirm a second-batch seeded change in its own scratch worktree /tmp/seed2/<ID>/wt:
#  (1) patch applies, (2) the repo's test suite passes with it, (3) the demo passes without it, (4) fails with it.
# usage: confirm_seed2.sh <ID>...   -> /tmp/seed2/<ID>/confirm.json
export CARGO_NET_OFFLINE=true
for ID in "$@"; do
  S=/tmp/seed2/$ID; WT=$S/wt; T=$S/target
  [ -d $WT ] || git -C /repo worktree add --detach $WT HEAD >/dev/null 2>&1
  ln -sfn $WT/pkgs $S/pkgs
  cd $WT && git checkout -q -- . && git clean -fdq
  timeout 1800 bash $S/out/demo/run.sh $WT $T > $S/confirm.demo_clean.log 2>&1; DC=$?
  git checkout -q -- . ; git clean -fdq
  git apply $S/out/patch.diff; AP=$?
  CARGO_TARGET_DIR=$T cargo nextest run --workspace --no-fail-fast --offline --test-threads 8 > $S/confirm.tests.log 2>&1; TR=$?
  SUMMARY=$(grep -E "tests run:" $S/confirm.tests.log | tail -1)
  timeout 1800 bash $S/out/demo/run.sh $WT $T > $S/confirm.demo_patched.log 2>&1; DP=$?
  git checkout -q -- . ; git clean -fdq
  python3 - <<PY
import json
json.dump({"id":"$ID","patch_applies":$AP==0,"tests_rc_with_patch":$TR,"tests_summary":"""$SUMMARY""".strip(),"demo_rc_clean":$DC,"demo_rc_patched":$DP,
 "confirmed": $AP==0 and $TR==0 and $DC==0 and $DP!=0}, open("$S/confirm.json","w"), indent=1)
PY
  cat $S/confirm.json
  rm -rf $T
done
