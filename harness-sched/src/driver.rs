//! Generic driver shared by the three scheduler checks: worker-process pool
//! (one case at a time per process — the runtime has one global `Runtime`
//! pointer; a failing case leaves its threads parked, so the worker retires
//! after reporting it), vcore `Prop` adapter for the proptest-random search,
//! and the bounded-exhaustive schedule enumerator.

use crate::sched::{PointInfo, PointKind, Schedule, SimEnd};
use rayon::prelude::*;
use serde_json::{Value, json};
use std::collections::BTreeMap;
use std::io::{BufRead, BufReader, Write};
use std::process::{Child, ChildStdin, ChildStdout, Command, Stdio};
use std::sync::Mutex;
use std::time::{Duration, Instant};
use vh::vcore::*;

/// Result of executing one (script, schedule) pair in this process.
pub struct RunResult {
    pub end: SimEnd,
    pub points: Vec<PointInfo>,
    pub steps: u64,
    pub switches: u64,
    pub preemptions: u64,
    pub classes: Vec<String>,
    pub nontrivial: bool,
    pub trace: String,
}

pub trait SchedCheck: Sync + Send + 'static {
    type Script: Clone + Send + Sync;
    fn id(&self) -> &'static str;
    fn gen_script(&self, c: &mut Choices) -> Self::Script;
    fn script_to_json(&self, s: &Self::Script) -> Value;
    fn script_from_json(&self, v: &Value) -> Option<Self::Script>;
    /// Execute one case in *this* process (worker side).
    fn run(&self, s: &Self::Script, schedule: Schedule) -> RunResult;
    /// Smaller variants of a script (for case-level minimisation), most aggressive first.
    fn shrink_script(&self, _s: &Self::Script) -> Vec<Self::Script> {
        vec![]
    }
    /// Is the failure of this script covered by a known finding's predicate? (none so far)
    fn density_choices(&self) -> &'static [u8] {
        &[3, 2, 4, 5, 6]
    }
}

// ---------------------------------------------------------------------------
// Worker side

fn decisions_of(points: &[PointInfo]) -> Vec<u8> {
    let mut v: Vec<u8> = points.iter().map(|p| p.chosen).collect();
    while v.last() == Some(&0) {
        v.pop();
    }
    v
}

fn points_to_json(points: &[PointInfo]) -> Value {
    // compact: [kind, n, chosen] triples flattened
    let mut out = Vec::with_capacity(points.len() * 3);
    for p in points {
        out.push(match p.kind {
            PointKind::Preempt => 0u8,
            PointKind::Forced => 1,
            PointKind::Pick => 2,
        });
        out.push(p.n);
        out.push(p.chosen);
    }
    json!(out)
}

fn result_to_json(script_json: &Value, r: &RunResult, with_points: bool) -> Value {
    let decisions = decisions_of(&r.points);
    let hash = hash64(&(script_json.to_string(), &decisions));
    let (status, key, msg) = match &r.end {
        SimEnd::Ok => ("ok", String::new(), String::new()),
        SimEnd::Fail { key, msg } => ("fail", key.clone(), msg.clone()),
        SimEnd::Inconclusive(m) => ("inconclusive", String::new(), m.clone()),
    };
    let mut v = json!({
        "status": status, "key": key, "msg": msg,
        "steps": r.steps, "switches": r.switches, "preemptions": r.preemptions,
        "classes": r.classes, "nontrivial": r.nontrivial,
        "hash": format!("{hash:016x}"),
        "retire": status != "ok",
    });
    if status != "ok" {
        v["explicit"] = Schedule::Explicit(decisions).to_json();
        v["trace"] = json!(r.trace);
    }
    if with_points {
        v["points"] = points_to_json(&r.points);
    }
    v
}

/// Depth-first enumeration of all schedules below `prefix` whose number of
/// preemptions (non-forced switches) is <= bound. Forced-switch and
/// notify-pick alternatives are free. Stops at the first failure.
fn explore_subtree<C: SchedCheck>(check: &C, script: &C::Script, script_json: &Value, prefix: Vec<u8>, bound: usize, max_runs: u64) -> Value {
    let mut runs = 0u64;
    let mut nontrivial_hashes: Vec<String> = vec![];
    let mut nontrivial = 0u64;
    let mut classes: BTreeMap<String, u64> = BTreeMap::new();
    let mut max_points = 0usize;
    let mut total_steps = 0u64;
    let mut truncated = false;
    let mut sample: Option<Value> = None;
    // stack of (prefix, preemptions used in prefix)
    let cost_of = |prefix: &[u8], points: &[PointInfo]| -> usize { prefix.iter().zip(points.iter()).filter(|(d, p)| **d != 0 && p.kind == PointKind::Preempt).count() };
    let mut stack: Vec<Vec<u8>> = vec![prefix];
    while let Some(pfx) = stack.pop() {
        if runs >= max_runs {
            truncated = true;
            break;
        }
        let r = check.run(script, Schedule::Explicit(pfx.clone()));
        runs += 1;
        total_steps += r.steps;
        max_points = max_points.max(r.points.len());
        for c in &r.classes {
            *classes.entry(c.clone()).or_insert(0) += 1;
        }
        match &r.end {
            SimEnd::Ok => {}
            _ => {
                let mut v = result_to_json(script_json, &r, false);
                v["mode"] = json!("subtree");
                v["runs"] = json!(runs);
                v["classes_hist"] = json!(classes);
                v["nontrivial_count"] = json!(nontrivial);
                v["nontrivial_hashes"] = json!(nontrivial_hashes);
                v["max_points"] = json!(max_points);
                v["total_steps"] = json!(total_steps);
                v["truncated"] = json!(false);
                return v;
            }
        }
        if r.nontrivial {
            nontrivial += 1;
            let decisions = decisions_of(&r.points);
            if nontrivial_hashes.len() < 20_000 {
                nontrivial_hashes.push(format!("{:016x}", hash64(&(script_json.to_string(), &decisions))));
            }
            if sample.is_none() {
                sample = Some(json!({"script": script_json, "schedule": Schedule::Explicit(decisions).to_json(), "classes": r.classes}));
            }
        }
        // children: extend at every decision point beyond the prefix
        let used = cost_of(&pfx, &r.points);
        let full: Vec<u8> = r.points.iter().map(|p| p.chosen).collect();
        for i in (pfx.len()..r.points.len()).rev() {
            let p = &r.points[i];
            let alts = p.alternatives();
            if alts == 0 {
                continue;
            }
            let cost = if p.kind == PointKind::Preempt { 1 } else { 0 };
            if used + cost > bound {
                continue;
            }
            for alt in 1..=alts {
                let mut child = full[..i].to_vec();
                child.push(alt);
                stack.push(child);
            }
        }
    }
    json!({
        "mode": "subtree", "status": "ok", "retire": false, "runs": runs, "classes_hist": classes,
        "nontrivial_count": nontrivial, "nontrivial_hashes": nontrivial_hashes, "max_points": max_points,
        "total_steps": total_steps, "truncated": truncated, "sample": sample,
    })
}

/// Worker loop: one JSON request per line on stdin, one JSON response per line.
pub fn worker_main<C: SchedCheck>(check: &C) -> i32 {
    crate::sched::install();
    use std::os::fd::FromRawFd;
    let proto_fd = unsafe { libc::dup(1) };
    unsafe { libc::dup2(2, 1) };
    let mut proto = unsafe { std::fs::File::from_raw_fd(proto_fd) };
    let stdin = std::io::stdin();
    for line in stdin.lock().lines() {
        let Ok(line) = line else { break };
        let Ok(req) = serde_json::from_str::<Value>(&line) else { continue };
        let script_json = req["script"].clone();
        let resp = match check.script_from_json(&script_json) {
            None => json!({"status":"inconclusive","msg":"worker could not rebuild the script","retire":false}),
            Some(script) => {
                if req["mode"].as_str() == Some("subtree") {
                    let prefix: Vec<u8> = req["prefix"].as_array().map(|a| a.iter().map(|x| x.as_u64().unwrap_or(0) as u8).collect()).unwrap_or_default();
                    explore_subtree(check, &script, &script_json, prefix, req["bound"].as_u64().unwrap_or(0) as usize, req["max_runs"].as_u64().unwrap_or(u64::MAX))
                } else {
                    match Schedule::from_json(&req["schedule"]) {
                        Some(sch) => {
                            let r = check.run(&script, sch);
                            result_to_json(&script_json, &r, req["with_points"].as_bool().unwrap_or(false))
                        }
                        None => json!({"status":"inconclusive","msg":"bad schedule","retire":false}),
                    }
                }
            }
        };
        let retire = resp["retire"].as_bool().unwrap_or(false);
        let _ = writeln!(proto, "{}", resp);
        let _ = proto.flush();
        if retire {
            // threads of the failed case are parked for good: leave without running destructors
            unsafe { libc::_exit(0) };
        }
    }
    0
}

// ---------------------------------------------------------------------------
// Pool (parent side)

struct Worker {
    child: Child,
    stdin: ChildStdin,
    stdout: BufReader<ChildStdout>,
    stderr_path: std::path::PathBuf,
}

pub struct Pool {
    id: String,
    idle: Mutex<Vec<Worker>>,
    pub timeout: Duration,
}

static DEADLINES: Mutex<Vec<(u32, Instant)>> = Mutex::new(Vec::new());
static KILLER: std::sync::Once = std::sync::Once::new();

pub enum Reply {
    Json(Value),
    Crash { signal: Option<i32>, code: Option<i32>, stderr_tail: String },
    Timeout,
}

impl Pool {
    pub fn new(id: &str, timeout_s: u64) -> Pool {
        KILLER.call_once(|| {
            std::thread::spawn(|| {
                loop {
                    std::thread::sleep(Duration::from_millis(500));
                    let now = Instant::now();
                    let d = DEADLINES.lock().unwrap();
                    for (pid, dl) in d.iter() {
                        if now > *dl {
                            unsafe { libc::kill(*pid as i32, libc::SIGKILL) };
                        }
                    }
                }
            });
        });
        Pool { id: id.into(), idle: Mutex::new(vec![]), timeout: Duration::from_secs(timeout_s) }
    }

    fn spawn(&self) -> Worker {
        let exe = std::env::current_exe().expect("current_exe");
        let dir = std::path::Path::new(VERIF_ROOT).join(".build/scratch");
        let _ = std::fs::create_dir_all(&dir);
        static N: std::sync::atomic::AtomicUsize = std::sync::atomic::AtomicUsize::new(0);
        let stderr_path = dir.join(format!("vsched-worker-{}-{}.stderr", std::process::id(), N.fetch_add(1, std::sync::atomic::Ordering::SeqCst)));
        let errf = std::fs::File::create(&stderr_path).expect("stderr file");
        let mut child = Command::new(exe).arg(&self.id).arg("--worker").stdin(Stdio::piped()).stdout(Stdio::piped()).stderr(errf).spawn().expect("spawn worker");
        let stdin = child.stdin.take().unwrap();
        let stdout = BufReader::new(child.stdout.take().unwrap());
        Worker { child, stdin, stdout, stderr_path }
    }

    fn reap(mut w: Worker) -> (Option<std::process::ExitStatus>, String) {
        drop(w.stdin);
        let status = w.child.wait().ok();
        let stderr = std::fs::read_to_string(&w.stderr_path).unwrap_or_default();
        let _ = std::fs::remove_file(&w.stderr_path);
        (status, stderr)
    }

    pub fn request(&self, req: &Value, timeout: Duration) -> Reply {
        let mut w = self.idle.lock().unwrap().pop().unwrap_or_else(|| self.spawn());
        let pid = w.child.id();
        DEADLINES.lock().unwrap().push((pid, Instant::now() + timeout));
        let t0 = Instant::now();
        let ok = writeln!(w.stdin, "{}", req).and_then(|_| w.stdin.flush()).is_ok();
        let mut resp = String::new();
        let got = ok && w.stdout.read_line(&mut resp).map(|n| n > 0).unwrap_or(false);
        DEADLINES.lock().unwrap().retain(|(p, _)| *p != pid);
        if got {
            if let Ok(v) = serde_json::from_str::<Value>(&resp) {
                if v["retire"].as_bool().unwrap_or(false) {
                    let _ = Self::reap(w);
                } else {
                    self.idle.lock().unwrap().push(w);
                }
                return Reply::Json(v);
            }
        }
        let timed_out = t0.elapsed() >= timeout;
        let _ = w.child.kill();
        let (status, stderr) = Self::reap(w);
        if timed_out {
            return Reply::Timeout;
        }
        use std::os::unix::process::ExitStatusExt;
        let tail: String = stderr.lines().rev().take(12).collect::<Vec<_>>().into_iter().rev().collect::<Vec<_>>().join("\n");
        Reply::Crash { signal: status.and_then(|s| s.signal()), code: status.and_then(|s| s.code()), stderr_tail: tail }
    }

    pub fn shutdown(&self) {
        for w in self.idle.lock().unwrap().drain(..) {
            let _ = Self::reap(w);
        }
    }
}

impl Drop for Pool {
    fn drop(&mut self) {
        self.shutdown();
    }
}

fn crash_key(stderr_tail: &str, signal: Option<i32>) -> String {
    // a panic inside an `extern "C"` runtime function aborts; its message is on stderr
    for l in stderr_tail.lines() {
        if let Some(i) = l.find("panicked at") {
            return format!("worker-crash:{}", normalise_msg(&l[i..]));
        }
    }
    format!("worker-crash:signal-{:?}", signal)
}

// ---------------------------------------------------------------------------
// vcore adapter: random (script, schedule) pairs

#[derive(Clone)]
pub struct Case<S> {
    pub script: S,
    pub schedule: Schedule,
}

pub struct SchedProp<'a, C: SchedCheck> {
    pub check: &'a C,
    pub pool: &'a Pool,
    pub name: String,
}

impl<'a, C: SchedCheck> SchedProp<'a, C> {
    fn eval_json(&self, case: &Case<C::Script>) -> Result<Value, Outcome> {
        let sj = self.check.script_to_json(&case.script);
        let req = json!({"mode":"one","script": sj, "schedule": case.schedule.to_json()});
        let h = hash64(&req.to_string());
        match self.pool.request(&req, self.pool.timeout) {
            Reply::Json(v) => Ok(v),
            Reply::Timeout => Err(Outcome { inconclusive: Some(format!("case exceeded {}s in worker (HANG-SUSPECT)", self.pool.timeout.as_secs())), hash: h, ..Default::default() }),
            Reply::Crash { signal, code, stderr_tail } => Err(Outcome::fail(
                h,
                crash_key(&stderr_tail, signal),
                format!("worker process died (signal {:?}, exit code {:?}) while evaluating this case; stderr tail:\n{}", signal, code, stderr_tail),
            )),
        }
    }
}

pub fn outcome_of(v: &Value) -> Outcome {
    let hash = u64::from_str_radix(v["hash"].as_str().unwrap_or("0"), 16).unwrap_or(0);
    let classes: Vec<String> = v["classes"].as_array().map(|a| a.iter().filter_map(|x| x.as_str().map(String::from)).collect()).unwrap_or_default();
    match v["status"].as_str() {
        Some("ok") => Outcome { hash, nontrivial: v["nontrivial"].as_bool().unwrap_or(false), classes, ..Default::default() },
        Some("fail") => {
            let mut o = Outcome::fail(hash, v["key"].as_str().unwrap_or("?"), v["msg"].as_str().unwrap_or(""));
            o.classes = classes;
            o
        }
        _ => Outcome { hash, inconclusive: Some(v["msg"].as_str().unwrap_or("inconclusive").chars().take(600).collect()), ..Default::default() },
    }
}

impl<'a, C: SchedCheck> Prop for SchedProp<'a, C> {
    type Case = Case<C::Script>;
    fn name(&self) -> &str {
        &self.name
    }
    fn generate(&self, c: &mut Choices) -> Self::Case {
        let script = self.check.gen_script(c);
        let dens = self.check.density_choices();
        let density_shift = dens[c.below(dens.len())];
        let mut data = vec![];
        while !c.exhausted() {
            data.push(c.raw());
        }
        Case { script, schedule: Schedule::Raw { data, density_shift } }
    }
    fn eval(&self, case: &Self::Case) -> Outcome {
        match self.eval_json(case) {
            Ok(v) => outcome_of(&v),
            Err(o) => o,
        }
    }
    fn render(&self, case: &Self::Case) -> Value {
        json!({"script": self.check.script_to_json(&case.script), "schedule": case.schedule.to_json()})
    }
    fn from_rendered(&self, v: &Value) -> Option<Self::Case> {
        Some(Case { script: self.check.script_from_json(&v["script"])?, schedule: Schedule::from_json(&v["schedule"])? })
    }
    /// Case-level minimisation: make the schedule explicit, drop decisions one by one
    /// (fewer context switches), then try smaller scripts.
    fn minimize(&self, case: &Self::Case, fails: &dyn Fn(&Self::Case) -> bool) -> Option<Self::Case> {
        let mut budget = 400usize;
        // explicit form of the failing run
        let v = self.eval_json(case).ok()?;
        let mut cur = Case { script: case.script.clone(), schedule: Schedule::from_json(&v["explicit"])? };
        if !fails(&cur) {
            return None;
        }
        let key = v["key"].as_str().unwrap_or("").to_string();
        let mut searches = 60usize;
        loop {
            let mut progressed = false;
            // 1. smaller scripts: positions of the stored decisions lose their meaning when the
            //    script changes, so look for a failing schedule of the candidate afresh with the
            //    bounded-exhaustive enumerator (<= 2 preemptions, capped) and keep it if the
            //    failure signature is the same
            for s in self.check.shrink_script(&cur.script) {
                if searches == 0 {
                    break;
                }
                searches -= 1;
                let sj = self.check.script_to_json(&s);
                let req = json!({"mode":"subtree","script": sj, "prefix": [], "bound": 2, "max_runs": 1500});
                if let Reply::Json(r) = self.pool.request(&req, Duration::from_secs(120)) {
                    if r["status"].as_str() == Some("fail") && r["key"].as_str() == Some(key.as_str()) {
                        if let Some(sch) = Schedule::from_json(&r["explicit"]) {
                            let cand = Case { script: s, schedule: sch };
                            if fails(&cand) {
                                cur = cand;
                                progressed = true;
                                break;
                            }
                        }
                    }
                }
            }
            // 2. drop non-zero decisions, last first; truncate tail
            if let Schedule::Explicit(d) = cur.schedule.clone() {
                let idxs: Vec<usize> = d.iter().enumerate().filter(|(_, x)| **x != 0).map(|(i, _)| i).collect();
                for &i in idxs.iter().rev() {
                    if budget == 0 {
                        break;
                    }
                    let Schedule::Explicit(now) = cur.schedule.clone() else { break };
                    if i >= now.len() || now[i] == 0 {
                        continue;
                    }
                    budget -= 1;
                    let mut cand_d = now.clone();
                    cand_d[i] = 0;
                    while cand_d.last() == Some(&0) {
                        cand_d.pop();
                    }
                    let cand = Case { script: cur.script.clone(), schedule: Schedule::Explicit(cand_d) };
                    if fails(&cand) {
                        cur = cand;
                        progressed = true;
                    }
                }
            }
            if !progressed || budget == 0 {
                break;
            }
        }
        Some(cur)
    }
}

// ---------------------------------------------------------------------------
// Bounded-exhaustive driver (parent side)

pub struct ExhaustStats {
    pub scripts: usize,
    pub runs: u64,
    pub truncated_scripts: usize,
    pub max_points: usize,
}

/// For every script: run the empty schedule to learn the decision points, split the tree
/// into first-level subtrees and let the workers enumerate them.
pub fn run_exhaustive<C: SchedCheck>(ctx: &mut Ctx, check: &C, pool: &Pool, sub: &str, scripts: &[C::Script], bound: usize, max_runs_per_script: u64) -> ExhaustStats {
    let t0 = Instant::now();
    let mut stats = ExhaustStats { scripts: scripts.len(), runs: 0, truncated_scripts: 0, max_points: 0 };
    let long = Duration::from_secs(600);
    // stage 1: root runs (parallel)
    let roots: Vec<(Value, Reply)> = scripts
        .par_iter()
        .map(|s| {
            let sj = check.script_to_json(s);
            let req = json!({"mode":"one","script": sj, "schedule": Schedule::Explicit(vec![]).to_json(), "with_points": true});
            let r = pool.request(&req, pool.timeout);
            (sj, r)
        })
        .collect();
    // stage 2: subtree tasks
    struct Task {
        script_idx: usize,
        prefix: Vec<u8>,
    }
    let mut tasks: Vec<Task> = vec![];
    let mut per_script_tasks = vec![0usize; scripts.len()];
    for (si, (sj, reply)) in roots.iter().enumerate() {
        match reply {
            Reply::Json(v) => {
                ctx.evaluations += 1;
                stats.runs += 1;
                let o = outcome_of(v);
                account(ctx, sub, &o, || json!({"script": sj, "schedule": Schedule::Explicit(vec![]).to_json()}));
                if let Some(f) = &o.fail {
                    ctx.report_failure(sub, f, || json!({"rendered": {"script": sj, "schedule": v["explicit"]}, "trace": v["trace"]}));
                    continue;
                }
                if o.inconclusive.is_some() {
                    continue;
                }
                let pts: Vec<u8> = v["points"].as_array().map(|a| a.iter().map(|x| x.as_u64().unwrap_or(0) as u8).collect()).unwrap_or_default();
                let n = pts.len() / 3;
                stats.max_points = stats.max_points.max(n);
                let chosen: Vec<u8> = (0..n).map(|i| pts[3 * i + 2]).collect();
                for i in 0..n {
                    let (kind, nn) = (pts[3 * i], pts[3 * i + 1]);
                    let alts = if kind == 0 { nn } else { nn.saturating_sub(1) };
                    let cost = if kind == 0 { 1 } else { 0 };
                    if cost > bound {
                        continue;
                    }
                    for alt in 1..=alts {
                        let mut prefix = chosen[..i].to_vec();
                        prefix.push(alt);
                        tasks.push(Task { script_idx: si, prefix });
                        per_script_tasks[si] += 1;
                    }
                }
            }
            Reply::Timeout => {
                ctx.inconclusive.push(format!("{sub}: root run timed out"));
            }
            Reply::Crash { signal, stderr_tail, .. } => {
                ctx.evaluations += 1;
                let f = Failure { key: crash_key(stderr_tail, *signal), msg: format!("worker died on the non-preemptive schedule; stderr tail:\n{stderr_tail}") };
                ctx.report_failure(sub, &f, || json!({"rendered": {"script": sj, "schedule": Schedule::Explicit(vec![]).to_json()}}));
            }
        }
    }
    let results: Vec<(usize, Vec<u8>, Reply)> = tasks
        .par_iter()
        .map(|t| {
            let sj = &roots[t.script_idx].0;
            let share = (max_runs_per_script / per_script_tasks[t.script_idx].max(1) as u64).max(50);
            let req = json!({"mode":"subtree","script": sj, "prefix": t.prefix, "bound": bound, "max_runs": share});
            (t.script_idx, t.prefix.clone(), pool.request(&req, long))
        })
        .collect();
    let mut truncated = vec![false; scripts.len()];
    let mut total_steps = 0u64;
    for (si, prefix, reply) in results {
        let sj = &roots[si].0;
        match reply {
            Reply::Json(v) => {
                let runs = v["runs"].as_u64().unwrap_or(0);
                ctx.evaluations += runs;
                stats.runs += runs;
                total_steps += v["total_steps"].as_u64().unwrap_or(0);
                stats.max_points = stats.max_points.max(v["max_points"].as_u64().unwrap_or(0) as usize);
                if let Some(h) = v["classes_hist"].as_object() {
                    for (k, n) in h {
                        *ctx.classes.entry(format!("{sub}/{k}")).or_insert(0) += n.as_u64().unwrap_or(0);
                    }
                }
                if let Some(hs) = v["nontrivial_hashes"].as_array() {
                    for h in hs {
                        if let Some(h) = h.as_str().and_then(|s| u64::from_str_radix(s, 16).ok()) {
                            ctx.nontrivial.insert(h ^ hash64(sub));
                        }
                    }
                }
                if let Some(s) = v.get("sample").filter(|s| !s.is_null()) {
                    if ctx.samples.iter().filter(|x| x["sub"].as_str() == Some(sub)).count() < 2 && ctx.samples.len() < ctx.sample_cap {
                        ctx.samples.push(json!({"sub": sub, "case": truncate_value(s.clone(), 1500)}));
                    }
                }
                if v["truncated"].as_bool().unwrap_or(false) {
                    truncated[si] = true;
                }
                match v["status"].as_str() {
                    Some("fail") => {
                        let f = Failure { key: v["key"].as_str().unwrap_or("?").into(), msg: v["msg"].as_str().unwrap_or("").into() };
                        ctx.report_failure(sub, &f, || json!({"rendered": {"script": sj, "schedule": v["explicit"]}, "found_by": "bounded-exhaustive", "preemption_bound": bound}));
                    }
                    Some("inconclusive") => {
                        if ctx.inconclusive.len() < 50 {
                            ctx.inconclusive.push(format!("{sub}: {}", v["msg"].as_str().unwrap_or("").chars().take(300).collect::<String>()));
                        }
                        *ctx.classes.entry(format!("{sub}/inconclusive")).or_insert(0) += 1;
                    }
                    _ => {}
                }
            }
            Reply::Timeout => {
                ctx.inconclusive.push(format!("{sub}: subtree task timed out (prefix {:?})", prefix));
                ctx.extra.insert("hard_inconclusive".into(), json!("subtree task timed out"));
            }
            Reply::Crash { signal, stderr_tail, .. } => {
                // the failing schedule is somewhere below the prefix; report the prefix
                let f = Failure { key: crash_key(&stderr_tail, signal), msg: format!("worker died while enumerating the schedules below prefix {:?}; stderr tail:\n{}", prefix, stderr_tail) };
                ctx.report_failure(sub, &f, || json!({"rendered": {"script": sj, "schedule": Schedule::Explicit(prefix.clone()).to_json()}, "note": "crash inside subtree enumeration; prefix only"}));
            }
        }
    }
    stats.truncated_scripts = truncated.iter().filter(|x| **x).count();
    ctx.sub_stats.insert(
        sub.to_string(),
        json!({"mode":"bounded-exhaustive schedule enumeration","scripts":scripts.len(),"preemption_bound":bound,"runs":stats.runs,
               "scripts_truncated_by_run_cap":stats.truncated_scripts,"max_runs_per_script":max_runs_per_script,
               "max_decision_points":stats.max_points,"total_steps":total_steps,"wall_s":t0.elapsed().as_secs_f64()}),
    );
    stats
}

fn account(ctx: &mut Ctx, sub: &str, o: &Outcome, rendered: impl FnOnce() -> Value) {
    if let Some(r) = &o.inconclusive {
        if ctx.inconclusive.len() < 50 {
            ctx.inconclusive.push(format!("{sub}: {r}"));
        }
        *ctx.classes.entry(format!("{sub}/inconclusive")).or_insert(0) += 1;
        return;
    }
    if o.nontrivial {
        let fresh = ctx.nontrivial.insert(o.hash ^ hash64(sub));
        if fresh && ctx.samples.len() < ctx.sample_cap && ctx.samples.iter().filter(|s| s["sub"].as_str() == Some(sub)).count() < 2 {
            ctx.samples.push(json!({"sub": sub, "case": truncate_value(rendered(), 1500)}));
        }
    }
    for c in &o.classes {
        *ctx.classes.entry(format!("{sub}/{c}")).or_insert(0) += 1;
    }
}
