//! C09(b) — the runtime's wait-queue primitives under the deterministic scheduler.
//!
//! Real code under test: `WaitLists::{block, enqueue, wakeup, wakeup_all,
//! visit_roots}` with its `ObjectHashMap` (tombstones, rehash after a GC epoch
//! change), `DoraThread::{block, prepare_for_waitlist, set_waitlist_successor,
//! remove_from_waitlist, join, stop}`, plus — for the `gc` operation — the real
//! `Gc::force_collect` -> `stop_the_world` path with a harness collector that
//! relocates the fake mutex/condition objects through `WaitLists::visit_roots`.
//! Transliterated (trusted): `pkgs/std/thread.dora`'s `Mutex` (`lock_op`,
//! `lock_slow`, `transition_to_locked_contended`, `unlock_op`, `unlock_slow`) and
//! `Condition` (`wait`, `notify_one`, `notify_all`), the natives of
//! `stdlib.rs` that forward to `WaitLists`, the compiled safepoint poll.

use crate::driver::*;
use crate::sched::{Schedule, Sim, SimEnd, Tid};
use dora_runtime::verif::{self as rtv, Address, Collector, DoraThread, GcReason, Handle, ManagedCondition, ManagedMutex, Region, Runtime, ThreadState};
use serde_json::{Value, json};
use std::cell::Cell;
use std::collections::{BTreeSet, VecDeque};
use std::sync::atomic::{AtomicBool, AtomicU8, AtomicUsize, Ordering::SeqCst};
use std::sync::{Arc, Mutex};
use std::time::Duration;
use vh::vcore::*;

const UNLOCKED: i32 = 0;
const LOCKED: i32 = 1;
const LOCKED_CONTENDED: i32 = 2;
const POISON: i32 = 0x0BAD_0BAD;

#[derive(Clone, Debug, PartialEq)]
pub enum In {
    Cs,
    WaitFlag(usize),
    SetFlag { c: usize, all: bool },
    NotifyOne(usize),
    NotifyAll(usize),
    Gc(u8),
    Lock2(usize),
}

#[derive(Clone, Debug, PartialEq)]
pub enum Op {
    Lock { m: usize, body: Vec<In> },
    NotifyOne(usize),
    NotifyAll(usize),
    Gc(u8),
    Poll,
    Join(usize),
}

#[derive(Clone, Debug, PartialEq)]
pub struct Script {
    pub nmutex: usize,
    /// mutex of every condition
    pub conds: Vec<usize>,
    pub threads: Vec<Vec<Op>>,
}

pub struct C09;

fn in_to_s(i: &In) -> String {
    match i {
        In::Cs => "cs".into(),
        In::WaitFlag(c) => format!("wait:{c}"),
        In::SetFlag { c, all: true } => format!("set-all:{c}"),
        In::SetFlag { c, all: false } => format!("set-one:{c}"),
        In::NotifyOne(c) => format!("notify-one:{c}"),
        In::NotifyAll(c) => format!("notify-all:{c}"),
        In::Gc(m) => format!("gc:{m}"),
        In::Lock2(m) => format!("lock2:{m}"),
    }
}

fn in_from_s(s: &str) -> Option<In> {
    let (h, t) = s.split_once(':').map(|(a, b)| (a, b.parse::<usize>().ok())).unwrap_or((s, None));
    Some(match h {
        "cs" => In::Cs,
        "wait" => In::WaitFlag(t?),
        "set-all" => In::SetFlag { c: t?, all: true },
        "set-one" => In::SetFlag { c: t?, all: false },
        "notify-one" => In::NotifyOne(t?),
        "notify-all" => In::NotifyAll(t?),
        "gc" => In::Gc(t? as u8),
        "lock2" => In::Lock2(t?),
        _ => return None,
    })
}

fn op_to_json(o: &Op) -> Value {
    match o {
        Op::Lock { m, body } => json!({"lock": m, "body": body.iter().map(in_to_s).collect::<Vec<_>>()}),
        Op::NotifyOne(c) => json!(format!("notify-one:{c}")),
        Op::NotifyAll(c) => json!(format!("notify-all:{c}")),
        Op::Gc(m) => json!(format!("gc:{m}")),
        Op::Poll => json!("poll"),
        Op::Join(j) => json!(format!("join:{j}")),
    }
}

fn op_from_json(v: &Value) -> Option<Op> {
    if let Some(m) = v.get("lock") {
        let mut body = vec![];
        for b in v["body"].as_array()? {
            body.push(in_from_s(b.as_str()?)?);
        }
        return Some(Op::Lock { m: m.as_u64()? as usize, body });
    }
    let s = v.as_str()?;
    let (h, t) = s.split_once(':').map(|(a, b)| (a, b.parse::<usize>().ok())).unwrap_or((s, None));
    Some(match h {
        "notify-one" => Op::NotifyOne(t?),
        "notify-all" => Op::NotifyAll(t?),
        "gc" => Op::Gc(t? as u8),
        "poll" => Op::Poll,
        "join" => Op::Join(t?),
        _ => return None,
    })
}

impl Script {
    fn nobjects(&self) -> usize {
        self.nmutex + self.conds.len()
    }

    /// Scripts are live by construction (so that a deadlock is a finding):
    /// every waited-for flag is set exactly once, by a thread that neither waits nor
    /// joins before it sets the flag; waits happen only while holding exactly the
    /// condition's mutex; nested locks only in increasing order and without waits;
    /// joins only trail the script and go to threads with a larger index.
    pub fn valid(&self) -> bool {
        let n = self.threads.len();
        if !(2..=4).contains(&n) || !(1..=2).contains(&self.nmutex) || self.conds.len() > 2 || self.conds.iter().any(|m| *m >= self.nmutex) {
            return false;
        }
        let nc = self.conds.len();
        let mut setters = vec![0usize; nc];
        let mut waits = vec![0usize; nc];
        for (ti, ops) in self.threads.iter().enumerate() {
            let mut blocked_before = false; // a wait or join happened earlier in this thread
            let mut seen_join = false;
            for op in ops {
                if seen_join && !matches!(op, Op::Join(_)) {
                    return false;
                }
                match op {
                    Op::Lock { m, body } => {
                        if *m >= self.nmutex {
                            return false;
                        }
                        for i in body {
                            match i {
                                In::WaitFlag(c) => {
                                    if *c >= nc || self.conds[*c] != *m {
                                        return false;
                                    }
                                    waits[*c] += 1;
                                    blocked_before = true;
                                }
                                In::SetFlag { c, .. } => {
                                    if *c >= nc || self.conds[*c] != *m || blocked_before {
                                        return false;
                                    }
                                    setters[*c] += 1;
                                }
                                In::NotifyOne(c) | In::NotifyAll(c) => {
                                    if *c >= nc {
                                        return false;
                                    }
                                }
                                In::Lock2(m2) => {
                                    if *m2 >= self.nmutex || *m2 <= *m {
                                        return false;
                                    }
                                }
                                In::Gc(_) | In::Cs => {}
                            }
                        }
                    }
                    Op::NotifyOne(c) | Op::NotifyAll(c) => {
                        if *c >= nc {
                            return false;
                        }
                    }
                    Op::Join(j) => {
                        if *j <= ti || *j >= n {
                            return false;
                        }
                        seen_join = true;
                    }
                    Op::Gc(_) | Op::Poll => {}
                }
            }
        }
        (0..nc).all(|c| if waits[c] > 0 { setters[c] == 1 } else { setters[c] <= 1 })
    }

    fn waits_on(&self, c: usize) -> usize {
        self.threads.iter().flatten().map(|op| if let Op::Lock { body, .. } = op { body.iter().filter(|i| **i == In::WaitFlag(c)).count() } else { 0 }).sum()
    }
}

pub fn small_scripts(thorough: bool) -> Vec<Script> {
    use In::*;
    let l = |m: usize, body: Vec<In>| Op::Lock { m, body };
    let mut out = vec![
        // two threads contending for one mutex
        Script { nmutex: 1, conds: vec![], threads: vec![vec![l(0, vec![Cs])], vec![l(0, vec![Cs])]] },
        // wait / notify_one, wait / notify_all
        Script { nmutex: 1, conds: vec![0], threads: vec![vec![l(0, vec![WaitFlag(0)])], vec![l(0, vec![SetFlag { c: 0, all: false }])]] },
        Script { nmutex: 1, conds: vec![0], threads: vec![vec![l(0, vec![WaitFlag(0)])], vec![l(0, vec![SetFlag { c: 0, all: true }])]] },
        // notification without waiter, then a real one
        Script { nmutex: 1, conds: vec![0], threads: vec![vec![Op::NotifyOne(0), l(0, vec![SetFlag { c: 0, all: true }])], vec![l(0, vec![WaitFlag(0)])]] },
        // a collection moves the mutex while a thread is queued on it
        Script { nmutex: 1, conds: vec![], threads: vec![vec![l(0, vec![Gc(1)])], vec![l(0, vec![Cs])]] },
        // a collection moves the condition while a thread waits on it
        Script { nmutex: 1, conds: vec![0], threads: vec![vec![Op::Gc(3), l(0, vec![SetFlag { c: 0, all: false }])], vec![l(0, vec![WaitFlag(0)])]] },
        // two mutexes: tombstone path of the table
        Script { nmutex: 2, conds: vec![], threads: vec![vec![l(0, vec![Cs]), l(1, vec![Cs])], vec![l(1, vec![Cs]), l(0, vec![Cs])]] },
        // join
        Script { nmutex: 1, conds: vec![], threads: vec![vec![l(0, vec![Cs]), Op::Join(1)], vec![l(0, vec![Cs])]] },
    ];
    // three threads, one mutex (FIFO of the wait list), and two objects with queued threads
    out.push(Script { nmutex: 1, conds: vec![], threads: vec![vec![l(0, vec![Cs])], vec![l(0, vec![Cs])], vec![l(0, vec![])]] });
    out.push(Script { nmutex: 2, conds: vec![], threads: vec![vec![l(0, vec![Lock2(1)])], vec![l(0, vec![])], vec![l(1, vec![])]] });
    if thorough {
        out.push(Script { nmutex: 1, conds: vec![0], threads: vec![vec![l(0, vec![WaitFlag(0)])], vec![l(0, vec![WaitFlag(0)])], vec![l(0, vec![SetFlag { c: 0, all: false }])]] });
        out.push(Script { nmutex: 2, conds: vec![1], threads: vec![vec![l(1, vec![WaitFlag(0)])], vec![l(0, vec![Cs]), l(1, vec![SetFlag { c: 0, all: true }])], vec![l(0, vec![Gc(7)])]] });
    }
    for s in &out {
        assert!(s.valid(), "invalid built-in script {:?}", s);
    }
    out
}

impl SchedCheck for C09 {
    type Script = Script;
    fn id(&self) -> &'static str {
        "C09"
    }
    fn gen_script(&self, c: &mut Choices) -> Script {
        let n = 2 + c.weighted(&[4, 5, 2]);
        let nmutex = 1 + c.weighted(&[3, 2]);
        let nconds = c.weighted(&[2, 4, 2]);
        let conds: Vec<usize> = (0..nconds).map(|_| c.below(nmutex)).collect();
        // setter thread of each condition, and whether it uses notify_all
        let setter: Vec<usize> = (0..nconds).map(|_| c.below(n)).collect();
        let mut set_done = vec![false; nconds];
        let mut threads: Vec<Vec<Op>> = vec![];
        let nobj = nmutex + nconds;
        let gmask = |c: &mut Choices| -> u8 { (1 + c.below((1usize << nobj) - 1)) as u8 };
        for t in 0..n {
            let mut ops = vec![];
            let k = 1 + c.below(4);
            let mut blocked = false;
            for _ in 0..k {
                match c.weighted(&[8, 1, 1, 2, 1]) {
                    0 => {
                        let m = c.below(nmutex);
                        let mut body = vec![];
                        let bk = c.below(4);
                        for _ in 0..bk {
                            match c.weighted(&[3, 3, 3, 1, 1, 2, 2]) {
                                0 => body.push(In::Cs),
                                1 => {
                                    // wait on a condition of this mutex that somebody else sets
                                    let cands: Vec<usize> = (0..nconds).filter(|x| conds[*x] == m && setter[*x] != t).collect();
                                    if !cands.is_empty() {
                                        body.push(In::WaitFlag(*c.pick(&cands)));
                                        blocked = true;
                                    } else {
                                        body.push(In::Cs);
                                    }
                                }
                                2 => {
                                    let cands: Vec<usize> = (0..nconds).filter(|x| conds[*x] == m && setter[*x] == t && !set_done[*x]).collect();
                                    if !cands.is_empty() && !blocked {
                                        let cc = *c.pick(&cands);
                                        set_done[cc] = true;
                                        body.push(In::SetFlag { c: cc, all: c.chance(1, 2) });
                                    } else {
                                        body.push(In::Cs);
                                    }
                                }
                                3 => {
                                    if nconds > 0 {
                                        body.push(In::NotifyOne(c.below(nconds)))
                                    }
                                }
                                4 => {
                                    if nconds > 0 {
                                        body.push(In::NotifyAll(c.below(nconds)))
                                    }
                                }
                                5 => body.push(In::Gc(gmask(c))),
                                _ => {
                                    if m + 1 < nmutex {
                                        body.push(In::Lock2(m + 1))
                                    } else {
                                        body.push(In::Cs)
                                    }
                                }
                            }
                        }
                        ops.push(Op::Lock { m, body });
                    }
                    1 => {
                        if nconds > 0 {
                            ops.push(Op::NotifyOne(c.below(nconds)))
                        }
                    }
                    2 => {
                        if nconds > 0 {
                            ops.push(Op::NotifyAll(c.below(nconds)))
                        }
                    }
                    3 => ops.push(Op::Gc(gmask(c))),
                    _ => ops.push(Op::Poll),
                }
            }
            threads.push(ops);
        }
        // make the script live: every condition that is waited for gets its (single) setter
        for cc in 0..nconds {
            if !set_done[cc] {
                let t = setter[cc];
                // put the setter first in its thread: it can never be behind a wait then
                threads[t].insert(0, Op::Lock { m: conds[cc], body: vec![In::SetFlag { c: cc, all: c.chance(1, 2) }] });
            }
        }
        // trailing joins
        for t in 0..n {
            if t + 1 < n && c.chance(1, 4) {
                let j = t + 1 + c.below(n - t - 1);
                threads[t].push(Op::Join(j));
            }
        }
        let s = Script { nmutex, conds, threads };
        debug_assert!(s.valid(), "generated an invalid script: {:?}", s);
        s
    }
    fn script_to_json(&self, s: &Script) -> Value {
        json!({"nmutex": s.nmutex, "conds": s.conds, "threads": s.threads.iter().map(|t| t.iter().map(op_to_json).collect::<Vec<_>>()).collect::<Vec<_>>()})
    }
    fn script_from_json(&self, v: &Value) -> Option<Script> {
        let mut threads = vec![];
        for t in v["threads"].as_array()? {
            let mut ops = vec![];
            for o in t.as_array()? {
                ops.push(op_from_json(o)?);
            }
            threads.push(ops);
        }
        let s = Script { nmutex: v["nmutex"].as_u64()? as usize, conds: v["conds"].as_array()?.iter().map(|x| x.as_u64().map(|u| u as usize)).collect::<Option<Vec<_>>>()?, threads };
        if s.valid() { Some(s) } else { None }
    }
    fn shrink_script(&self, s: &Script) -> Vec<Script> {
        let mut out = vec![];
        // drop the last thread
        if s.threads.len() > 2 {
            let mut c = s.clone();
            c.threads.pop();
            let n = c.threads.len();
            for t in c.threads.iter_mut() {
                t.retain(|o| !matches!(o, Op::Join(j) if *j >= n));
            }
            if c.valid() {
                out.push(c);
            }
        }
        // drop single ops / single body items
        for ti in 0..s.threads.len() {
            for oi in 0..s.threads[ti].len() {
                let mut c = s.clone();
                c.threads[ti].remove(oi);
                if c.valid() {
                    out.push(c);
                }
                if let Op::Lock { body, .. } = &s.threads[ti][oi] {
                    for bi in 0..body.len() {
                        let mut c = s.clone();
                        if let Op::Lock { body, .. } = &mut c.threads[ti][oi] {
                            body.remove(bi);
                        }
                        if c.valid() {
                            out.push(c);
                        }
                    }
                }
            }
        }
        out
    }
    fn run(&self, s: &Script, schedule: Schedule) -> RunResult {
        run_case(s, schedule)
    }
}

// ---------------------------------------------------------------------------
// World

#[derive(Copy, Clone, PartialEq, Debug)]
enum Native {
    None,
    MutexWait(usize),
    Wakeup(usize),
    WakeupAll(usize),
    Enqueue(usize),
    Block,
}

struct Thr {
    dora: Mutex<Option<Arc<DoraThread>>>,
    ptr: AtomicUsize,
    tid: AtomicUsize,
    /// "stack slots" holding the references to the fake objects (updated by the collector)
    slots: Box<[AtomicUsize]>,
    native: Mutex<Native>,
    /// between transition_to_locked_contended() == true and the enqueue inside Mutex#wait
    after_transition: AtomicBool,
    exited: AtomicBool,
    gone: AtomicBool,
    cv_blocking: AtomicUsize,
    joining: AtomicUsize,
}

struct Model {
    /// per object: threads queued, in enqueue order
    queues: Vec<VecDeque<usize>>,
    /// last observed blocking flag per thread
    flags: Vec<bool>,
}

struct World {
    script: Script,
    sim: Arc<Sim>,
    rt: AtomicUsize,
    thr: Vec<Thr>,
    /// current address of every fake object (mutexes first, then conditions)
    objects: Vec<AtomicUsize>,
    arena: Mutex<Vec<Box<[u64; 3]>>>,
    in_cs: Vec<AtomicBool>,
    flags: Vec<AtomicBool>,
    model: Mutex<Model>,
    gc_active: AtomicBool,
    gc_mask: AtomicU8,
    table_mutex: usize,
    classes: Mutex<BTreeSet<&'static str>>,
    nontrivial: AtomicBool,
}

thread_local! {
    static MY_INDEX: Cell<usize> = const { Cell::new(usize::MAX) };
}

fn me() -> usize {
    MY_INDEX.with(|m| m.get())
}

impl World {
    fn rt(&self) -> &'static Runtime {
        unsafe { &*(self.rt.load(SeqCst) as *const Runtime) }
    }
    fn class(&self, c: &'static str) {
        self.classes.lock().unwrap().insert(c);
    }
    fn alloc_cell(&self, state: i32, owner: i64) -> usize {
        let mut cell: Box<[u64; 3]> = Box::new([0xDEAD_BEEF_0000_0001, 0, 0]);
        cell[1] = state as u32 as u64;
        cell[2] = owner as u64;
        let addr = cell.as_ptr() as usize;
        self.arena.lock().unwrap().push(cell);
        addr
    }
    fn obj_name(&self, o: usize) -> String {
        if o < self.script.nmutex { format!("mutex{o}") } else { format!("cond{}", o - self.script.nmutex) }
    }
    fn index_of_tid(&self, tid: Tid) -> Option<usize> {
        self.thr.iter().position(|t| t.tid.load(SeqCst) == tid)
    }
    fn index_of_ptr(&self, p: usize) -> Option<usize> {
        self.thr.iter().position(|t| t.ptr.load(SeqCst) == p)
    }
    fn dora(&self, i: usize) -> Option<&'static DoraThread> {
        let p = self.thr[i].ptr.load(SeqCst);
        if p == 0 { None } else { Some(unsafe { &*(p as *const DoraThread) }) }
    }

    // -- access to the fake objects through the calling thread's slots -------

    fn slot_addr(&self, o: usize) -> Address {
        Address::from_ptr(self.thr[me()].slots[o].as_ptr() as *const usize)
    }
    fn mutex_handle(&self, m: usize) -> Handle<ManagedMutex> {
        Handle::from_address(self.slot_addr(m))
    }
    fn cond_handle(&self, c: usize) -> Handle<ManagedCondition> {
        Handle::from_address(self.slot_addr(self.script.nmutex + c))
    }
    fn mutex_obj(&self, m: usize) -> &ManagedMutex {
        unsafe { &*(self.thr[me()].slots[m].load(SeqCst) as *const ManagedMutex) }
    }
    fn cond_obj(&self, c: usize) -> &ManagedCondition {
        unsafe { &*(self.thr[me()].slots[self.script.nmutex + c].load(SeqCst) as *const ManagedCondition) }
    }
    fn owner_ptr(&self, m: usize) -> *mut i64 {
        (self.thr[me()].slots[m].load(SeqCst) + 16) as *mut i64
    }

    fn client_assert(&self, cond: bool, what: &str) {
        if !cond {
            self.sim.fail(format!("client-assert:{what}"), format!("assertion of the Mutex/Condition client code (pkgs/std/thread.dora transliteration) failed in T{}: {what}", me()));
            // the failing thread stops here
            self.sim.yield_now();
        }
    }

    fn set_native(&self, n: Native) {
        *self.thr[me()].native.lock().unwrap() = n;
    }

    fn poll(&self) {
        let d = self.dora(me()).unwrap();
        if d.tld.state.load(std::sync::atomic::Ordering::Relaxed) != ThreadState::Running as u8 {
            rtv::safepoint_slow();
        }
    }

    // -- pkgs/std/thread.dora: Mutex ------------------------------------------

    fn cas(&self, m: usize, expected: i32, value: i32) -> i32 {
        use std::sync::atomic::Ordering::SeqCst as S;
        match self.mutex_obj(m).verif_state().compare_exchange(expected, value, S, S) {
            Ok(v) | Err(v) => v,
        }
    }

    fn lock_op(&self, m: usize) {
        self.poll();
        let previous = self.cas(m, UNLOCKED, LOCKED);
        if previous != UNLOCKED {
            self.client_assert(previous == LOCKED || previous == LOCKED_CONTENDED, "lock_op: previous == LOCKED || previous == LOCKED_CONTENDED");
            self.class("contended-lock");
            self.lock_slow(m);
        }
        let owner = unsafe { *self.owner_ptr(m) };
        self.client_assert(owner == 0, "lock_op: owner_thread_id == 0");
        unsafe { *self.owner_ptr(m) = self.dora(me()).unwrap().id() as i64 };
        if self.in_cs[m].swap(true, SeqCst) {
            self.sim.fail("critical-sections-overlap", format!("T{} entered the critical section of mutex{m} while another thread is inside", me()));
            self.sim.yield_now();
        }
    }

    fn lock_slow(&self, m: usize) {
        self.poll();
        let mut locked = false;
        while !locked {
            if self.transition_to_locked_contended(m) {
                self.thr[me()].after_transition.store(true, SeqCst);
                // native Mutex#wait(LOCKED_CONTENDED)
                self.set_native(Native::MutexWait(m));
                self.rt().wait_lists.block(self.mutex_handle(m), LOCKED_CONTENDED);
                self.set_native(Native::None);
                self.thr[me()].after_transition.store(false, SeqCst);
            }
            let previous = self.cas(m, UNLOCKED, LOCKED_CONTENDED);
            locked = previous == UNLOCKED;
            self.poll(); // loop back-edge
        }
    }

    fn transition_to_locked_contended(&self, m: usize) -> bool {
        self.cas(m, LOCKED, LOCKED_CONTENDED) != UNLOCKED
    }

    fn unlock_op(&self, m: usize) {
        self.poll();
        self.in_cs[m].store(false, SeqCst);
        let owner = unsafe { *self.owner_ptr(m) };
        self.client_assert(owner == self.dora(me()).unwrap().id() as i64, "unlock_op: owner_thread_id == Thread::current().id()");
        unsafe { *self.owner_ptr(m) = 0 };
        let previous = self.mutex_obj(m).verif_state().swap(UNLOCKED, std::sync::atomic::Ordering::SeqCst);
        if previous != LOCKED {
            // unlock_slow
            self.client_assert(previous == LOCKED_CONTENDED, "unlock_slow: previous == LOCKED_CONTENDED");
            self.set_native(Native::Wakeup(m));
            let h = self.mutex_handle(m);
            self.rt().wait_lists.wakeup(h.direct_ptr());
            self.set_native(Native::None);
        }
    }

    // -- pkgs/std/thread.dora: Condition --------------------------------------

    fn cond_wait(&self, c: usize, m: usize) {
        self.poll();
        let o = self.script.nmutex + c;
        self.set_native(Native::Enqueue(o));
        self.rt().wait_lists.enqueue(self.cond_handle(c));
        self.set_native(Native::None);
        self.unlock_op(m);
        self.set_native(Native::Block);
        rtv::current_thread().block();
        self.set_native(Native::None);
        self.lock_op(m);
    }

    fn notify_one(&self, c: usize) {
        self.poll();
        if self.cond_obj(c).verif_state().load(std::sync::atomic::Ordering::SeqCst) == 0 {
            return;
        }
        let o = self.script.nmutex + c;
        self.set_native(Native::Wakeup(o));
        let h = self.cond_handle(c);
        self.rt().wait_lists.wakeup(h.direct_ptr());
        self.set_native(Native::None);
    }

    fn notify_all(&self, c: usize) {
        self.poll();
        if self.cond_obj(c).verif_state().load(std::sync::atomic::Ordering::SeqCst) == 0 {
            return;
        }
        self.cond_obj(c).verif_state().store(0, std::sync::atomic::Ordering::SeqCst);
        let o = self.script.nmutex + c;
        self.set_native(Native::WakeupAll(o));
        let h = self.cond_handle(c);
        self.rt().wait_lists.wakeup_all(h.direct_ptr());
        self.set_native(Native::None);
        // everything that was queued when wakeup_all ran has been taken off by now
    }

    fn gc(&self, mask: u8) {
        self.gc_mask.store(mask, SeqCst);
        let rt = self.rt();
        rt.gc.force_collect(rt, GcReason::ForceCollect);
    }

    // -- the collector: relocate the fake objects ------------------------------

    fn collect(&self, threads: &[Arc<DoraThread>]) {
        let initiator = me();
        self.gc_active.store(true, SeqCst);
        // C04's invariant, cheaply: everybody else is stopped
        for t in threads {
            let p = Arc::as_ptr(t) as usize;
            if let Some(j) = self.index_of_ptr(p) {
                let st = t.verif_state_peek();
                if j != initiator && !(st == ThreadState::Safepoint || st == ThreadState::ParkedSafepointRequested) {
                    self.sim.fail("stw-invariant:thread-not-stopped", format!("collector running while T{j} is in state {:?}", st));
                }
            }
        }
        let mask = self.gc_mask.load(SeqCst);
        let mut moved: Vec<(usize, usize)> = vec![];
        for o in 0..self.script.nobjects() {
            if mask & (1 << o) == 0 {
                continue;
            }
            let old = self.objects[o].load(SeqCst);
            let (state, owner) = unsafe { (*((old + 8) as *const i32), *((old + 16) as *const i64)) };
            let new = self.alloc_cell(state, owner);
            unsafe {
                *((old + 8) as *mut i32) = POISON;
                *((old + 16) as *mut i64) = -1;
            }
            moved.push((old, new));
            self.objects[o].store(new, SeqCst);
            if !self.model.lock().unwrap().queues[o].is_empty() {
                self.class("gc-moved-object-with-queued-threads");
            }
        }
        // roots: the threads' slots ...
        for t in self.thr.iter() {
            for s in t.slots.iter() {
                let v = s.load(SeqCst);
                if let Some((_, new)) = moved.iter().find(|(old, _)| *old == v) {
                    s.store(*new, SeqCst);
                }
            }
        }
        // ... and the wait table (real code)
        self.rt().wait_lists.visit_roots(|slot| {
            let v = slot.get().to_usize();
            if let Some((_, new)) = moved.iter().find(|(old, _)| *old == v) {
                slot.relocate(Address::from(*new));
            }
        });
        self.gc_active.store(false, SeqCst);
    }

    // -- monitor: model of the wait queues, FIFO, table integrity --------------

    fn monitor(&self, tid: Tid) {
        for t in self.thr.iter() {
            let j = t.joining.load(SeqCst);
            let tt = t.tid.load(SeqCst);
            if j != usize::MAX && tt != usize::MAX {
                if let Some(cv) = self.sim.waiting_on_cv(tt) {
                    self.sim.name_object_if_unnamed(cv, format!("T{j}.cv_stopped"));
                }
            }
        }
        let Some(w) = self.index_of_tid(tid) else { return };
        let native = *self.thr[w].native.lock().unwrap();
        let mut model = self.model.lock().unwrap();
        // 1. flag transitions since the last scheduling point were made by thread w
        for x in 0..self.thr.len() {
            let Some(d) = self.dora(x) else { continue };
            let (flag, _next) = d.verif_blocking_peek();
            let was = model.flags[x];
            if flag == was {
                continue;
            }
            model.flags[x] = flag;
            if flag {
                // enqueued: only a thread itself enqueues itself
                let target = match native {
                    Native::MutexWait(o) | Native::Enqueue(o) if x == w => Some(o),
                    _ => None,
                };
                match target {
                    Some(o) => model.queues[o].push_back(x),
                    None => {
                        drop(model);
                        self.sim.fail("waitlist:unexpected-enqueue", format!("blocking flag of T{x} was set during a step of T{w} (native {:?})", native));
                        return;
                    }
                }
            } else {
                // woken
                match native {
                    Native::Wakeup(o) => {
                        if model.queues[o].len() >= 2 {
                            self.class("wakeup-with-several-waiters");
                        }
                        let head = model.queues[o].front().copied();
                        if head != Some(x) {
                            let q: Vec<usize> = model.queues[o].iter().copied().collect();
                            let holder = (0..model.queues.len()).find(|oo| model.queues[*oo].contains(&x));
                            let key = if q.contains(&x) { "waitlist:not-fifo" } else { "waitlist:wrong-thread-woken" };
                            drop(model);
                            self.sim.fail(
                                key,
                                format!("T{w} woke T{x} with a single wake-up on {}, whose queue (in enqueue order) is {:?}; T{x} is queued on {:?}", self.obj_name(o), q, holder.map(|h| self.obj_name(h))),
                            );
                            return;
                        }
                        model.queues[o].pop_front();
                    }
                    Native::WakeupAll(o) => {
                        if let Some(pos) = model.queues[o].iter().position(|y| *y == x) {
                            model.queues[o].remove(pos);
                        } else {
                            drop(model);
                            self.sim.fail("waitlist:wrong-thread-woken", format!("T{w} woke T{x} with wakeup_all on {}, but T{x} is not queued there", self.obj_name(o)));
                            return;
                        }
                    }
                    _ => {
                        drop(model);
                        self.sim.fail("waitlist:unexpected-wakeup", format!("blocking flag of T{x} was cleared during a step of T{w}, which is not inside a wake-up (native {:?})", native));
                        return;
                    }
                }
                if self.sim.waiting_on_cv(self.thr[x].tid.load(SeqCst)) != Some(self.thr[x].cv_blocking.load(SeqCst)) {
                    self.class("woken-before-block");
                }
            }
        }
        // 2. non-triviality: thread w takes a step while another thread sits in a race window
        for x in 0..self.thr.len() {
            if x == w || self.thr[x].gone.load(SeqCst) {
                continue;
            }
            let nx = *self.thr[x].native.lock().unwrap();
            let xt = self.thr[x].tid.load(SeqCst);
            if xt == usize::MAX {
                continue;
            }
            let queued = model.flags[x];
            let waiting = self.sim.waiting_on_cv(xt) == Some(self.thr[x].cv_blocking.load(SeqCst));
            if matches!(nx, Native::MutexWait(_)) && queued && !waiting {
                self.nontrivial.store(true, SeqCst);
                self.class("step-between-conditional-enqueue-and-block");
            }
            if matches!(nx, Native::Enqueue(_) | Native::None | Native::Wakeup(_) | Native::Block) && queued && !waiting && !matches!(nx, Native::MutexWait(_)) {
                // Condition.wait: enqueued, mutex not yet released / block() not yet reached
                self.class("step-between-condition-enqueue-and-block");
            }
            if self.thr[x].after_transition.load(SeqCst) && !queued {
                self.nontrivial.store(true, SeqCst);
                self.class("step-between-transition-to-contended-and-wait");
            }
        }
        // 3. table integrity against the model, whenever the table is quiescent
        if self.gc_active.load(SeqCst) || !self.sim.mutex_is_free(self.table_mutex) {
            return;
        }
        let snap = self.rt().wait_lists.verif_snapshot();
        let mut problems: Vec<String> = vec![];
        if snap.tombstones > 0 {
            self.class("table-has-tombstone");
        }
        if snap.entries != snap.live.len() {
            problems.push(format!("entries counter {} != live slots {}", snap.entries, snap.live.len()));
        }
        if snap.capacity > 0 && snap.live.len() + snap.tombstones >= snap.capacity {
            problems.push(format!("no EMPTY slot left: {} live + {} tombstones in capacity {}", snap.live.len(), snap.tombstones, snap.capacity));
        }
        let mut seen = vec![false; model.queues.len()];
        for (key, head, tail) in snap.live.iter() {
            let Some(o) = (0..self.objects.len()).find(|o| self.objects[*o].load(SeqCst) == *key) else {
                problems.push(format!("live key {key:#x} is not the current address of any object (stale after relocation?)"));
                continue;
            };
            if seen[o] {
                problems.push(format!("{} has two live entries", self.obj_name(o)));
            }
            seen[o] = true;
            let q = &model.queues[o];
            if q.is_empty() {
                problems.push(format!("{} has a live entry but nobody is queued on it", self.obj_name(o)));
                continue;
            }
            // walk the chain
            let mut chain = vec![];
            let mut p = *head;
            let mut guard = 0;
            while p != 0 && guard < 16 {
                guard += 1;
                match self.index_of_ptr(p) {
                    Some(x) => {
                        chain.push(x);
                        let (flag, next) = self.dora(x).unwrap().verif_blocking_peek();
                        if !flag {
                            problems.push(format!("T{x} is linked in the list of {} but its blocking flag is clear", self.obj_name(o)));
                        }
                        p = next.verif_address();
                    }
                    None => {
                        problems.push(format!("list of {} links to an unknown thread {p:#x}", self.obj_name(o)));
                        break;
                    }
                }
            }
            let want: Vec<usize> = q.iter().copied().collect();
            if chain != want {
                problems.push(format!("list of {} is {:?}, enqueue order is {:?}", self.obj_name(o), chain, want));
            }
            if self.index_of_ptr(*tail) != want.last().copied() {
                problems.push(format!("tail of {} is {:?}, expected T{:?}", self.obj_name(o), self.index_of_ptr(*tail), want.last()));
            }
        }
        for (o, q) in model.queues.iter().enumerate() {
            if !q.is_empty() && !seen[o] {
                problems.push(format!("{:?} are queued on {} but the table has no live entry for its current address {:#x}", q, self.obj_name(o), self.objects[o].load(SeqCst)));
            }
        }
        if !problems.is_empty() {
            drop(model);
            self.sim.fail("waitlist:table-integrity", format!("wait table inconsistent with the queue model (capacity {}, entries {}, tombstones {}):\n  {}", snap.capacity, snap.entries, snap.tombstones, problems.join("\n  ")));
        }
    }

    // -- script interpreter ----------------------------------------------------

    fn exec_in(&self, m: usize, i: &In) {
        match i {
            In::Cs => {
                self.sim.yield_now();
            }
            In::WaitFlag(c) => {
                while !self.flags[*c].load(SeqCst) {
                    self.cond_wait(*c, m);
                    self.poll();
                }
            }
            In::SetFlag { c, all } => {
                self.flags[*c].store(true, SeqCst);
                if *all {
                    self.notify_all(*c);
                } else {
                    for _ in 0..self.script.waits_on(*c).max(1) {
                        self.notify_one(*c);
                    }
                }
            }
            In::NotifyOne(c) => self.notify_one(*c),
            In::NotifyAll(c) => self.notify_all(*c),
            In::Gc(mask) => self.gc(*mask),
            In::Lock2(m2) => {
                self.lock_op(*m2);
                self.sim.yield_now();
                self.unlock_op(*m2);
            }
        }
    }

    fn exec_ops(&self, t: usize) {
        for op in self.script.threads[t].clone() {
            match &op {
                Op::Lock { m, body } => {
                    self.lock_op(*m);
                    for i in body {
                        self.exec_in(*m, i);
                    }
                    self.unlock_op(*m);
                }
                Op::NotifyOne(c) => self.notify_one(*c),
                Op::NotifyAll(c) => self.notify_all(*c),
                Op::Gc(mask) => self.gc(*mask),
                Op::Poll => self.poll(),
                Op::Join(j) => {
                    let target = self.thr[*j].dora.lock().unwrap().clone().expect("join target exists");
                    self.thr[t].joining.store(*j, SeqCst);
                    target.join();
                    self.thr[t].joining.store(usize::MAX, SeqCst);
                    if !self.thr[*j].exited.load(SeqCst) {
                        self.sim.fail("join-returned-early", format!("T{t}: join(T{j}) returned before T{j} had finished"));
                    }
                }
            }
        }
    }
}

struct HarnessCollector {
    world: std::sync::Weak<World>,
}

impl Collector for HarnessCollector {
    fn alloc_tlab_area(&self, _rt: &Runtime, _size: usize) -> Option<Region> {
        None
    }
    fn alloc_object(&self, _rt: &Runtime, _size: usize) -> Option<Address> {
        None
    }
    fn alloc_readonly(&self, _rt: &Runtime, _size: usize) -> Address {
        Address::null()
    }
    fn collect_garbage(&self, _rt: &Runtime, threads: &[Arc<DoraThread>], _reason: GcReason, _size: usize) {
        self.world.upgrade().expect("world alive").collect(threads);
    }
    fn dump_summary(&self, _runtime: f32) {}
}

fn register_thread(w: &Arc<World>, j: usize, thread: &Arc<DoraThread>) {
    w.thr[j].ptr.store(Arc::as_ptr(thread) as usize, SeqCst);
    *w.thr[j].dora.lock().unwrap() = Some(thread.clone());
    let (bm, bcv) = thread.verif_blocking_objects();
    w.thr[j].cv_blocking.store(bcv, SeqCst);
    w.sim.name_object(bm, format!("T{j}.blocking"));
    w.sim.name_object(bcv, format!("T{j}.cv_blocking"));
    for (o, s) in w.thr[j].slots.iter().enumerate() {
        s.store(w.objects[o].load(SeqCst), SeqCst);
    }
}

pub fn run_case(script: &Script, schedule: Schedule) -> RunResult {
    let sim = Sim::new(schedule, 60_000);
    let n = script.threads.len();
    let nobj = script.nobjects();
    let world = Arc::new_cyclic(|weak: &std::sync::Weak<World>| {
        let rt = Runtime::verif_minimal(Box::new(HarnessCollector { world: weak.clone() }));
        let table_mutex = rt.wait_lists.verif_mutex_object();
        World {
            script: script.clone(),
            sim: sim.clone(),
            rt: AtomicUsize::new(Box::into_raw(rt) as usize),
            thr: (0..n)
                .map(|_| Thr {
                    dora: Mutex::new(None),
                    ptr: AtomicUsize::new(0),
                    tid: AtomicUsize::new(usize::MAX),
                    slots: (0..nobj).map(|_| AtomicUsize::new(0)).collect::<Vec<_>>().into_boxed_slice(),
                    native: Mutex::new(Native::None),
                    after_transition: AtomicBool::new(false),
                    exited: AtomicBool::new(false),
                    gone: AtomicBool::new(false),
                    cv_blocking: AtomicUsize::new(0),
                    joining: AtomicUsize::new(usize::MAX),
                })
                .collect(),
            objects: (0..nobj).map(|_| AtomicUsize::new(0)).collect(),
            arena: Mutex::new(vec![]),
            in_cs: (0..script.nmutex).map(|_| AtomicBool::new(false)).collect(),
            flags: (0..script.conds.len()).map(|_| AtomicBool::new(false)).collect(),
            model: Mutex::new(Model { queues: vec![VecDeque::new(); nobj], flags: vec![false; n] }),
            gc_active: AtomicBool::new(false),
            gc_mask: AtomicU8::new(0),
            table_mutex,
            classes: Mutex::new(BTreeSet::new()),
            nontrivial: AtomicBool::new(false),
        }
    });
    for o in 0..nobj {
        let a = world.alloc_cell(0, 0);
        world.objects[o].store(a, SeqCst);
    }
    let rt = world.rt();
    rtv::set_runtime(rt);
    sim.name_object(world.table_mutex, "wait_lists.data");
    {
        let (m, cw, cn) = rt.threads.barrier.verif_objects();
        sim.name_object(m, "barrier.data");
        sim.name_object(cw, "barrier.cv_wakeup");
        sim.name_object(cn, "barrier.cv_notify");
        sim.name_object(rt.threads.threads.verif_object(), "threads.threads");
    }
    let wm = world.clone();
    sim.set_monitor(Arc::new(move |_s: &Sim, tid: Tid| wm.monitor(tid)));

    let w0 = world.clone();
    let tid0 = sim.spawn("T0", move || {
        MY_INDEX.with(|m| m.set(0));
        let rt = w0.rt();
        let thread = DoraThread::with_id(rt.threads.next_thread_id(), ThreadState::Running, Address::null());
        register_thread(&w0, 0, &thread);
        rtv::init_current_thread(thread.clone());
        rt.threads.add_main_thread(thread.clone());
        // start all other threads first (stdlib::spawn_thread / thread_main)
        let mut children = vec![];
        for j in 1..w0.script.threads.len() {
            // (thread objects exist before anybody can name them in a join)
            let child = DoraThread::with_id(rt.threads.next_thread_id(), ThreadState::Parked, Address::null());
            register_thread(&w0, j, &child);
            children.push(child);
        }
        for j in 1..w0.script.threads.len() {
            let child = children[j - 1].clone();
            rt.threads.add_thread(child.clone());
            let w2 = w0.clone();
            let tid = w0.sim.spawn(format!("T{j}"), move || {
                MY_INDEX.with(|m| m.set(j));
                let me_ref = rtv::init_current_thread(child.clone());
                let rt = w2.rt();
                me_ref.unpark(rt);
                w2.exec_ops(j);
                rt.threads.remove_current_thread();
                w2.thr[j].exited.store(true, SeqCst);
                me_ref.stop();
                w2.thr[j].gone.store(true, SeqCst);
                rtv::deinit_current_thread();
            });
            w0.thr[j].tid.store(tid, SeqCst);
        }
        w0.exec_ops(0);
        rt.threads.remove_current_thread();
        w0.thr[0].exited.store(true, SeqCst);
        thread.stop();
        w0.thr[0].gone.store(true, SeqCst);
        rtv::deinit_current_thread();
    });
    world.thr[0].tid.store(tid0, SeqCst);

    let report = sim.run(Duration::from_secs(20));
    let mut end = report.end.clone();
    if matches!(end, SimEnd::Ok) {
        let mut problems = vec![];
        let snap = rt.wait_lists.verif_snapshot();
        if !snap.live.is_empty() || snap.entries != 0 {
            problems.push(format!("wait table still has {} live entries (entries counter {})", snap.live.len(), snap.entries));
        }
        for (o, q) in world.model.lock().unwrap().queues.iter().enumerate() {
            if !q.is_empty() {
                problems.push(format!("{:?} still queued on {}", q, world.obj_name(o)));
            }
        }
        for m in 0..script.nmutex {
            let a = world.objects[m].load(SeqCst);
            let st = unsafe { *((a + 8) as *const i32) };
            if st != UNLOCKED {
                problems.push(format!("mutex{m} ends with lock word {st}"));
            }
        }
        if !rt.threads.verif_threads_peek().is_empty() {
            problems.push("thread list not empty".into());
        }
        if !problems.is_empty() {
            end = SimEnd::Fail { key: "final-state".into(), msg: problems.join("\n  ") };
        }
    }
    let classes: Vec<String> = world.classes.lock().unwrap().iter().map(|s| s.to_string()).collect();
    let nontrivial = world.nontrivial.load(SeqCst);
    if matches!(end, SimEnd::Ok) {
        rtv::clear_runtime();
        sim.set_monitor(Arc::new(|_: &Sim, _: Tid| {}));
        let rt_ptr = world.rt.swap(0, SeqCst);
        for t in world.thr.iter() {
            *t.dora.lock().unwrap() = None;
        }
        drop(world);
        unsafe { drop(Box::from_raw(rt_ptr as *mut Runtime)) };
    } else {
        std::mem::forget(world);
    }
    RunResult { end, points: report.points, steps: report.steps, switches: report.switches, preemptions: report.preemptions, classes, nontrivial, trace: report.trace_tail }
}

pub const RULE: &str = "sub-check waitlists: a case = (1-2 fake mutex objects, 0-2 fake condition objects, 2-4 threads with <=5 ops each over {lock{cs, wait-for-flag, set-flag+notify_one*k / notify_all, extra notify_one/notify_all, gc(mask), nested lock}, notify_one, notify_all, gc(mask), poll, join}) x one schedule; scripts are deadlock-free by construction, so a deadlock is a lost wake-up; gc(mask) relocates the selected objects inside a real stop-the-world through WaitLists::visit_roots and bumps the GC epoch (rehash path). non-trivial = a schedule in which another thread took a step while a thread was between conditionally_enqueue's check and thread.block() (Mutex#wait), or between transition_to_locked_contended() and the wait; distinct by hash of (script, executed decision sequence). Classes: contended-lock, step-between-condition-enqueue-and-block, woken-before-block, wakeup-with-several-waiters, gc-moved-object-with-queued-threads, table-has-tombstone";

pub fn main(mode: Mode) -> i32 {
    let check = C09;
    let rc = match mode {
        Mode::Worker(_) => return worker_main(&check),
        Mode::Replay(_, doc) => {
            let pool = Pool::new("C09", 60);
            let mut ctx = Ctx::new("C09", "quick");
            let p = SchedProp { check: &check, pool: &pool, name: doc["sub"].as_str().unwrap_or("waitlists").to_string() };
            return ctx.replay(&p, &doc);
        }
        Mode::Minimize(_, doc) => {
            let pool = Pool::new("C09", 60);
            let mut ctx = Ctx::new("C09", "quick");
            let p = SchedProp { check: &check, pool: &pool, name: "waitlists".into() };
            return ctx.minimize_stored(&p, &doc, 400);
        }
        Mode::Run(tier) => {
            let mut ctx = Ctx::new("C09", &tier);
            let pool = Pool::new("C09", 60);
            ctx.rule = RULE.into();
            ctx.assumptions = vec![
                "sequentially consistent interleavings only".into(),
                "the Dora-level Mutex/Condition lock-word protocol and the compiled safepoint poll are Rust transliterations (trusted)".into(),
                "object relocation is performed by a harness collector inside the real stop-the-world; the fake objects live in harness memory".into(),
                "this file is the evidence of the sub-check 'waitlists' (part b of C09); part (a) runs real multi-threaded executables elsewhere".into(),
            ];
            let p = SchedProp { check: &check, pool: &pool, name: "waitlists".into() };
            ctx.run_regressions(&p);
            let scripts = small_scripts(ctx.thorough());
            let bound = if ctx.thorough() { 3 } else { 2 };
            let cap = ctx.n(200_000, 3_000_000) as u64;
            run_exhaustive(&mut ctx, &check, &pool, "waitlists-exhaustive", &scripts, bound, cap);
            let n = ctx.n(60_000, 1_000_000);
            ctx.run_search(&p, n, 700, 300);
            for c in [
                "step-between-conditional-enqueue-and-block",
                "step-between-transition-to-contended-and-wait",
                "contended-lock",
                "woken-before-block",
                "wakeup-with-several-waiters",
                "gc-moved-object-with-queued-threads",
                "table-has-tombstone",
            ] {
                let total = ctx.classes.get(&format!("waitlists/{c}")).copied().unwrap_or(0) + ctx.classes.get(&format!("waitlists-exhaustive/{c}")).copied().unwrap_or(0);
                ctx.classes.insert(format!("all/{c}"), total);
                if ctx.violations.is_empty() {
                    ctx.require_class(&format!("all/{c}"));
                }
            }
            // evidence goes to evidence/parts/C09.json (the main C09 check merges it)
            Ctx::write_as_part();
            let rc = ctx.finish();
            rc
        }
    };
    rc
}
