//! detsched — deterministic scheduler for the sync shim of dora-runtime
//! (`dora_runtime::verif`). Harness threads are real OS threads of which
//! exactly one runs at a time (baton passing). Every shim operation is a
//! decision point that consumes one choice (continue / switch); mutex and
//! condition-variable blocking is modelled here with parking_lot semantics
//! (no spurious wake-ups, barging allowed on unlock, `notify_one` picks a
//! waiter by choice). Deadlock = nobody runnable while someone is unfinished;
//! exceeding the step bound = inconclusive.
//!
//! A failing case never unwinds: the panic hook (and every other failure
//! path) records the failure and parks the thread for good; the worker
//! process reports and retires. This keeps panics inside `extern "C"`
//! runtime functions from aborting the process before they are reported.

use dora_runtime::verif::{self, Op};
use std::cell::RefCell;
use std::collections::{HashMap, VecDeque};
use std::sync::{Arc, Condvar, Mutex, MutexGuard};
use std::time::{Duration, Instant};

pub type Tid = usize;

// ---------------------------------------------------------------------------
// Schedules and deciders

/// Kind of a decision point.
#[derive(Copy, Clone, Debug, PartialEq, Eq)]
pub enum PointKind {
    /// current thread could continue; alternatives = switch to one of the n other runnable threads
    Preempt,
    /// current thread blocked or finished; pick one of n runnable threads
    Forced,
    /// `notify_one` with n >= 2 waiters: pick the waiter
    Pick,
}

#[derive(Copy, Clone, Debug)]
pub struct PointInfo {
    pub kind: PointKind,
    /// Preempt: number of other runnable threads (decision in 0..=n, 0 = continue);
    /// Forced / Pick: number of options (decision in 0..n)
    pub n: u8,
    pub chosen: u8,
}

impl PointInfo {
    /// number of non-default alternatives
    pub fn alternatives(&self) -> u8 {
        match self.kind {
            PointKind::Preempt => self.n,
            _ => self.n.saturating_sub(1),
        }
    }
}

#[derive(Clone, Debug, PartialEq)]
pub enum Schedule {
    /// one raw u32 per decision point (proptest choice sequence); exhausted => 0.
    /// `density_shift`: a Preempt point switches iff raw >= 2^32 - 2^(32-shift).
    Raw { data: Vec<u32>, density_shift: u8 },
    /// explicit decision per decision point; exhausted => 0 (continue / first option)
    Explicit(Vec<u8>),
}

impl Schedule {
    pub fn to_json(&self) -> serde_json::Value {
        match self {
            Schedule::Raw { data, density_shift } => serde_json::json!({"raw": data, "density_shift": density_shift}),
            Schedule::Explicit(v) => {
                let nz: Vec<[usize; 2]> = v.iter().enumerate().filter(|(_, x)| **x != 0).map(|(i, x)| [i, *x as usize]).collect();
                serde_json::json!({"explicit_nonzero": nz, "len": v.len()})
            }
        }
    }
    pub fn from_json(v: &serde_json::Value) -> Option<Schedule> {
        if let Some(raw) = v.get("raw").and_then(|r| r.as_array()) {
            return Some(Schedule::Raw {
                data: raw.iter().map(|x| x.as_u64().unwrap_or(0) as u32).collect(),
                density_shift: v["density_shift"].as_u64().unwrap_or(3) as u8,
            });
        }
        let nz = v.get("explicit_nonzero")?.as_array()?;
        let len = v["len"].as_u64().unwrap_or(0) as usize;
        let mut out = vec![0u8; len];
        for e in nz {
            let i = e[0].as_u64()? as usize;
            let x = e[1].as_u64()? as u8;
            if i >= out.len() {
                out.resize(i + 1, 0);
            }
            out[i] = x;
        }
        Some(Schedule::Explicit(out))
    }
}

struct Decider {
    schedule: Schedule,
    pos: usize,
}

impl Decider {
    fn next(&mut self, kind: PointKind, n: usize) -> usize {
        let i = self.pos;
        self.pos += 1;
        match &self.schedule {
            Schedule::Raw { data, density_shift } => {
                let r = data.get(i).copied().unwrap_or(0) as u64;
                match kind {
                    PointKind::Preempt => {
                        if n == 0 {
                            return 0;
                        }
                        let width = 1u64 << (32 - (*density_shift).clamp(1, 16) as u64);
                        let lo = (1u64 << 32) - width;
                        if r < lo {
                            0
                        } else {
                            1 + (((r - lo) * n as u64) / width) as usize
                        }
                    }
                    _ => ((r * n.max(1) as u64) >> 32) as usize,
                }
            }
            Schedule::Explicit(v) => {
                let d = v.get(i).copied().unwrap_or(0) as usize;
                match kind {
                    PointKind::Preempt => {
                        if n == 0 {
                            0
                        } else {
                            d % (n + 1)
                        }
                    }
                    _ => d % n.max(1),
                }
            }
        }
    }
}

// ---------------------------------------------------------------------------
// Simulation state

#[derive(Clone, Debug, PartialEq)]
enum Status {
    Runnable,
    BlockedMutex(usize),
    WaitingCv { cv: usize, mutex: usize },
    Finished,
}

struct ThreadRec {
    name: String,
    status: Status,
    os: Option<std::thread::Thread>,
}

#[derive(Copy, Clone, Debug, PartialEq, Eq)]
pub enum TraceOp {
    Shim(Op),
    Yield,
    Block,
    Finish,
    Start,
}

#[derive(Clone, Debug)]
pub enum SimEnd {
    Ok,
    Fail { key: String, msg: String },
    Inconclusive(String),
}

struct SimState {
    threads: Vec<ThreadRec>,
    current: Option<Tid>,
    mutex_owner: HashMap<usize, Tid>,
    cv_waiters: HashMap<usize, Vec<Tid>>,
    decider: Decider,
    points: Vec<PointInfo>,
    steps: u64,
    switches: u64,
    preemptions: u64,
    trace: VecDeque<(Tid, TraceOp, usize)>,
    names: HashMap<usize, String>,
    end: Option<SimEnd>,
}

pub struct Sim {
    st: Mutex<SimState>,
    ctrl: Condvar,
    step_bound: u64,
    monitor: Mutex<Option<Arc<dyn Fn(&Sim, Tid) + Send + Sync>>>,
}

pub struct SimReport {
    pub end: SimEnd,
    pub points: Vec<PointInfo>,
    pub steps: u64,
    pub switches: u64,
    pub preemptions: u64,
    pub trace_tail: String,
}


// ---------------------------------------------------------------------------
// OS-thread pool: thread creation is expensive on this host (clone3 ~0.7 ms),
// so managed threads are recycled across cases. A thread of a failed case is
// parked for good and never returns to the pool (the worker process retires).

type Job = Box<dyn FnOnce() + Send + 'static>;

static IDLE_THREADS: Mutex<Vec<std::sync::mpsc::Sender<Job>>> = Mutex::new(Vec::new());

fn run_on_pool(job: Job) {
    let tx = IDLE_THREADS.lock().unwrap_or_else(|e| e.into_inner()).pop();
    let tx = match tx {
        Some(tx) => tx,
        None => {
            let (tx, rx) = std::sync::mpsc::channel::<Job>();
            let tx2 = tx.clone();
            std::thread::Builder::new()
                .name("sim-pool".into())
                .stack_size(256 * 1024)
                .spawn(move || {
                    while let Ok(job) = rx.recv() {
                        job();
                        IDLE_THREADS.lock().unwrap_or_else(|e| e.into_inner()).push(tx2.clone());
                    }
                })
                .expect("spawn pool thread");
            tx
        }
    };
    tx.send(job).expect("pool thread alive");
}

thread_local! {
    static CURRENT: RefCell<Option<(Arc<Sim>, Tid)>> = const { RefCell::new(None) };
}

const TRACE_CAP: usize = 80;

fn park_forever() -> ! {
    loop {
        std::thread::park();
    }
}

impl Sim {
    pub fn new(schedule: Schedule, step_bound: u64) -> Arc<Sim> {
        Arc::new(Sim {
            st: Mutex::new(SimState {
                threads: vec![],
                current: None,
                mutex_owner: HashMap::new(),
                cv_waiters: HashMap::new(),
                decider: Decider { schedule, pos: 0 },
                points: vec![],
                steps: 0,
                switches: 0,
                preemptions: 0,
                trace: VecDeque::new(),
                names: HashMap::new(),
                end: None,
            }),
            ctrl: Condvar::new(),
            step_bound,
            monitor: Mutex::new(None),
        })
    }

    /// Called at every scheduling point (before the decision), on the thread that arrived there.
    pub fn set_monitor(&self, f: Arc<dyn Fn(&Sim, Tid) + Send + Sync>) {
        *self.monitor.lock().unwrap() = Some(f);
    }

    pub fn name_object(&self, addr: usize, name: impl Into<String>) {
        self.st.lock().unwrap().names.insert(addr, name.into());
    }

    pub fn name_object_if_unnamed(&self, addr: usize, name: String) {
        self.lock().names.entry(addr).or_insert(name);
    }

    fn lock(&self) -> MutexGuard<'_, SimState> {
        self.st.lock().unwrap_or_else(|e| e.into_inner())
    }

    pub fn current() -> Option<(Arc<Sim>, Tid)> {
        CURRENT.with(|c| c.borrow().clone())
    }

    pub fn current_tid() -> Tid {
        CURRENT.with(|c| c.borrow().as_ref().map(|x| x.1)).expect("not a managed thread")
    }

    /// Is the modelled mutex free right now? (for oracles that peek at protected data)
    pub fn mutex_is_free(&self, mutex: usize) -> bool {
        !self.lock().mutex_owner.contains_key(&mutex)
    }

    pub fn mutex_owner(&self, mutex: usize) -> Option<Tid> {
        self.lock().mutex_owner.get(&mutex).copied()
    }

    /// Which condition variable (if any) is thread `t` waiting on?
    pub fn waiting_on_cv(&self, t: Tid) -> Option<usize> {
        match self.lock().threads.get(t).map(|r| r.status.clone()) {
            Some(Status::WaitingCv { cv, .. }) => Some(cv),
            _ => None,
        }
    }

    pub fn is_finished(&self, t: Tid) -> bool {
        matches!(self.lock().threads.get(t).map(|r| r.status.clone()), Some(Status::Finished))
    }

    pub fn steps(&self) -> u64 {
        self.lock().steps
    }

    pub fn failed(&self) -> bool {
        self.lock().end.is_some()
    }

    /// Spawn a managed thread. Deterministic: the thread becomes runnable
    /// immediately in the model; its OS thread waits for the baton.
    pub fn spawn(self: &Arc<Sim>, name: impl Into<String>, f: impl FnOnce() + Send + 'static) -> Tid {
        let tid;
        {
            let mut st = self.lock();
            tid = st.threads.len();
            st.threads.push(ThreadRec { name: name.into(), status: Status::Runnable, os: None });
        }
        let sim = self.clone();
        run_on_pool(Box::new(move || {
            CURRENT.with(|c| *c.borrow_mut() = Some((sim.clone(), tid)));
            {
                let mut st = sim.lock();
                st.threads[tid].os = Some(std::thread::current());
                let mut st = sim.wait_turn(st, tid);
                Self::push_trace(&mut st, tid, TraceOp::Start, 0);
            }
            f();
            CURRENT.with(|c| *c.borrow_mut() = None);
            sim.finish(tid);
        }));
        tid
    }

    /// Controller: hand the baton to thread 0 and wait for the end of the case.
    pub fn run(self: &Arc<Sim>, wall_limit: Duration) -> SimReport {
        let t0 = Instant::now();
        let mut st = self.lock();
        assert!(!st.threads.is_empty());
        st.current = Some(0);
        if let Some(t) = st.threads[0].os.clone() {
            t.unpark();
        }
        while st.end.is_none() {
            let left = wall_limit.checked_sub(t0.elapsed());
            let Some(left) = left else {
                st.end = Some(SimEnd::Inconclusive(format!("wall-clock limit of {:?} for one case exceeded", wall_limit)));
                break;
            };
            st = self.ctrl.wait_timeout(st, left.min(Duration::from_millis(500))).unwrap_or_else(|e| e.into_inner()).0;
        }
        let end = st.end.clone().unwrap();
        let report = SimReport {
            end,
            points: st.points.clone(),
            steps: st.steps,
            switches: st.switches,
            preemptions: st.preemptions,
            trace_tail: Self::render_trace(&st),
        };
        drop(st);
        report
    }

    fn render_trace(st: &SimState) -> String {
        let mut out = String::new();
        for (tid, op, obj) in st.trace.iter() {
            let name = st.names.get(obj).cloned().unwrap_or_else(|| if *obj == 0 { String::new() } else { format!("{:#x}", obj) });
            let tn = st.threads.get(*tid).map(|t| t.name.as_str()).unwrap_or("?");
            out.push_str(&format!("  [{tn}] {:?} {name}\n", op));
        }
        out.push_str("  thread states at the end:\n");
        for t in st.threads.iter() {
            let s = match &t.status {
                Status::Runnable => "runnable".to_string(),
                Status::Finished => "finished".to_string(),
                Status::BlockedMutex(m) => format!("blocked on mutex {}", st.names.get(m).cloned().unwrap_or_else(|| format!("{m:#x}"))),
                Status::WaitingCv { cv, .. } => format!("waiting on condvar {}", st.names.get(cv).cloned().unwrap_or_else(|| format!("{cv:#x}"))),
            };
            out.push_str(&format!("    {}: {}\n", t.name, s));
        }
        out
    }

    fn push_trace(st: &mut SimState, tid: Tid, op: TraceOp, obj: usize) {
        if st.trace.len() >= TRACE_CAP {
            st.trace.pop_front();
        }
        st.trace.push_back((tid, op, obj));
    }

    /// Record a failure (first one wins) and wake the controller.
    pub fn fail(&self, key: impl Into<String>, msg: impl Into<String>) {
        let mut st = self.lock();
        if st.end.is_none() {
            st.end = Some(SimEnd::Fail { key: key.into(), msg: msg.into() });
        }
        self.ctrl.notify_all();
    }

    fn end_with(&self, st: &mut SimState, end: SimEnd) {
        if st.end.is_none() {
            st.end = Some(end);
        }
        self.ctrl.notify_all();
    }

    fn wait_turn<'a>(&'a self, mut st: MutexGuard<'a, SimState>, tid: Tid) -> MutexGuard<'a, SimState> {
        loop {
            if st.end.is_some() && !matches!(st.end, Some(SimEnd::Ok)) {
                drop(st);
                park_forever();
            }
            if st.current == Some(tid) && st.threads[tid].status == Status::Runnable {
                return st;
            }
            drop(st);
            std::thread::park();
            st = self.lock();
        }
    }

    fn runnable(st: &SimState, except: Option<Tid>) -> Vec<Tid> {
        st.threads.iter().enumerate().filter(|(i, t)| t.status == Status::Runnable && Some(*i) != except).map(|(i, _)| i).collect()
    }

    fn call_monitor(&self, tid: Tid) {
        let m = self.monitor.lock().unwrap_or_else(|e| e.into_inner()).clone();
        if let Some(m) = m {
            verif::unhooked(|| m(self, tid));
        }
    }

    fn check_abort<'a>(&'a self, st: MutexGuard<'a, SimState>) -> MutexGuard<'a, SimState> {
        if st.end.is_some() {
            drop(st);
            park_forever();
        }
        st
    }

    /// Ordinary scheduling point of thread `tid` (it stays runnable).
    fn sched_point(&self, tid: Tid, op: TraceOp, obj: usize) {
        self.call_monitor(tid);
        let st = self.lock();
        let mut st = self.check_abort(st);
        st.steps += 1;
        if st.steps > self.step_bound {
            let msg = format!("step bound {} exceeded (livelock suspect)\n{}", self.step_bound, Self::render_trace(&st));
            self.end_with(&mut st, SimEnd::Inconclusive(msg));
            drop(st);
            park_forever();
        }
        Self::push_trace(&mut st, tid, op, obj);
        let others = Self::runnable(&st, Some(tid));
        let d = st.decider.next(PointKind::Preempt, others.len());
        st.points.push(PointInfo { kind: PointKind::Preempt, n: others.len() as u8, chosen: d as u8 });
        if d > 0 {
            let target = others[d - 1];
            st.switches += 1;
            st.preemptions += 1;
            st.current = Some(target);
            let os = st.threads[target].os.clone();
            drop(st);
            if let Some(t) = os {
                t.unpark();
            }
            let st = self.lock();
            let _st = self.wait_turn(st, tid);
        }
    }

    /// Thread `tid` cannot continue (status already set to a blocked state, or Finished):
    /// hand the baton to somebody else; returns (for blocked threads) when it owns the baton again.
    fn switch_away<'a>(&'a self, mut st: MutexGuard<'a, SimState>, tid: Tid) -> Option<MutexGuard<'a, SimState>> {
        let finished = st.threads[tid].status == Status::Finished;
        let cands = Self::runnable(&st, None);
        if cands.is_empty() {
            if st.threads.iter().all(|t| t.status == Status::Finished) {
                self.end_with(&mut st, SimEnd::Ok);
                return None;
            }
            // deadlock
            let mut objs: Vec<String> = vec![];
            for t in st.threads.iter() {
                match &t.status {
                    Status::BlockedMutex(m) => objs.push(format!("mutex:{}", st.names.get(m).cloned().unwrap_or_else(|| "?".into()))),
                    Status::WaitingCv { cv, .. } => objs.push(format!("cv:{}", st.names.get(cv).cloned().unwrap_or_else(|| "?".into()))),
                    _ => {}
                }
            }
            objs.sort();
            objs.dedup();
            let key = format!("deadlock[{}]", objs.join(","));
            let msg = format!("deadlock: no runnable thread while some are unfinished (lost wake-up?)\n{}", Self::render_trace(&st));
            self.end_with(&mut st, SimEnd::Fail { key, msg });
            drop(st);
            if finished {
                return None;
            }
            park_forever();
        }
        let d = if cands.len() > 1 { st.decider.next(PointKind::Forced, cands.len()) } else { 0 };
        if cands.len() > 1 {
            st.points.push(PointInfo { kind: PointKind::Forced, n: cands.len() as u8, chosen: d as u8 });
        }
        let target = cands[d];
        st.switches += 1;
        st.current = Some(target);
        let os = st.threads[target].os.clone();
        drop(st);
        if let Some(t) = os {
            t.unpark();
        }
        if finished {
            return None;
        }
        let st = self.lock();
        Some(self.wait_turn(st, tid))
    }

    fn finish(&self, tid: Tid) {
        self.call_monitor(tid);
        let st = self.lock();
        let mut st = self.check_abort(st);
        Self::push_trace(&mut st, tid, TraceOp::Finish, 0);
        st.threads[tid].status = Status::Finished;
        let _ = self.switch_away(st, tid);
    }

    // -- operations called through the dispatcher ---------------------------

    pub fn yield_now(&self) {
        let tid = Self::current_tid();
        self.sched_point(tid, TraceOp::Yield, 0);
    }

    fn op_yield(&self, tid: Tid, op: Op, obj: usize) {
        self.sched_point(tid, TraceOp::Shim(op), obj);
    }

    fn acquire_loop(&self, tid: Tid, mutex: usize) {
        loop {
            let st = self.lock();
            let mut st = self.check_abort(st);
            if !st.mutex_owner.contains_key(&mutex) {
                st.mutex_owner.insert(mutex, tid);
                return;
            }
            if st.mutex_owner.get(&mutex) == Some(&tid) {
                let msg = format!("thread locks a mutex it already owns\n{}", Self::render_trace(&st));
                self.end_with(&mut st, SimEnd::Fail { key: "self-deadlock".into(), msg });
                drop(st);
                park_forever();
            }
            st.threads[tid].status = Status::BlockedMutex(mutex);
            Self::push_trace(&mut st, tid, TraceOp::Block, mutex);
            match self.switch_away(st, tid) {
                Some(g) => drop(g),
                None => unreachable!(),
            }
        }
    }

    fn op_mutex_lock(&self, tid: Tid, mutex: usize) {
        self.sched_point(tid, TraceOp::Shim(Op::MutexLock), mutex);
        self.acquire_loop(tid, mutex);
    }

    fn op_mutex_try_lock(&self, tid: Tid, mutex: usize) -> bool {
        self.sched_point(tid, TraceOp::Shim(Op::MutexTryLock), mutex);
        let st = self.lock();
        let mut st = self.check_abort(st);
        if st.mutex_owner.contains_key(&mutex) {
            false
        } else {
            st.mutex_owner.insert(mutex, tid);
            true
        }
    }

    fn release(st: &mut SimState, tid: Tid, mutex: usize) {
        let owner = st.mutex_owner.remove(&mutex);
        if owner != Some(tid) && st.end.is_none() {
            st.end = Some(SimEnd::Inconclusive(format!("harness: modelled mutex {mutex:#x} released by thread {tid} but owned by {owner:?}")));
        }
        for t in st.threads.iter_mut() {
            if t.status == Status::BlockedMutex(mutex) {
                t.status = Status::Runnable;
            }
        }
    }

    fn op_mutex_unlock(&self, tid: Tid, mutex: usize) {
        {
            let mut st = self.lock();
            Self::release(&mut st, tid, mutex);
        }
        self.sched_point(tid, TraceOp::Shim(Op::MutexUnlock), mutex);
    }

    fn op_condvar_wait(&self, tid: Tid, cv: usize, mutex: usize) {
        self.call_monitor(tid);
        let st = self.lock();
        let mut st = self.check_abort(st);
        st.steps += 1;
        Self::push_trace(&mut st, tid, TraceOp::Shim(Op::CondvarWait), cv);
        Self::release(&mut st, tid, mutex);
        st.cv_waiters.entry(cv).or_default().push(tid);
        st.threads[tid].status = Status::WaitingCv { cv, mutex };
        match self.switch_away(st, tid) {
            Some(g) => drop(g),
            None => unreachable!(),
        }
        self.acquire_loop(tid, mutex);
    }

    fn op_notify_one(&self, tid: Tid, cv: usize) -> bool {
        self.sched_point(tid, TraceOp::Shim(Op::CondvarNotifyOne), cv);
        let st = self.lock();
        let mut st = self.check_abort(st);
        let n = st.cv_waiters.get(&cv).map(|w| w.len()).unwrap_or(0);
        if n == 0 {
            return false;
        }
        let idx = if n > 1 {
            let d = st.decider.next(PointKind::Pick, n);
            st.points.push(PointInfo { kind: PointKind::Pick, n: n as u8, chosen: d as u8 });
            d
        } else {
            0
        };
        let t = st.cv_waiters.get_mut(&cv).unwrap().remove(idx);
        st.threads[t].status = Status::Runnable;
        true
    }

    fn op_notify_all(&self, tid: Tid, cv: usize) -> usize {
        self.sched_point(tid, TraceOp::Shim(Op::CondvarNotifyAll), cv);
        let st = self.lock();
        let mut st = self.check_abort(st);
        let ws = st.cv_waiters.remove(&cv).unwrap_or_default();
        for t in ws.iter() {
            st.threads[*t].status = Status::Runnable;
        }
        ws.len()
    }
}

// ---------------------------------------------------------------------------
// Dispatcher registered with the runtime's shim

pub struct Dispatch;

impl verif::Scheduler for Dispatch {
    fn manages_current_thread(&self) -> bool {
        CURRENT.with(|c| c.borrow().is_some())
    }
    fn yield_point(&self, op: Op, object: usize) {
        let (sim, tid) = Sim::current().unwrap();
        sim.op_yield(tid, op, object);
    }
    fn mutex_lock(&self, mutex: usize) {
        let (sim, tid) = Sim::current().unwrap();
        sim.op_mutex_lock(tid, mutex);
    }
    fn mutex_try_lock(&self, mutex: usize) -> bool {
        let (sim, tid) = Sim::current().unwrap();
        sim.op_mutex_try_lock(tid, mutex)
    }
    fn mutex_unlock(&self, mutex: usize) {
        let (sim, tid) = Sim::current().unwrap();
        sim.op_mutex_unlock(tid, mutex);
    }
    fn condvar_wait(&self, condvar: usize, mutex: usize) {
        let (sim, tid) = Sim::current().unwrap();
        sim.op_condvar_wait(tid, condvar, mutex);
    }
    fn condvar_notify_one(&self, condvar: usize) -> bool {
        let (sim, tid) = Sim::current().unwrap();
        sim.op_notify_one(tid, condvar)
    }
    fn condvar_notify_all(&self, condvar: usize) -> usize {
        let (sim, tid) = Sim::current().unwrap();
        sim.op_notify_all(tid, condvar)
    }
}

pub static DISPATCH: Dispatch = Dispatch;

/// Install the scheduler and the panic hook (worker processes only).
pub fn install() {
    verif::set_scheduler(&DISPATCH);
    std::panic::set_hook(Box::new(|info| {
        let message = if let Some(s) = info.payload().downcast_ref::<&str>() {
            s.to_string()
        } else if let Some(s) = info.payload().downcast_ref::<String>() {
            s.clone()
        } else {
            "<non-string panic>".to_string()
        };
        let location = info.location().map(|l| format!("{}:{}", l.file(), l.line())).unwrap_or_default();
        match Sim::current() {
            Some((sim, tid)) => {
                // signature without line numbers: source file of the panic + normalised message
                // (no backtrace: symbolising one costs hundreds of milliseconds per failing case)
                let file = info.location().map(|l| l.file().to_string()).unwrap_or_default();
                let in_harness = file.contains("harness-sched") || file.starts_with("src/");
                let short = match file.find("dora-") {
                    Some(i) => file[i..].to_string(),
                    None => file.clone(),
                };
                let key = if in_harness {
                    // assertion of the harness' own client code / oracle
                    format!("oracle:{}", vh::vcore::normalise_msg(&message))
                } else {
                    format!("panic@{}:{}", short, vh::vcore::normalise_msg(&message))
                };
                let tail = {
                    let st = sim.lock();
                    Sim::render_trace(&st)
                };
                let tname = sim.lock().threads.get(tid).map(|t| t.name.clone()).unwrap_or_default();
                sim.fail(key, format!("thread {tname} panicked: {message}\n  at {location}\n{tail}"));
                park_forever();
            }
            None => {
                eprintln!("panic (unmanaged thread): {message} at {location}");
            }
        }
    }));
}
