//! C12 — parallel collection phases finish exactly when all work is done.
//!
//! Real code under test: `gc::swiper::terminator::Terminator::{new,
//! try_terminate, wake_up}` (through `dora_runtime::verif::Terminator`).
//! Transliterated (trusted): the loop shape of `MarkingTask::run` /
//! `CopyTask::trace_gray_objects` (pop -> else try_terminate -> break /
//! continue), `trace`/`push_item` (local segment, else own deque + wake_up),
//! `defensive_push` (move half of the local segment to the injector +
//! wake_up), `pop` (local, own deque, injector, steal from the others) against
//! an abstract pool whose every shared access is a scheduling point.

use crate::driver::*;
use crate::sched::{Schedule, Sim, SimEnd, Tid};
use dora_runtime::verif::Terminator;
use serde_json::{Value, json};
use std::collections::{BTreeSet, VecDeque};
use std::sync::atomic::{AtomicBool, Ordering::SeqCst};
use std::sync::{Arc, Mutex};
use std::time::Duration;
use vh::vcore::*;

#[derive(Clone, Debug, PartialEq)]
pub struct Script {
    pub workers: usize,
    /// children of every item (may contain cross edges and cycles: mark bits decide)
    pub children: Vec<Vec<usize>>,
    pub roots: Vec<usize>,
    /// capacity of the private local segment (real: 64)
    pub local_cap: usize,
    /// defensive push after more than this many marked items (real: 256)
    pub share_every: usize,
    /// ... if the local segment holds more than this many items (real: 4)
    pub share_min: usize,
    /// number of victims probed per steal attempt, per worker (real: 2 * workers, random)
    pub steal_tries: Vec<usize>,
}

pub struct C12;

impl Script {
    fn valid(&self) -> bool {
        let n = self.children.len();
        (2..=4).contains(&self.workers)
            && n >= 1
            && n <= 24
            && self.steal_tries.len() == self.workers
            && !self.roots.is_empty()
            && self.roots.iter().all(|r| *r < n)
            && self.children.iter().all(|c| c.len() <= 4 && c.iter().all(|x| *x < n))
            && self.local_cap <= 4
    }
    /// items reachable from the roots
    fn reachable(&self) -> BTreeSet<usize> {
        let mut seen = BTreeSet::new();
        let mut stack: Vec<usize> = self.roots.clone();
        while let Some(i) = stack.pop() {
            if seen.insert(i) {
                stack.extend(self.children[i].iter().copied());
            }
        }
        seen
    }
}

pub fn small_scripts(thorough: bool) -> Vec<Script> {
    let mut out = vec![];
    let mk = |workers: usize, children: Vec<Vec<usize>>, roots: Vec<usize>, local_cap, share_every, share_min, tries: usize| Script {
        workers,
        children,
        roots,
        local_cap,
        share_every,
        share_min,
        steal_tries: vec![tries; workers],
    };
    // 2 workers, <= 4 items
    out.push(mk(2, vec![vec![]], vec![0], 1, 9, 9, 1));
    out.push(mk(2, vec![vec![1], vec![]], vec![0], 0, 9, 9, 1));
    out.push(mk(2, vec![vec![1, 2], vec![], vec![]], vec![0], 0, 9, 9, 1));
    out.push(mk(2, vec![vec![1, 2], vec![], vec![]], vec![0], 1, 0, 0, 1));
    out.push(mk(2, vec![vec![1], vec![2], vec![]], vec![0], 0, 9, 9, 0));
    out.push(mk(2, vec![vec![1, 2], vec![3], vec![3], vec![]], vec![0], 0, 9, 9, 1));
    out.push(mk(2, vec![vec![1, 2], vec![3], vec![], vec![]], vec![0], 1, 0, 0, 1));
    out.push(mk(2, vec![vec![], vec![]], vec![0, 1], 1, 9, 9, 1));
    out.push(mk(2, vec![vec![2], vec![3], vec![], vec![]], vec![0, 1], 0, 9, 9, 2));
    out.push(mk(2, vec![vec![1], vec![0]], vec![0], 0, 9, 9, 1));
    if thorough {
        out.push(mk(3, vec![vec![1, 2], vec![], vec![]], vec![0], 0, 9, 9, 1));
        out.push(mk(3, vec![vec![1, 2], vec![3], vec![], vec![]], vec![0], 0, 9, 9, 2));
        out.push(mk(2, vec![vec![1, 2, 3], vec![4], vec![], vec![], vec![]], vec![0], 1, 0, 0, 1));
    }
    for s in &out {
        assert!(s.valid());
    }
    out
}

impl SchedCheck for C12 {
    type Script = Script;
    fn id(&self) -> &'static str {
        "C12"
    }
    fn gen_script(&self, c: &mut Choices) -> Script {
        let workers = 2 + c.weighted(&[5, 3, 2]);
        let n = 1 + c.below(24);
        // tree edges: item i (>0) is a child of an earlier item or a root
        let mut children: Vec<Vec<usize>> = vec![vec![]; n];
        let mut roots = vec![0usize];
        for i in 1..n {
            if c.chance(1, 8) {
                roots.push(i);
                continue;
            }
            // prefer recent parents (deep) or early parents (wide)
            let p = if c.chance(1, 2) { i - 1 - c.below(i.min(3)) } else { c.below(i) };
            if children[p].len() < 3 {
                children[p].push(i);
            } else {
                let q = (0..i).find(|q| children[*q].len() < 3).unwrap_or(0);
                if children[q].len() < 4 {
                    children[q].push(i);
                } else {
                    roots.push(i);
                }
            }
        }
        // cross edges (shared / cyclic)
        let extra = c.below(4);
        for _ in 0..extra {
            let a = c.below(n);
            let b = c.below(n);
            if children[a].len() < 4 {
                children[a].push(b);
            }
        }
        let local_cap = c.below(4);
        let share_every = *c.pick(&[9usize, 0, 1, 2]);
        let share_min = c.below(3);
        let steal_tries = (0..workers).map(|_| c.below(2 * workers + 1)).collect();
        let s = Script { workers, children, roots, local_cap, share_every, share_min, steal_tries };
        debug_assert!(s.valid());
        s
    }
    fn script_to_json(&self, s: &Script) -> Value {
        json!({"workers": s.workers, "children": s.children, "roots": s.roots, "local_cap": s.local_cap, "share_every": s.share_every, "share_min": s.share_min, "steal_tries": s.steal_tries})
    }
    fn script_from_json(&self, v: &Value) -> Option<Script> {
        let us = |x: &Value| x.as_u64().map(|u| u as usize);
        let list = |x: &Value| -> Option<Vec<usize>> { x.as_array()?.iter().map(us).collect() };
        let s = Script {
            workers: us(&v["workers"])?,
            children: v["children"].as_array()?.iter().map(list).collect::<Option<Vec<_>>>()?,
            roots: list(&v["roots"])?,
            local_cap: us(&v["local_cap"])?,
            share_every: us(&v["share_every"])?,
            share_min: us(&v["share_min"])?,
            steal_tries: list(&v["steal_tries"])?,
        };
        if s.valid() { Some(s) } else { None }
    }
    fn shrink_script(&self, s: &Script) -> Vec<Script> {
        let mut out = vec![];
        if s.workers > 2 {
            let mut c = s.clone();
            c.workers -= 1;
            c.steal_tries.pop();
            out.push(c);
        }
        // drop the last item
        let n = s.children.len();
        if n > 1 {
            let mut c = s.clone();
            c.children.pop();
            for ch in c.children.iter_mut() {
                ch.retain(|x| *x != n - 1);
            }
            c.roots.retain(|x| *x != n - 1);
            if c.valid() {
                out.push(c);
            }
        }
        // drop one edge
        for i in 0..n {
            for k in 0..s.children[i].len() {
                let mut c = s.clone();
                c.children[i].remove(k);
                out.push(c);
            }
        }
        if s.roots.len() > 1 {
            let mut c = s.clone();
            c.roots.pop();
            out.push(c);
        }
        out
    }
    fn run(&self, s: &Script, schedule: Schedule) -> RunResult {
        run_case(s, schedule)
    }
}

struct PoolState {
    deques: Vec<VecDeque<usize>>,
    injector: VecDeque<usize>,
    locals: Vec<Vec<usize>>,
    marked: Vec<bool>,
    processed: Vec<u32>,
    in_flight: Vec<Option<usize>>,
    in_tt: Vec<bool>,
    in_wake: Vec<bool>,
    terminated: Vec<bool>,
}

struct World {
    script: Script,
    sim: Arc<Sim>,
    terminator: Terminator,
    pool: Mutex<PoolState>,
    classes: Mutex<BTreeSet<&'static str>>,
    nontrivial: AtomicBool,
    tids: Mutex<Vec<Tid>>,
    lock_obj: usize,
}

impl World {
    fn class(&self, c: &'static str) {
        self.classes.lock().unwrap().insert(c);
    }

    fn pool_nonempty_desc(p: &PoolState) -> Option<String> {
        let mut d = vec![];
        if !p.injector.is_empty() {
            d.push(format!("injector holds {:?}", p.injector));
        }
        for (w, q) in p.deques.iter().enumerate() {
            if !q.is_empty() {
                d.push(format!("deque of W{w} holds {:?}", q));
            }
        }
        for (w, l) in p.locals.iter().enumerate() {
            if !l.is_empty() {
                d.push(format!("local segment of W{w} holds {:?}", l));
            }
        }
        for (w, f) in p.in_flight.iter().enumerate() {
            if let Some(i) = f {
                d.push(format!("W{w} is between pop and publish of item {i}"));
            }
        }
        if d.is_empty() { None } else { Some(d.join("; ")) }
    }

    fn monitor(&self, _tid: Tid) {
        let p = self.pool.lock().unwrap();
        // (1) once any worker has been told "terminated", nothing may be left anywhere
        if p.terminated.iter().any(|t| *t) {
            if let Some(d) = Self::pool_nonempty_desc(&p) {
                let who: Vec<usize> = p.terminated.iter().enumerate().filter(|(_, t)| **t).map(|(i, _)| i).collect();
                drop(p);
                self.sim.fail("early-termination", format!("try_terminate returned true for worker(s) {:?} while work remains: {}", who, d));
                return;
            }
        }
        // (2) every worker outside try_terminate is accounted for in `working`
        if self.sim.mutex_is_free(self.lock_obj) {
            let (working, awakening) = self.terminator.verif_peek();
            // (2b) bookkeeping invariant of the detector itself (stricter than the property, see
            // SCHED_REPORT.md): once termination has been declared no worker is counted as working
            // or as "notified but not yet resumed" — otherwise completion was declared while the
            // detector still expected somebody to resume
            if p.terminated.iter().any(|t| *t) && (working != 0 || awakening != 0) {
                drop(p);
                self.sim.fail("terminated-with-wake-up-in-flight", format!("try_terminate returned true but the detector's counters are working={working}, awakening={awakening} (a notified worker has not resumed yet / a worker is still counted as working)"));
                return;
            }
            let active = (0..self.script.workers).filter(|w| !p.in_tt[*w] && !p.terminated[*w]).count();
            if working < active && !p.terminated.iter().any(|t| *t) {
                drop(p);
                self.sim.fail("terminator-undercount", format!("{active} workers are outside try_terminate but working={working}, awakening={awakening}"));
                return;
            }
        }
        // non-triviality: a worker is inside try_terminate while another holds unpublished work
        let someone_in_tt = p.in_tt.iter().any(|x| *x);
        if someone_in_tt {
            for w in 0..self.script.workers {
                if !p.in_tt[w] && (p.in_flight[w].is_some() || !p.locals[w].is_empty()) {
                    self.nontrivial.store(true, SeqCst);
                    self.class("try-terminate-while-other-holds-unpublished-work");
                }
            }
            if p.in_wake.iter().any(|x| *x) {
                self.class("wake-up-races-with-try-terminate");
            }
        }
    }

    fn shared<R>(&self, f: impl FnOnce(&mut PoolState) -> R) -> R {
        // every access to a shared structure of the pool is a scheduling point
        self.sim.yield_now();
        f(&mut self.pool.lock().unwrap())
    }

    fn wake_up(&self, w: usize) {
        self.pool.lock().unwrap().in_wake[w] = true;
        self.terminator.wake_up();
        self.pool.lock().unwrap().in_wake[w] = false;
    }

    fn pop(&self, w: usize) -> Option<usize> {
        // pop_local
        if let Some(i) = self.pool.lock().unwrap().locals[w].pop() {
            return Some(i);
        }
        // pop_worker
        if let Some(i) = self.shared(|p| p.deques[w].pop_back()) {
            return Some(i);
        }
        // pop_global: steal_batch_and_pop from the injector
        if let Some(i) = self.shared(|p| {
            let n = p.injector.len();
            if n == 0 {
                return None;
            }
            let take = (n + 1) / 2;
            let first = p.injector.pop_front();
            for _ in 1..take {
                if let Some(x) = p.injector.pop_front() {
                    p.deques[w].push_back(x);
                }
            }
            first
        }) {
            return Some(i);
        }
        // steal
        let n = self.script.workers;
        for k in 0..self.script.steal_tries[w] {
            let victim = (w + 1 + k % (n - 1)) % n;
            if victim == w {
                continue;
            }
            if let Some(i) = self.shared(|p| {
                let len = p.deques[victim].len();
                if len == 0 {
                    return None;
                }
                let take = (len + 1) / 2;
                let first = p.deques[victim].pop_front();
                for _ in 1..take {
                    if let Some(x) = p.deques[victim].pop_front() {
                        p.deques[w].push_back(x);
                    }
                }
                first
            }) {
                self.class("stolen-from-other-worker");
                return Some(i);
            }
        }
        None
    }

    fn worker(&self, w: usize) {
        let mut marked_since_share = 0usize;
        loop {
            let item = if let Some(i) = self.pop(w) {
                i
            } else {
                self.pool.lock().unwrap().in_tt[w] = true;
                let done = self.terminator.try_terminate();
                {
                    let mut p = self.pool.lock().unwrap();
                    p.in_tt[w] = false;
                    if done {
                        p.terminated[w] = true;
                    }
                }
                if done {
                    break;
                } else {
                    self.class("resumed-after-wake-up");
                    continue;
                }
            };
            {
                let mut p = self.pool.lock().unwrap();
                p.in_flight[w] = Some(item);
                p.processed[item] += 1;
            }
            for child in self.script.children[item].clone() {
                // try_mark: CAS on the mark bit
                let fresh = self.shared(|p| {
                    if p.marked[child] {
                        false
                    } else {
                        p.marked[child] = true;
                        true
                    }
                });
                if !fresh {
                    continue;
                }
                let has_capacity = self.pool.lock().unwrap().locals[w].len() < self.script.local_cap;
                if has_capacity {
                    self.pool.lock().unwrap().locals[w].push(child);
                    // defensive_push
                    marked_since_share += 1;
                    if marked_since_share > self.script.share_every {
                        let len = self.pool.lock().unwrap().locals[w].len();
                        if len > self.script.share_min {
                            let target = len / 2;
                            loop {
                                let more = self.shared(|p| {
                                    if p.locals[w].len() > target {
                                        let v = p.locals[w].pop().unwrap();
                                        p.injector.push_back(v);
                                        true
                                    } else {
                                        false
                                    }
                                });
                                if !more {
                                    break;
                                }
                            }
                            self.class("defensive-push-to-injector");
                            self.wake_up(w);
                        }
                        marked_since_share = 0;
                    }
                } else {
                    self.shared(|p| p.deques[w].push_back(child));
                    self.wake_up(w);
                }
            }
            self.pool.lock().unwrap().in_flight[w] = None;
        }
    }
}

pub fn run_case(script: &Script, schedule: Schedule) -> RunResult {
    let sim = Sim::new(schedule, 60_000);
    let n = script.children.len();
    let nw = script.workers;
    let terminator = Terminator::new(nw);
    let mut marked = vec![false; n];
    let mut injector = VecDeque::new();
    for r in &script.roots {
        if !marked[*r] {
            marked[*r] = true;
            injector.push_back(*r);
        }
    }
    let world = Arc::new(World {
        script: script.clone(),
        sim: sim.clone(),
        lock_obj: terminator.verif_objects().0,
        terminator,
        pool: Mutex::new(PoolState {
            deques: vec![VecDeque::new(); nw],
            injector,
            locals: vec![vec![]; nw],
            marked,
            processed: vec![0; n],
            in_flight: vec![None; nw],
            in_tt: vec![false; nw],
            in_wake: vec![false; nw],
            terminated: vec![false; nw],
        }),
        classes: Mutex::new(BTreeSet::new()),
        nontrivial: AtomicBool::new(false),
        tids: Mutex::new(vec![]),
    });
    let (lock_obj, cv_obj) = world.terminator.verif_objects();
    sim.name_object(lock_obj, "terminator.lock");
    sim.name_object(cv_obj, "terminator.condvar");
    let wm = world.clone();
    sim.set_monitor(Arc::new(move |_s: &Sim, tid: Tid| wm.monitor(tid)));
    // coordinator = threadpool.scoped: starts all workers, then leaves
    let w0 = world.clone();
    sim.spawn("coordinator", move || {
        for w in 0..w0.script.workers {
            let ww = w0.clone();
            let tid = w0.sim.spawn(format!("W{w}"), move || ww.worker(w));
            w0.tids.lock().unwrap().push(tid);
        }
    });
    let report = sim.run(Duration::from_secs(20));
    let mut end = report.end.clone();
    if matches!(end, SimEnd::Ok) {
        let p = world.pool.lock().unwrap();
        let mut problems = vec![];
        let reach = script.reachable();
        for i in 0..n {
            let want = if reach.contains(&i) { 1 } else { 0 };
            if p.processed[i] != want {
                problems.push(format!("item {i} processed {} times (expected {want})", p.processed[i]));
            }
        }
        if let Some(d) = World::pool_nonempty_desc(&p) {
            problems.push(format!("work left after all workers returned: {d}"));
        }
        if !p.terminated.iter().all(|t| *t) {
            problems.push("a worker left its loop without try_terminate() == true".into());
        }
        if !problems.is_empty() {
            end = SimEnd::Fail { key: "final-state".into(), msg: problems.join("\n  ") };
        }
    }
    let classes: Vec<String> = world.classes.lock().unwrap().iter().map(|s| s.to_string()).collect();
    let nontrivial = world.nontrivial.load(SeqCst);
    if matches!(end, SimEnd::Ok) {
        sim.set_monitor(Arc::new(|_: &Sim, _: Tid| {}));
    } else {
        std::mem::forget(world);
    }
    RunResult { end, points: report.points, steps: report.steps, switches: report.switches, preemptions: report.preemptions, classes, nontrivial, trace: report.trace_tail }
}

pub const RULE: &str = "a case = (2-4 workers, work graph of <=24 items with <=4 children each incl. shared and cyclic edges, roots, local-segment capacity, defensive-push thresholds, steal-probe counts per worker) x one schedule; workers run the loop shape of MarkingTask::run / CopyTask::trace_gray_objects against an abstract pool (local segment, own deque, injector, stealing) with the real Terminator; non-trivial = a schedule in which a worker was inside try_terminate while another worker still held unpublished work (an item between pop and publish, or a non-empty local segment); distinct by hash of (script, executed decision sequence). Classes: wake-up-races-with-try-terminate, resumed-after-wake-up, stolen-from-other-worker, defensive-push-to-injector";

pub fn main(mode: Mode) -> i32 {
    let check = C12;
    match mode {
        Mode::Worker(_) => worker_main(&check),
        Mode::Replay(_, doc) => {
            let pool = Pool::new("C12", 60);
            let mut ctx = Ctx::new("C12", "quick");
            let p = SchedProp { check: &check, pool: &pool, name: doc["sub"].as_str().unwrap_or("random").to_string() };
            ctx.replay(&p, &doc)
        }
        Mode::Minimize(_, doc) => {
            let pool = Pool::new("C12", 60);
            let mut ctx = Ctx::new("C12", "quick");
            let p = SchedProp { check: &check, pool: &pool, name: "random".into() };
            ctx.minimize_stored(&p, &doc, 400)
        }
        Mode::Run(tier) => {
            let mut ctx = Ctx::new("C12", &tier);
            let pool = Pool::new("C12", 60);
            ctx.rule = RULE.into();
            ctx.assumptions = vec![
                "sequentially consistent interleavings only (the Relaxed loads of wake_up's fast path are not reordered)".into(),
                "crossbeam deques / injector replaced by an abstract pool whose shared accesses are scheduling points; the worker loop is a Rust transliteration (trusted)".into(),
                "termination is checked within 60000 scheduling steps under every explored schedule".into(),
                "this binary covers the schedule-harness part of C12; real collections with 1/2/8 workers are run by the program-level check".into(),
            ];
            let p = SchedProp { check: &check, pool: &pool, name: "random".into() };
            ctx.run_regressions(&p);
            let scripts = small_scripts(ctx.thorough());
            let bound = if ctx.thorough() { 3 } else { 2 };
            let cap = ctx.n(200_000, 3_000_000) as u64;
            run_exhaustive(&mut ctx, &check, &pool, "exhaustive", &scripts, bound, cap);
            let n = ctx.n(100_000, 2_000_000);
            ctx.run_search(&p, n, 600, 300);
            for c in ["try-terminate-while-other-holds-unpublished-work", "wake-up-races-with-try-terminate", "resumed-after-wake-up", "stolen-from-other-worker"] {
                let total = ctx.classes.get(&format!("random/{c}")).copied().unwrap_or(0) + ctx.classes.get(&format!("exhaustive/{c}")).copied().unwrap_or(0);
                ctx.classes.insert(format!("all/{c}"), total);
                if ctx.violations.is_empty() {
                    ctx.require_class(&format!("all/{c}"));
                }
            }
            // evidence goes to evidence/parts/C12.json (the main C12 check merges it)
            Ctx::write_as_part();
            ctx.finish()
        }
    }
}
