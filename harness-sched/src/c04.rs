//! C04 — no managed thread runs while the world is stopped.
//!
//! Real code under test (dora-runtime, through `dora_runtime::verif`):
//! `DoraThread::{park, unpark, park_slow, unpark_slow, join, stop}`, `Barrier`,
//! `Threads::{add_main_thread, add_thread, remove_current_thread, join_all}`,
//! `safepoint::{stop_the_world, stop_threads, resume_threads, safepoint_slow}`,
//! `parked_scope`, `Gc::force_collect` (request path with epoch coalescing).
//! Transliterated (trusted): the compiled safepoint poll (load state, call
//! `safepoint_slow` unless Running) and the start/exit sequences of
//! `stdlib::spawn_thread` / `thread_main` / `runtime::execute_on_main`.

use crate::driver::*;
use crate::sched::{Schedule, Sim, SimEnd, Tid};
use dora_runtime::verif::{self as rtv, Address, Collector, DoraThread, GcReason, Region, Runtime, RuntimeState, ThreadState};
use serde_json::{Value, json};
use std::cell::Cell;
use std::collections::BTreeSet;
use std::sync::atomic::{AtomicBool, AtomicU8, AtomicU64, AtomicUsize, Ordering::SeqCst};
use std::sync::{Arc, Mutex};
use std::time::Duration;
use vh::vcore::*;

#[derive(Clone, Debug, PartialEq)]
pub enum Op {
    Poll,
    Work,
    Native(u8),
    Stw(u8),
    Gc { forced: bool },
    Spawn(usize),
    Join(usize),
}

#[derive(Clone, Debug, PartialEq)]
pub struct Script {
    pub threads: Vec<Vec<Op>>,
    pub join_all: bool,
}

impl Op {
    fn to_s(&self) -> String {
        match self {
            Op::Poll => "poll".into(),
            Op::Work => "work".into(),
            Op::Native(k) => format!("native:{k}"),
            Op::Stw(k) => format!("stw:{k}"),
            Op::Gc { forced: false } => "gc".into(),
            Op::Gc { forced: true } => "gc-forced".into(),
            Op::Spawn(i) => format!("spawn:{i}"),
            Op::Join(i) => format!("join:{i}"),
        }
    }
    fn from_s(s: &str) -> Option<Op> {
        let (h, t) = s.split_once(':').map(|(a, b)| (a, b.parse::<usize>().ok())).unwrap_or((s, None));
        Some(match h {
            "poll" => Op::Poll,
            "work" => Op::Work,
            "native" => Op::Native(t? as u8),
            "stw" => Op::Stw(t? as u8),
            "gc" => Op::Gc { forced: false },
            "gc-forced" => Op::Gc { forced: true },
            "spawn" => Op::Spawn(t?),
            "join" => Op::Join(t?),
            _ => return None,
        })
    }
}

pub struct C04;

const MAX_THREADS: usize = 4;
const MAX_OPS: usize = 6;

fn gen_plain_op(c: &mut Choices) -> Op {
    match c.weighted(&[3, 3, 3, 4, 2, 1]) {
        0 => Op::Poll,
        1 => Op::Work,
        2 => Op::Native(c.below(3) as u8),
        3 => Op::Stw(c.below(3) as u8),
        4 => Op::Gc { forced: false },
        _ => Op::Gc { forced: true },
    }
}

impl Script {
    pub fn valid(&self) -> bool {
        let n = self.threads.len();
        if n == 0 || n > MAX_THREADS + 1 {
            return false;
        }
        let mut spawned = vec![0usize; n];
        for (ti, ops) in self.threads.iter().enumerate() {
            let mut mine: BTreeSet<usize> = BTreeSet::new();
            for op in ops {
                match op {
                    Op::Spawn(j) => {
                        if *j <= ti || *j >= n {
                            return false;
                        }
                        spawned[*j] += 1;
                        mine.insert(*j);
                    }
                    Op::Join(j) => {
                        if !mine.contains(j) {
                            return false;
                        }
                    }
                    _ => {}
                }
            }
        }
        spawned[0] == 0 && spawned[1..].iter().all(|x| *x == 1)
    }
}

/// The fixed list of smallest script shapes for the bounded-exhaustive tier.
pub fn small_scripts(thorough: bool) -> Vec<Script> {
    use Op::*;
    let mut out = vec![];
    let victims: Vec<Vec<Op>> = vec![
        vec![Poll],
        vec![Work],
        vec![Native(1)],
        vec![Work, Native(0)],
        vec![Native(0), Work],
        vec![Poll, Poll],
        vec![],
    ];
    let initiators: Vec<Vec<Op>> = vec![vec![Stw(1)], vec![Gc { forced: false }], vec![Stw(0), Stw(0)]];
    // main spawns one thread, then requests; the other thread is the victim
    for ini in &initiators {
        for v in &victims {
            let mut m = vec![Spawn(1)];
            m.extend(ini.iter().cloned());
            out.push(Script { threads: vec![m, v.clone()], join_all: false });
        }
    }
    // request from the spawned thread, main is the victim (incl. join = blocked-parked victim)
    for v in [vec![Work], vec![Native(1)], vec![Join(1)], vec![Poll, Join(1)]] {
        let mut m = vec![Spawn(1)];
        m.extend(v);
        out.push(Script { threads: vec![m, vec![Stw(1)]], join_all: false });
    }
    // simultaneous requests (coalescing), request vs. spawn, request vs. exit
    out.push(Script { threads: vec![vec![Spawn(1), Gc { forced: false }], vec![Gc { forced: false }]], join_all: false });
    out.push(Script { threads: vec![vec![Spawn(1), Stw(0)], vec![Stw(0)]], join_all: false });
    out.push(Script { threads: vec![vec![Spawn(1), Gc { forced: true }], vec![Gc { forced: false }, Work]], join_all: true });
    out.push(Script { threads: vec![vec![Spawn(1), Work], vec![Spawn(2), Stw(0)], vec![]], join_all: false });
    out.push(Script { threads: vec![vec![Spawn(1), Spawn(2)], vec![Stw(0)], vec![Work]], join_all: false });
    out.push(Script { threads: vec![vec![Spawn(1), Spawn(2), Stw(0)], vec![], vec![Poll]], join_all: false });
    out.push(Script { threads: vec![vec![Spawn(1), Spawn(2), Join(1)], vec![Stw(0)], vec![Stw(0)]], join_all: false });
    // back-to-back requests from different threads while a third one sits in a safepoint
    out.push(Script { threads: vec![vec![Spawn(1), Spawn(2), Work], vec![Stw(0)], vec![Stw(0)]], join_all: false });
    if thorough {
        out.push(Script { threads: vec![vec![Spawn(1), Spawn(2), Stw(0), Work], vec![Work, Stw(0)], vec![Native(1), Poll]], join_all: true });
        out.push(Script { threads: vec![vec![Spawn(1), Spawn(2), Gc { forced: false }], vec![Gc { forced: false }], vec![Gc { forced: false }]], join_all: false });
        out.push(Script { threads: vec![vec![Spawn(1), Stw(1), Join(1)], vec![Spawn(2), Work], vec![Native(0), Stw(0)]], join_all: false });
    }
    for s in &out {
        assert!(s.valid(), "invalid built-in script {:?}", s);
    }
    out
}

impl SchedCheck for C04 {
    type Script = Script;
    fn id(&self) -> &'static str {
        "C04"
    }
    fn gen_script(&self, c: &mut Choices) -> Script {
        let n = 2 + c.weighted(&[4, 5, 2]); // 2..4 threads
        let mut threads: Vec<Vec<Op>> = vec![];
        for _ in 0..n {
            let k = c.below(MAX_OPS - 1);
            threads.push((0..k).map(|_| gen_plain_op(c)).collect());
        }
        // spawn tree: thread i >= 1 is spawned by a thread with a smaller index
        for i in 1..n {
            let parent = c.below(i);
            let pos = c.below(threads[parent].len() + 1);
            // keep spawns of one parent ordered by position so that Join can follow
            threads[parent].insert(pos, Op::Spawn(i));
            if c.chance(1, 3) {
                let after = pos + 1 + c.below(threads[parent].len() - pos);
                threads[parent].insert(after, Op::Join(i));
            }
        }
        let join_all = c.chance(1, 4);
        let s = Script { threads, join_all };
        debug_assert!(s.valid());
        s
    }
    fn script_to_json(&self, s: &Script) -> Value {
        json!({"threads": s.threads.iter().map(|t| t.iter().map(|o| o.to_s()).collect::<Vec<_>>()).collect::<Vec<_>>(), "join_all": s.join_all})
    }
    fn script_from_json(&self, v: &Value) -> Option<Script> {
        let mut threads = vec![];
        for t in v["threads"].as_array()? {
            let mut ops = vec![];
            for o in t.as_array()? {
                ops.push(Op::from_s(o.as_str()?)?);
            }
            threads.push(ops);
        }
        let s = Script { threads, join_all: v["join_all"].as_bool().unwrap_or(false) };
        if s.valid() { Some(s) } else { None }
    }
    fn shrink_script(&self, s: &Script) -> Vec<Script> {
        let mut out = vec![];
        // drop a leaf thread (nobody spawned by it): remove its spawn/join ops and renumber
        let n = s.threads.len();
        for victim in (1..n).rev() {
            if s.threads[victim].iter().any(|o| matches!(o, Op::Spawn(_))) {
                continue;
            }
            let mut t2: Vec<Vec<Op>> = vec![];
            for (i, ops) in s.threads.iter().enumerate() {
                if i == victim {
                    continue;
                }
                let ops2: Vec<Op> = ops
                    .iter()
                    .filter(|o| !matches!(o, Op::Spawn(j) | Op::Join(j) if *j == victim))
                    .map(|o| match o {
                        Op::Spawn(j) if *j > victim => Op::Spawn(j - 1),
                        Op::Join(j) if *j > victim => Op::Join(j - 1),
                        o => o.clone(),
                    })
                    .collect();
                t2.push(ops2);
            }
            let c = Script { threads: t2, join_all: s.join_all };
            if c.valid() {
                out.push(c);
            }
        }
        // drop single ops (not spawns)
        for (ti, ops) in s.threads.iter().enumerate() {
            for oi in 0..ops.len() {
                if matches!(ops[oi], Op::Spawn(_)) {
                    continue;
                }
                let mut c = s.clone();
                c.threads[ti].remove(oi);
                if c.valid() {
                    out.push(c);
                }
            }
        }
        // simplify ops
        for (ti, ops) in s.threads.iter().enumerate() {
            for (oi, op) in ops.iter().enumerate() {
                let simpler = match op {
                    Op::Stw(k) if *k > 0 => Some(Op::Stw(0)),
                    Op::Native(k) if *k > 0 => Some(Op::Native(0)),
                    Op::Gc { forced: true } => Some(Op::Gc { forced: false }),
                    Op::Gc { forced: false } => Some(Op::Stw(0)),
                    Op::Work => Some(Op::Poll),
                    _ => None,
                };
                if let Some(o2) = simpler {
                    let mut c = s.clone();
                    c.threads[ti][oi] = o2;
                    out.push(c);
                }
            }
        }
        if s.join_all {
            let mut c = s.clone();
            c.join_all = false;
            out.push(c);
        }
        out
    }
    fn run(&self, s: &Script, schedule: Schedule) -> RunResult {
        run_case(s, schedule)
    }
}

// ---------------------------------------------------------------------------
// World: harness-side state of one case

const PH_NONE: u8 = 0; // DoraThread not created yet
const PH_CREATED: u8 = 1; // created (Parked), being added to the list
const PH_REGISTERED: u8 = 2; // in the list, OS thread not yet through its initial unpark
const PH_STARTED: u8 = 3;
const PH_EXITING: u8 = 4; // inside remove_current_thread / stop
const PH_GONE: u8 = 5;

const OPK_NONE: u8 = 0;
const OPK_STW: u8 = 1; // stw or gc request in progress
const OPK_OTHER: u8 = 2;

struct Thr {
    dora: Mutex<Option<Arc<DoraThread>>>,
    ptr: AtomicUsize,
    tid: AtomicUsize,
    mutating: AtomicBool,
    phase: AtomicU8,
    opk: AtomicU8,
    last_state: AtomicU8,
    exited: AtomicBool,
    joining: AtomicUsize,
}

struct Window {
    initiator: usize,
    list: Vec<usize>,
}

struct World {
    script: Script,
    sim: Arc<Sim>,
    rt: AtomicUsize,
    thr: Vec<Thr>,
    window: Mutex<Option<Window>>,
    window_open: AtomicBool,
    collections_started: AtomicU64,
    collections_completed: AtomicU64,
    closure_yields: AtomicU8,
    classes: Mutex<BTreeSet<&'static str>>,
    overlap: AtomicBool,
    barrier_objs: (usize, usize, usize),
}

thread_local! {
    static MY_INDEX: Cell<usize> = const { Cell::new(usize::MAX) };
}

impl World {
    fn rt(&self) -> &'static Runtime {
        unsafe { &*(self.rt.load(SeqCst) as *const Runtime) }
    }
    fn class(&self, c: &'static str) {
        self.classes.lock().unwrap().insert(c);
    }
    fn index_of_tid(&self, tid: Tid) -> Option<usize> {
        self.thr.iter().position(|t| t.tid.load(SeqCst) == tid)
    }
    fn state_of(&self, i: usize) -> Option<ThreadState> {
        let p = self.thr[i].ptr.load(SeqCst);
        if p == 0 {
            return None;
        }
        Some(unsafe { &*(p as *const DoraThread) }.verif_state_peek())
    }

    /// The in-closure invariant of C04. Called on entry/exit of every stop-the-world
    /// closure and at every scheduling point of any thread while a closure is active.
    fn check_invariant(&self, at: &str) {
        let guard = self.window.lock().unwrap();
        let Some(w) = guard.as_ref() else { return };
        let rt = self.rt();
        let mut problems: Vec<String> = vec![];
        if rt.state() != RuntimeState::Safepoint {
            problems.push("runtime state is not Safepoint inside the operation".into());
        }
        let now = rt.threads.verif_threads_peek();
        if now != w.list {
            problems.push(format!("thread list changed during the operation: {} -> {} entries", w.list.len(), now.len()));
        }
        for (j, t) in self.thr.iter().enumerate() {
            let p = t.ptr.load(SeqCst);
            if p == 0 {
                continue;
            }
            let st = self.state_of(j).unwrap();
            let mutating = t.mutating.load(SeqCst);
            if w.list.contains(&p) {
                if j == w.initiator {
                    let ok = st == ThreadState::ParkedSafepointRequested || (w.list.len() == 1 && st == ThreadState::Parked);
                    if !ok {
                        problems.push(format!("initiator T{j} is in state {:?}", st));
                    }
                } else {
                    if mutating {
                        problems.push(format!("T{j} is mutating the heap (state {:?})", st));
                    }
                    if !(st == ThreadState::Safepoint || st == ThreadState::ParkedSafepointRequested) {
                        problems.push(format!("registered thread T{j} is in state {:?}, not Safepoint/ParkedSafepointRequested", st));
                    }
                }
            } else {
                // left out of the operation: must be a thread that cannot touch the heap
                if mutating || st != ThreadState::Parked {
                    problems.push(format!("T{j} is not in the thread list handed to the operation but is in state {:?} (mutating={mutating})", st));
                }
            }
        }
        if !problems.is_empty() {
            let kind = if problems.iter().any(|p| p.contains("mutating the heap")) {
                "thread-mutating"
            } else if problems.iter().any(|p| p.contains("not Safepoint/Parked")) {
                "thread-not-stopped"
            } else if problems.iter().any(|p| p.contains("not in the thread list")) {
                "thread-left-out"
            } else {
                "other"
            };
            drop(guard);
            self.sim.fail(format!("stw-invariant:{kind}"), format!("stop-the-world invariant violated ({at}):\n  {}", problems.join("\n  ")));
        }
    }

    /// Body of every stop-the-world operation issued by the harness.
    fn closure(&self, threads: &[Arc<DoraThread>]) {
        let me = MY_INDEX.with(|m| m.get());
        {
            let mut w = self.window.lock().unwrap();
            if w.is_some() {
                drop(w);
                self.sim.fail("stw-invariant:nested-operation", "a stop-the-world operation started while another one is active");
                return;
            }
            *w = Some(Window { initiator: me, list: threads.iter().map(|t| Arc::as_ptr(t) as usize).collect() });
        }
        self.window_open.store(true, SeqCst);
        self.check_invariant("on entry");
        for _ in 0..self.closure_yields.load(SeqCst) {
            self.sim.yield_now();
        }
        self.check_invariant("on exit");
        self.window_open.store(false, SeqCst);
        *self.window.lock().unwrap() = None;
    }

    fn monitor(&self, tid: Tid) {
        if self.window_open.load(SeqCst) {
            self.check_invariant("at a scheduling point during the operation");
        }
        // give the (private) join condition variables a readable name once somebody waits on them
        for (i, t) in self.thr.iter().enumerate() {
            let j = t.joining.load(SeqCst);
            let tt = t.tid.load(SeqCst);
            if j != usize::MAX && tt != usize::MAX {
                if let Some(cv) = self.sim.waiting_on_cv(tt) {
                    let _ = i;
                    self.sim.name_object_if_unnamed(cv, format!("T{j}.cv_stopped"));
                }
            }
        }
        let Some(j) = self.index_of_tid(tid) else { return };
        // transitions of the stepping thread's own state
        if let Some(st) = self.state_of(j) {
            let last = self.thr[j].last_state.swap(st as u8, SeqCst);
            if last == ThreadState::SafepointRequested as u8 && st == ThreadState::ParkedSafepointRequested {
                self.class("stw-vs-park-slow");
            }
            if st == ThreadState::Safepoint {
                self.class("stw-vs-safepoint-poll");
            }
        }
        // is some other thread's request in progress?
        let mut other_request = false;
        for (i, t) in self.thr.iter().enumerate() {
            if i != j && t.opk.load(SeqCst) == OPK_STW {
                other_request = true;
            }
        }
        if other_request {
            let ph = self.thr[j].phase.load(SeqCst);
            if ph == PH_STARTED || ph == PH_EXITING {
                self.overlap.store(true, SeqCst);
            }
            if self.thr[j].opk.load(SeqCst) == OPK_STW {
                self.class("two-concurrent-requests");
            }
            if ph == PH_EXITING {
                self.class("stw-vs-thread-exit");
            }
            if self.thr.iter().any(|t| matches!(t.phase.load(SeqCst), PH_CREATED | PH_REGISTERED)) {
                self.class("stw-vs-thread-start");
            }
            let (armed, _) = self.rt().threads.barrier.verif_peek();
            if armed {
                for (i, t) in self.thr.iter().enumerate() {
                    let tt = t.tid.load(SeqCst);
                    if tt != usize::MAX && self.sim.waiting_on_cv(tt) == Some(self.barrier_objs.1) && self.state_of(i) == Some(ThreadState::ParkedSafepointRequested) {
                        self.class("stw-vs-unpark-slow");
                    }
                }
            }
        }
    }
}

struct HarnessCollector {
    world: std::sync::Weak<World>,
}

impl Collector for HarnessCollector {
    fn alloc_tlab_area(&self, _rt: &Runtime, _size: usize) -> Option<Region> {
        None
    }
    fn alloc_object(&self, _rt: &Runtime, _size: usize) -> Option<Address> {
        None
    }
    fn alloc_readonly(&self, _rt: &Runtime, _size: usize) -> Address {
        Address::null()
    }
    fn collect_garbage(&self, _rt: &Runtime, threads: &[Arc<DoraThread>], _reason: GcReason, _size: usize) {
        let w = self.world.upgrade().expect("world alive");
        w.collections_started.fetch_add(1, SeqCst);
        w.closure(threads);
        w.collections_completed.fetch_add(1, SeqCst);
    }
    fn dump_summary(&self, _runtime: f32) {}
}

/// Transliteration of the compiled safepoint poll.
fn poll(dora: &DoraThread) {
    if dora.tld.state.load(std::sync::atomic::Ordering::Relaxed) != ThreadState::Running as u8 {
        rtv::safepoint_slow();
    }
}

fn exec_ops(w: &Arc<World>, me: usize, dora: &Arc<DoraThread>) {
    let rt = w.rt();
    let ops = w.script.threads[me].clone();
    for op in ops {
        let t = &w.thr[me];
        t.opk.store(if matches!(op, Op::Stw(_) | Op::Gc { .. }) { OPK_STW } else { OPK_OTHER }, SeqCst);
        match op {
            Op::Poll => poll(dora),
            Op::Work => {
                poll(dora);
                t.mutating.store(true, SeqCst);
                w.sim.yield_now();
                t.mutating.store(false, SeqCst);
            }
            Op::Native(k) => {
                rtv::parked_scope(|| {
                    for _ in 0..k {
                        w.sim.yield_now();
                    }
                });
            }
            Op::Stw(k) => {
                w.closure_yields.store(k, SeqCst);
                rtv::stop_the_world(rt, |threads| w.closure(threads));
            }
            Op::Gc { forced } => {
                w.closure_yields.store(1, SeqCst);
                let s0 = w.collections_started.load(SeqCst);
                let reason = if forced { GcReason::ForceCollect } else { GcReason::Stress };
                rt.gc.force_collect(rt, reason);
                let done = w.collections_completed.load(SeqCst);
                if done <= s0 {
                    w.sim.fail("gc-request-without-collection", format!("T{me}: a collection request returned but no collection started after the request was issued (started before: {s0}, completed now: {done})"));
                }
            }
            Op::Spawn(j) => spawn_thread(w, j),
            Op::Join(j) => {
                let target = w.thr[j].dora.lock().unwrap().clone().expect("join target exists");
                t.joining.store(j, SeqCst);
                target.join();
                t.joining.store(usize::MAX, SeqCst);
                if !w.thr[j].exited.load(SeqCst) {
                    w.sim.fail("join-returned-early", format!("T{me}: join(T{j}) returned before T{j} had finished"));
                }
            }
        }
        t.opk.store(OPK_NONE, SeqCst);
    }
}

/// Transliteration of `stdlib::spawn_thread` + `thread_main` (without managed objects).
fn spawn_thread(w: &Arc<World>, j: usize) {
    let rt = w.rt();
    let thread = DoraThread::with_id(rt.threads.next_thread_id(), ThreadState::Parked, Address::null());
    w.thr[j].ptr.store(Arc::as_ptr(&thread) as usize, SeqCst);
    *w.thr[j].dora.lock().unwrap() = Some(thread.clone());
    w.thr[j].last_state.store(ThreadState::Parked as u8, SeqCst);
    w.thr[j].phase.store(PH_CREATED, SeqCst);
    rt.threads.add_thread(thread.clone());
    w.thr[j].phase.store(PH_REGISTERED, SeqCst);
    let w2 = w.clone();
    let tid = w.sim.spawn(format!("T{j}"), move || {
        MY_INDEX.with(|m| m.set(j));
        let thread_ref = rtv::init_current_thread(thread.clone());
        let rt = w2.rt();
        thread_ref.unpark(rt);
        w2.thr[j].phase.store(PH_STARTED, SeqCst);
        exec_ops(&w2, j, &thread);
        w2.thr[j].phase.store(PH_EXITING, SeqCst);
        rt.threads.remove_current_thread();
        w2.thr[j].exited.store(true, SeqCst);
        thread_ref.stop();
        w2.thr[j].phase.store(PH_GONE, SeqCst);
        rtv::deinit_current_thread();
    });
    w.thr[j].tid.store(tid, SeqCst);
}

pub fn run_case(script: &Script, schedule: Schedule) -> RunResult {
    let sim = Sim::new(schedule, 30_000);
    let n = script.threads.len();
    let world = Arc::new_cyclic(|weak: &std::sync::Weak<World>| {
        let rt = Runtime::verif_minimal(Box::new(HarnessCollector { world: weak.clone() }));
        let barrier_objs = rt.threads.barrier.verif_objects();
        let rt_ptr = Box::into_raw(rt) as usize;
        World {
            script: script.clone(),
            sim: sim.clone(),
            rt: AtomicUsize::new(rt_ptr),
            thr: (0..n)
                .map(|_| Thr {
                    dora: Mutex::new(None),
                    ptr: AtomicUsize::new(0),
                    tid: AtomicUsize::new(usize::MAX),
                    mutating: AtomicBool::new(false),
                    phase: AtomicU8::new(PH_NONE),
                    opk: AtomicU8::new(OPK_NONE),
                    last_state: AtomicU8::new(0),
                    exited: AtomicBool::new(false),
                    joining: AtomicUsize::new(usize::MAX),
                })
                .collect(),
            window: Mutex::new(None),
            window_open: AtomicBool::new(false),
            collections_started: AtomicU64::new(0),
            collections_completed: AtomicU64::new(0),
            closure_yields: AtomicU8::new(0),
            classes: Mutex::new(BTreeSet::new()),
            overlap: AtomicBool::new(false),
            barrier_objs,
        }
    });
    let rt = world.rt();
    rtv::set_runtime(rt);
    {
        let (m, cw, cn) = world.barrier_objs;
        sim.name_object(m, "barrier.data");
        sim.name_object(cw, "barrier.cv_wakeup");
        sim.name_object(cn, "barrier.cv_notify");
        sim.name_object(rt.threads.threads.verif_object(), "threads.threads");
        sim.name_object(rt.threads.cv_join.verif_object(), "threads.cv_join");
    }
    let wm = world.clone();
    sim.set_monitor(Arc::new(move |_sim: &Sim, tid: Tid| wm.monitor(tid)));

    // main thread: transliteration of runtime::execute_on_main
    let w0 = world.clone();
    let tid0 = sim.spawn("T0", move || {
        MY_INDEX.with(|m| m.set(0));
        let rt = w0.rt();
        let thread = DoraThread::with_id(rt.threads.next_thread_id(), ThreadState::Running, Address::null());
        w0.thr[0].ptr.store(Arc::as_ptr(&thread) as usize, SeqCst);
        *w0.thr[0].dora.lock().unwrap() = Some(thread.clone());
        w0.thr[0].last_state.store(ThreadState::Running as u8, SeqCst);
        rtv::init_current_thread(thread.clone());
        rt.threads.add_main_thread(thread.clone());
        w0.thr[0].phase.store(PH_STARTED, SeqCst);
        exec_ops(&w0, 0, &thread);
        w0.thr[0].phase.store(PH_EXITING, SeqCst);
        rt.threads.remove_current_thread();
        w0.thr[0].exited.store(true, SeqCst);
        thread.stop();
        if w0.script.join_all {
            rt.threads.join_all();
        }
        w0.thr[0].phase.store(PH_GONE, SeqCst);
        rtv::deinit_current_thread();
    });
    world.thr[0].tid.store(tid0, SeqCst);

    let report = sim.run(Duration::from_secs(20));
    let mut end = report.end.clone();
    if matches!(end, SimEnd::Ok) {
        // final-state oracle
        let mut problems = vec![];
        let list = rt.threads.verif_threads_peek();
        if !list.is_empty() {
            problems.push(format!("thread list still has {} entries", list.len()));
        }
        let (armed, _) = rt.threads.barrier.verif_peek();
        if armed {
            problems.push("barrier is still armed".into());
        }
        if rt.state() != RuntimeState::Running {
            problems.push("runtime state is not Running".into());
        }
        for (j, t) in world.thr.iter().enumerate() {
            if t.phase.load(SeqCst) != PH_GONE {
                problems.push(format!("T{j} did not run to its end (phase {})", t.phase.load(SeqCst)));
            } else if world.state_of(j) != Some(ThreadState::Parked) {
                problems.push(format!("T{j} ended in state {:?}", world.state_of(j)));
            }
        }
        if !problems.is_empty() {
            end = SimEnd::Fail { key: "final-state".into(), msg: format!("after all threads finished:\n  {}", problems.join("\n  ")) };
        }
    }
    let classes: Vec<String> = world.classes.lock().unwrap().iter().map(|s| s.to_string()).collect();
    let nontrivial = world.overlap.load(SeqCst);
    let ok = matches!(end, SimEnd::Ok);
    if ok {
        rtv::clear_runtime();
        sim.set_monitor(Arc::new(|_: &Sim, _: Tid| {}));
        let rt_ptr = world.rt.swap(0, SeqCst);
        for t in world.thr.iter() {
            *t.dora.lock().unwrap() = None;
        }
        drop(world);
        unsafe { drop(Box::from_raw(rt_ptr as *mut Runtime)) };
    } else {
        // threads of the failed case are parked for good and still reference the world
        std::mem::forget(world);
    }
    RunResult { end, points: report.points, steps: report.steps, switches: report.switches, preemptions: report.preemptions, classes, nontrivial, trace: report.trace_tail }
}

pub const RULE: &str = "a case = one script per thread (2-4 threads, <=6 ops each over {poll, work, native(k), stw(k), gc, gc-forced, spawn, join}, plus exit at the end of each script and an optional join_all of the main thread) x one schedule; non-trivial = a schedule in which, while a stop-the-world/gc request of one thread was in progress, another started-and-unfinished thread took at least one step (i.e. the request overlapped another thread being between two of its operations); distinct by hash of (script, executed decision sequence). Classes: two-concurrent-requests, stw-vs-park-slow, stw-vs-unpark-slow, stw-vs-safepoint-poll, stw-vs-thread-start, stw-vs-thread-exit";

pub fn main(mode: Mode) -> i32 {
    let check = C04;
    match mode {
        Mode::Worker(_) => worker_main(&check),
        Mode::Replay(_, doc) => {
            let pool = Pool::new("C04", 60);
            let mut ctx = Ctx::new("C04", "quick");
            let p = SchedProp { check: &check, pool: &pool, name: doc["sub"].as_str().unwrap_or("random").to_string() };
            ctx.replay(&p, &doc)
        }
        Mode::Minimize(_, doc) => {
            let pool = Pool::new("C04", 60);
            let mut ctx = Ctx::new("C04", "quick");
            let p = SchedProp { check: &check, pool: &pool, name: "random".into() };
            ctx.minimize_stored(&p, &doc, 400)
        }
        Mode::Run(tier) => {
            let mut ctx = Ctx::new("C04", &tier);
            let pool = Pool::new("C04", 60);
            ctx.rule = RULE.into();
            ctx.assumptions = vec![
                "sequentially consistent interleavings only (Relaxed reorderings are not modelled)".into(),
                "the compiled safepoint poll and the thread start/exit sequences are a Rust transliteration (trusted)".into(),
                "liveness is checked as termination within 30000 scheduling steps under every explored schedule".into(),
                "parking_lot semantics modelled by the scheduler: no spurious wake-ups, barging on unlock, notify_one picks any waiter".into(),
            ];
            let p = SchedProp { check: &check, pool: &pool, name: "random".into() };
            ctx.run_regressions(&p);
            let scripts = small_scripts(ctx.thorough());
            let bound = if ctx.thorough() { 3 } else { 2 };
            let cap = ctx.n(150_000, 2_000_000) as u64;
            run_exhaustive(&mut ctx, &check, &pool, "exhaustive", &scripts, bound, cap);
            let n = ctx.n(60_000, 2_000_000);
            ctx.run_search(&p, n, 400, 300);
            for c in ["two-concurrent-requests", "stw-vs-park-slow", "stw-vs-unpark-slow", "stw-vs-safepoint-poll", "stw-vs-thread-start", "stw-vs-thread-exit"] {
                let total = ctx.classes.get(&format!("random/{c}")).copied().unwrap_or(0) + ctx.classes.get(&format!("exhaustive/{c}")).copied().unwrap_or(0);
                ctx.classes.insert(format!("all/{c}"), total);
                if ctx.violations.is_empty() {
                    ctx.require_class(&format!("all/{c}"));
                }
            }
            ctx.finish()
        }
    }
}
