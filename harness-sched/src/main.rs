//! vsched — deterministic-scheduler checks for C04, C12 and C09(b).
//! `vsched <C04|C12|C09> quick|thorough|--replay <file>` (cwd = /verif).

mod c04;
mod c09;
mod c12;
mod driver;
mod sched;

use vh::vcore::parse_mode_from;

fn main() {
    let args: Vec<String> = std::env::args().collect();
    if args.len() < 3 {
        eprintln!("usage: vsched <C04|C12|C09> quick|thorough|--replay <file>");
        std::process::exit(2);
    }
    let id = args[1].clone();
    let mode = parse_mode_from(&args[2..]);
    let rc = match id.as_str() {
        "C04" => c04::main(mode),
        "C12" => c12::main(mode),
        "C09" => c09::main(mode),
        _ => {
            eprintln!("unknown property {id}");
            2
        }
    };
    std::process::exit(rc);
}
