//! Sub-check "dora-assembler": the same-named methods of the assembler written in Dora
//! (pkgs/boots/assembler/arm64.dora, used by the optimizing compiler). A test module calling the
//! methods with the generated operands is appended to a scratch copy of pkgs/boots, compiled with
//! `dora compile --internal-compile-boots --cannon --test`, run, and the printed words are checked
//! against the same LLVM oracle and the same table of requested instructions.

use crate::enc::{self, Batch, Inst, RunResult};
use crate::llvm::{self, Block, Verdict};
use crate::ops::*;
use crate::table::{self, Kind, Ty};
use serde_json::{Value, json};
use std::collections::{BTreeMap, HashMap, HashSet};
use std::path::{Path, PathBuf};
use std::process::Command;
use std::sync::Mutex;
use std::sync::atomic::{AtomicU64, Ordering};
use vh::vcore::*;

pub const DORA_BIN: &str = "/verif/.build/target/release/dora";
pub const BOOTS_SRC: &str = "/repo/pkgs/boots";

pub fn available() -> Result<(), String> {
    if !Path::new(DORA_BIN).exists() {
        return Err(format!("{DORA_BIN} not built"));
    }
    if !Path::new("/verif/.build/target/release/dora-cannon-compiler").exists() {
        return Err("dora-cannon-compiler not built".into());
    }
    if !Path::new(BOOTS_SRC).join("assembler/arm64.dora").exists() {
        return Err("pkgs/boots/assembler/arm64.dora missing".into());
    }
    Ok(())
}

/// name -> parameter types of the public methods of the Dora `AssemblerArm64`
pub fn dora_signatures() -> Result<HashMap<String, Vec<String>>, String> {
    let src = std::fs::read_to_string(Path::new(BOOTS_SRC).join("assembler/arm64.dora")).map_err(|e| e.to_string())?;
    let start = src.find("impl AssemblerArm64 {").ok_or("impl AssemblerArm64 not found in arm64.dora")?;
    let body = &src[start..];
    let end = body.find("\n}\n").unwrap_or(body.len());
    let body = &body[..end];
    let mut out = HashMap::new();
    let mut rest = body;
    while let Some(p) = rest.find("\n    pub fn ") {
        rest = &rest[p + "\n    pub fn ".len()..];
        let Some(open) = rest.find('(') else { break };
        let name = rest[..open].trim().to_string();
        let Some(close) = rest[open..].find(')') else { break };
        let params = &rest[open + 1..open + close];
        let types: Vec<String> = params.split(',').filter_map(|p| p.split_once(':').map(|(_, t)| t.trim().to_string())).collect();
        out.insert(name, types);
    }
    if out.len() < 100 {
        return Err(format!("only {} methods parsed from arm64.dora", out.len()));
    }
    Ok(out)
}

fn compatible(row: &table::Row, types: &[String]) -> bool {
    if row.kinds.len() != types.len() {
        return false;
    }
    row.kinds.iter().zip(types.iter()).all(|(k, t)| match k {
        Kind::Reg { .. } => t == "Register",
        Kind::FReg { .. } => t == "FloatRegister",
        Kind::Shift { .. } => t == "Shift",
        Kind::Extend { .. } => t == "Extend",
        Kind::Cond => t == "Cond",
        Kind::Imm { .. } => t == "Int32" || t == "Int64",
    })
}

fn dora_operand(k: &Kind, o: Op, ty: &str) -> Option<String> {
    Some(match (k, o) {
        (Kind::Reg { .. }, Op::R(ZR)) => "REG_ZERO".into(),
        (Kind::Reg { .. }, Op::R(SP)) => "REG_SP".into(),
        (Kind::Reg { .. }, Op::R(n)) => format!("Register({n}u8)"),
        (Kind::FReg { .. }, Op::F(n)) => format!("FloatRegister({n}u8)"),
        (Kind::Shift { .. }, Op::Sh(n)) => format!("Shift::{}", SHIFT_NAMES[n as usize].to_uppercase()),
        (Kind::Extend { .. }, Op::Ext(n)) => format!("Extend::{}", EXT_NAMES[n as usize].to_uppercase()),
        (Kind::Cond, Op::C(n)) => format!("Cond::{}", COND_NAMES[n as usize].to_uppercase()),
        (Kind::Imm { ty: pty, spec, .. }, v) => {
            let val: i64 = match (pty, v) {
                (Ty::U64, Op::U(x)) => x as i64,
                (_, Op::I(x)) => x,
                (_, Op::U(x)) => x as i64,
                _ => return None,
            };
            if ty == "Int32" {
                // 32-bit patterns are passed as the Int32 with the same bits
                let as32 = if matches!(spec, table::ImmSpec::Logical { .. }) && (0..=u32::MAX as i64).contains(&val) { val as u32 as i32 as i64 } else { val };
                if as32 < i32::MIN as i64 || as32 > i32::MAX as i64 {
                    return None;
                }
                if as32 == i32::MIN as i64 { "(-2147483647i32 - 1i32)".into() } else { format!("{as32}i32") }
            } else if val == i64::MIN {
                "(-9223372036854775807i64 - 1i64)".into()
            } else {
                format!("{val}i64")
            }
        }
        _ => return None,
    })
}

/// Same name, different parameter convention: the Dora methods take byte offsets where the Rust
/// ones take the raw field (adrp_imm: page count, bl_imm: instruction count, stp/stp_pre/ldp_post: imm7).
fn adapt(row: &table::Row, ops: &[Op]) -> Option<Vec<Op>> {
    let mut ops = ops.to_vec();
    match row.name {
        "adrp_imm" => ops[1] = Op::I(ops[1].i() * 4096),
        "bl_imm" => ops[0] = Op::I(ops[0].i() * 4),
        _ => {}
    }
    if row.family == "ldst-pair" {
        let size = if row.name.ends_with("_w") { 4 } else { 8 };
        if let Kind::Imm { name: "imm7", .. } = row.kinds[3] {
            ops[3] = Op::I(ops[3].i() * size);
        }
        let writeback = row.name.contains("_post") || row.name.contains("_pre");
        if writeback && ops[3].i() == 0 {
            return None;
        }
    }
    Some(ops)
}

static COUNTER: AtomicU64 = AtomicU64::new(0);

struct Scratch(PathBuf);
impl Drop for Scratch {
    fn drop(&mut self) {
        let _ = std::fs::remove_dir_all(&self.0);
    }
}

fn copy_dir(from: &Path, to: &Path) -> std::io::Result<()> {
    std::fs::create_dir_all(to)?;
    for e in std::fs::read_dir(from)? {
        let e = e?;
        let p = e.path();
        let t = to.join(e.file_name());
        if p.is_dir() {
            copy_dir(&p, &t)?;
        } else {
            std::fs::copy(&p, &t)?;
        }
    }
    Ok(())
}

const CHUNK: usize = 200;

/// Compile and run the calls; returns idx -> words. `Err((Some(i), ..))`: call i made the test
/// binary stop (the Dora assembler refused it).
fn run_dora(calls: &[(usize, String)]) -> Result<HashMap<usize, Vec<u32>>, (Option<usize>, String)> {
    let n = COUNTER.fetch_add(1, Ordering::SeqCst);
    let dir = Scratch(llvm::scratch_root().join(format!("c08-dora-{}-{}", std::process::id(), n)));
    let boots = dir.0.join("boots");
    copy_dir(Path::new(BOOTS_SRC), &boots).map_err(|e| (None, format!("copy pkgs/boots: {e}")))?;
    let mut m = String::new();
    m.push_str("\nmod vasm_generated {\n    use package::assembler::{FloatRegister, Register};\n    use super::{AssemblerArm64, Cond, Extend, Shift};\n    use super::{REG_SP, REG_ZERO};\n\n");
    m.push_str("    fn dump(idx: Int64, asm: AssemblerArm64) {\n        let code = asm.finalize_testing();\n        let mut line = \"V ${idx}\";\n        let mut i = 0;\n        while i < code.bytes.size() {\n            line = \"${line} ${code.get_int32(i).to_string_hex()}\";\n            i = i + 4;\n        }\n        println(line);\n    }\n\n");
    // keep every import used
    m.push_str("    fn keep(): Int64 { let _a = REG_SP; let _b = REG_ZERO; let _c = Cond::EQ; let _d = Extend::UXTB; let _e = Shift::LSL; let _f = FloatRegister(0u8); let _g = Register(0u8); 0 }\n\n");
    let nchunks = calls.len().div_ceil(CHUNK);
    for c in 0..nchunks {
        m.push_str(&format!("    fn chunk{c}() {{\n"));
        for (idx, call) in &calls[c * CHUNK..((c + 1) * CHUNK).min(calls.len())] {
            m.push_str(&format!("        {{ let asm = AssemblerArm64::new(); asm.{call}; dump({idx}, asm); }}\n"));
        }
        m.push_str("    }\n\n");
    }
    m.push_str("    @Test\n    fn vasm_dump() {\n        println(\"VBEGIN ${keep()}\");\n");
    for c in 0..nchunks {
        m.push_str(&format!("        chunk{c}();\n"));
    }
    m.push_str("        println(\"VEND\");\n    }\n}\n");
    let asm_file = boots.join("assembler/arm64.dora");
    let mut src = std::fs::read_to_string(&asm_file).map_err(|e| (None, e.to_string()))?;
    src.push_str(&m);
    std::fs::write(&asm_file, src).map_err(|e| (None, e.to_string()))?;
    let exe = dir.0.join("boots-tests");
    let out = Command::new(DORA_BIN)
        .args(["compile", "--internal-compile-boots", "--cannon", "--test"])
        .arg(boots.join("boots.dora"))
        .arg("-o")
        .arg(&exe)
        .env_remove("DORA_FLAGS")
        .env("TMPDIR", &dir.0)
        .output()
        .map_err(|e| (None, format!("cannot run dora compile: {e}")))?;
    if !out.status.success() || !exe.exists() {
        let err = String::from_utf8_lossy(&out.stderr);
        let first: Vec<&str> = err.lines().filter(|l| l.starts_with("error") || l.starts_with("-->")).take(4).collect();
        return Err((None, format!("dora compile of the generated test module failed: {}", first.join(" | "))));
    }
    let out = Command::new(&exe).env_remove("DORA_FLAGS").output().map_err(|e| (None, format!("cannot run the generated test binary: {e}")))?;
    let stdout = String::from_utf8_lossy(&out.stdout);
    let mut words: HashMap<usize, Vec<u32>> = HashMap::new();
    let mut ended = false;
    let mut last: Option<usize> = None;
    for l in stdout.lines() {
        // the runner prints "test <name> ... " without a newline before our first line
        let l = match l.find("VBEGIN") {
            Some(p) => &l[p..],
            None => l,
        };
        if l.starts_with("VEND") {
            ended = true;
        }
        if let Some(rest) = l.strip_prefix("V ") {
            let mut it = rest.split_whitespace();
            let Some(idx) = it.next().and_then(|x| x.parse::<usize>().ok()) else { continue };
            let ws: Option<Vec<u32>> = it.map(|h| u32::from_str_radix(h, 16).ok()).collect();
            if let Some(ws) = ws {
                words.insert(idx, ws);
                last = Some(idx);
            }
        }
    }
    if !ended {
        // the call after the last printed one stopped the binary
        let pos = match last {
            Some(l) => calls.iter().position(|(i, _)| *i == l).map(|p| p + 1),
            None => Some(0),
        };
        let culprit = pos.and_then(|p| calls.get(p)).map(|(i, _)| *i);
        let err = String::from_utf8_lossy(&out.stderr);
        let msg: String = stdout.lines().chain(err.lines()).filter(|l| l.contains("assert") || l.contains("unreachable") || l.contains("unimplemented") || l.contains("vasm_generated")).take(3).collect::<Vec<_>>().join(" | ");
        return Err((culprit, format!("test binary stopped: {msg}")));
    }
    Ok(words)
}

#[derive(Default)]
pub struct DStats {
    pub compared: u64,
    pub nontrivial: HashSet<u64>,
    pub classes: BTreeMap<String, u64>,
    pub refused_by_dora: Vec<String>,
    pub not_comparable: BTreeMap<String, u64>,
    pub methods_compared: HashSet<&'static str>,
    pub harness_errors: Vec<String>,
}

type Prefetched = (u64, std::thread::JoinHandle<(Result<Vec<(usize, String, String)>, String>, DStats)>);

impl DStats {
    fn merge(&mut self, o: DStats) {
        self.compared += o.compared;
        self.nontrivial.extend(o.nontrivial);
        for (k, v) in o.classes {
            *self.classes.entry(k).or_insert(0) += v;
        }
        self.refused_by_dora.extend(o.refused_by_dora);
        for (k, v) in o.not_comparable {
            *self.not_comparable.entry(k).or_insert(0) += v;
        }
        self.methods_compared.extend(o.methods_compared);
        self.harness_errors.extend(o.harness_errors);
    }
}

pub struct DoraAsm {
    pub stats: Mutex<DStats>,
    pub known_keys: Vec<String>,
    /// the big deterministic batch is compiled and run on a thread of its own while the other
    /// sub-checks use the cores (`dora compile` is single-threaded)
    prefetched: Mutex<Option<Prefetched>>,
}

impl DoraAsm {
    pub fn new() -> DoraAsm {
        let known_keys = load_known_findings().into_iter().filter(|k| k.property == "C08" && k.status == "open").map(|k| k.key).collect();
        DoraAsm { stats: Mutex::new(DStats::default()), known_keys, prefetched: Mutex::new(None) }
    }
    pub fn prefetch(&self, insts: Vec<Inst>) {
        let h = hash64(&insts);
        let handle = std::thread::spawn(move || {
            let mut st = DStats::default();
            let r = eval_dora(&insts, &mut st);
            (r, st)
        });
        *self.prefetched.lock().unwrap() = Some((h, handle));
    }
    fn is_known(&self, key: &str) -> bool {
        self.known_keys.iter().any(|k| match k.strip_suffix('*') {
            Some(p) => key.starts_with(p),
            None => k == key,
        })
    }
}

/// Instances for the Dora run: the deterministic sweep (sampled for the two exhaustive families).
pub fn select(all: &[Inst], sample_big: u64, sample_all: u64) -> Vec<Inst> {
    all.iter()
        .filter(|i| {
            let fam = i.row().family;
            let h = hash64(*i);
            (h / 64) % sample_all == 0 && (!(fam == "logical-imm" || fam == "bitfield") || h % sample_big == 0)
        })
        .cloned()
        .collect()
}

pub fn eval_dora(insts: &[Inst], st: &mut DStats) -> Result<Vec<(usize, String, String)>, String> {
    let sigs = dora_signatures()?;
    let mut calls: Vec<(usize, String)> = vec![];
    for (i, inst) in insts.iter().enumerate() {
        let row = inst.row();
        if enc::illegal_class(row, &inst.ops).is_some() {
            *st.not_comparable.entry("unencodable operand (refusal is checked on the Rust assembler only: a Dora assert ends the test binary)".into()).or_insert(0) += 1;
            continue;
        }
        let Some(types) = sigs.get(row.name) else {
            *st.not_comparable.entry(format!("no method {} in arm64.dora", row.name)).or_insert(0) += 1;
            continue;
        };
        if !compatible(row, types) {
            *st.not_comparable.entry(format!("signature of {} differs", row.name)).or_insert(0) += 1;
            continue;
        }
        // only operands the Rust assembler accepts (same asserts are expected on the Dora side)
        if !matches!(enc::run_inst(inst), RunResult::Emitted(_)) {
            *st.not_comparable.entry("legal operand refused by the Rust assembler (tolerated over-refusal)".into()).or_insert(0) += 1;
            continue;
        }
        // known over-refusal of the Dora encoder: `imm - 1` overflows (trap) for the single-bit mask 1 << 63
        if row.name == "and_imm" && inst.ops[2].u64() == 1u64 << 63 {
            *st.not_comparable.entry("and_imm with 0x8000000000000000 (the Dora encoder traps on `imm - 1`: refusal, not a wrong encoding)".into()).or_insert(0) += 1;
            continue;
        }
        let Some(ops) = adapt(row, &inst.ops) else {
            *st.not_comparable.entry("pair instruction with writeback offset 0 (the Dora method asserts imm != 0)".into()).or_insert(0) += 1;
            continue;
        };
        let args: Option<Vec<String>> = row.kinds.iter().zip(ops.iter()).zip(types.iter()).map(|((k, o), t)| dora_operand(k, *o, t)).collect();
        match args {
            Some(a) => calls.push((i, format!("{}({})", row.name, a.join(", ")))),
            None => {
                *st.not_comparable.entry("operand not representable in the Dora parameter type".into()).or_insert(0) += 1;
            }
        }
    }
    let mut fails: Vec<(usize, String, String)> = vec![];
    let mut attempts = 0;
    let mut refused_methods: Vec<&'static str> = vec![];
    let words = loop {
        attempts += 1;
        match run_dora(&calls) {
            Ok(w) => break w,
            Err((Some(culprit), msg)) if attempts <= 10 => {
                let inst = &insts[culprit];
                // accepted by the Rust assembler, refused by the Dora one: an over-refusal, not a wrong encoding
                let before = calls.len();
                let times = refused_methods.iter().filter(|m| **m == inst.m).count();
                refused_methods.push(inst.m);
                if times >= 2 {
                    // third refusal within one method: leave the rest of that method out
                    calls.retain(|(i, _)| insts[*i].m != inst.m);
                } else {
                    // a refusal usually depends on the immediates: drop the instances of the method that share them
                    let imms = |x: &Inst| -> Vec<Op> { x.ops.iter().copied().filter(|o| matches!(o, Op::I(_) | Op::U(_))).collect() };
                    let key = imms(inst);
                    calls.retain(|(i, _)| *i != culprit && !(insts[*i].m == inst.m && !key.is_empty() && imms(&insts[*i]) == key));
                }
                st.refused_by_dora.push(format!("{} ({} instance(s) left out): {}", inst.call_text(), before - calls.len(), msg.chars().take(160).collect::<String>()));
            }
            Err((_, msg)) => return Err(msg),
        }
    };
    let mut blocks = vec![];
    let mut owner = vec![];
    for (i, _) in &calls {
        let inst = &insts[*i];
        let Some(w) = words.get(i) else {
            return Err(format!("no output line for {}", inst.call_text()));
        };
        blocks.push(Block { words: w.clone(), alts: (inst.row().expect)(&inst.ops) });
        owner.push(*i);
    }
    let vs = llvm::check_blocks(&blocks).map_err(|e| e.to_string())?;
    for (bi, v) in vs.into_iter().enumerate() {
        let inst = &insts[owner[bi]];
        st.compared += 1;
        st.methods_compared.insert(inst.m);
        match v {
            Verdict::Match => {
                *st.classes.entry("dora-encoded/decodes-to-request".into()).or_insert(0) += 1;
                if enc::nontrivial(inst.row(), &inst.ops, false) {
                    st.nontrivial.insert(hash64(inst) ^ 0x646f_7261);
                }
            }
            Verdict::Mismatch { class, detail, .. } => {
                st.nontrivial.insert(hash64(inst) ^ 0x646f_7261);
                fails.push((owner[bi], format!("dora-asm:{}:{}", inst.m, class), format!("Dora assembler, {}: {}", inst.call_text(), detail)));
            }
        }
    }
    Ok(fails)
}

impl Prop for DoraAsm {
    type Case = Batch;
    fn name(&self) -> &str {
        "dora-assembler"
    }
    fn generate(&self, c: &mut Choices) -> Batch {
        let rows = table::rows();
        let mut insts = vec![];
        while insts.len() < 4000 && (!c.exhausted() || insts.is_empty()) {
            let row = &rows[c.below(rows.len())];
            insts.push(enc::gen_inst(c, row));
        }
        Batch { insts }
    }
    fn eval(&self, case: &Batch) -> Outcome {
        let h = hash64(&case.insts);
        let pre = {
            let mut p = self.prefetched.lock().unwrap();
            if p.as_ref().map(|(ph, _)| *ph == h).unwrap_or(false) { p.take() } else { None }
        };
        let mut st = self.stats.lock().unwrap();
        let result = match pre {
            Some((_, handle)) => match handle.join() {
                Ok((r, pst)) => {
                    st.merge(pst);
                    r
                }
                Err(_) => Err("the Dora assembler thread panicked".to_string()),
            },
            None => eval_dora(&case.insts, &mut st),
        };
        match result {
            Err(e) => {
                st.harness_errors.push(e.clone());
                Outcome { inconclusive: Some(e), hash: h, ..Default::default() }
            }
            Ok(fails) => {
                let mut new = None;
                let mut known = None;
                for (_, k, m) in fails {
                    if self.is_known(&k) {
                        *st.classes.entry(format!("known-finding/{k}")).or_insert(0) += 1;
                        known.get_or_insert((k, m));
                    } else {
                        new.get_or_insert((k, m));
                    }
                }
                match new.or(known) {
                    Some((k, m)) => Outcome::fail(h, k, m),
                    None => Outcome::pass(h, false),
                }
            }
        }
    }
    fn render(&self, case: &Batch) -> Value {
        json!({"insts": case.insts.iter().map(|i| i.to_json()).collect::<Vec<_>>()})
    }
    fn from_rendered(&self, v: &Value) -> Option<Batch> {
        let insts: Option<Vec<Inst>> = v["insts"].as_array()?.iter().map(Inst::from_json).collect();
        Some(Batch { insts: insts? })
    }
    fn minimize(&self, case: &Batch, fails: &dyn Fn(&Batch) -> bool) -> Option<Batch> {
        let mut st = DStats::default();
        let f = eval_dora(&case.insts, &mut st).ok()?;
        // one compile per candidate: try at most a few
        for (i, _, _) in f.into_iter().take(4) {
            let b = Batch { insts: vec![case.insts[i].clone()] };
            if fails(&b) {
                return Some(b);
            }
        }
        None
    }
}
