//! Operand values of one assembler call and their JSON rendering.

use dora_asm::arm64::{Cond, Extend, NeonRegister, REG_SP, REG_ZERO, Register, Shift};
use serde_json::{Value, json};

pub const ZR: u8 = 31;
pub const SP: u8 = 32;

#[derive(Clone, Copy, Debug, PartialEq, Eq, Hash)]
pub enum Op {
    /// general register: 0..=30 plain, 31 = REG_ZERO, 32 = REG_SP
    R(u8),
    /// fp/simd register 0..=31
    F(u8),
    /// signed immediate / offset / amount
    I(i64),
    /// unsigned 64-bit immediate (logical immediates)
    U(u64),
    /// Shift: 0 LSL, 1 LSR, 2 ASR, 3 ROR
    Sh(u8),
    /// Extend: index into EXT_NAMES
    Ext(u8),
    /// Cond: index into COND_NAMES (the 16 enum variants incl. the HS/LO synonyms)
    C(u8),
}

pub const SHIFT_NAMES: [&str; 4] = ["lsl", "lsr", "asr", "ror"];
pub const EXT_NAMES: [&str; 9] = ["uxtb", "uxth", "lsl", "uxtw", "uxtx", "sxtb", "sxth", "sxtw", "sxtx"];
/// enum variant names of `Cond` in declaration order
pub const COND_NAMES: [&str; 16] = ["eq", "ne", "cs", "hs", "cc", "lo", "mi", "pl", "vs", "vc", "hi", "ls", "ge", "lt", "gt", "le"];

/// architectural condition number of a `Cond` variant (written independently of `Cond::u32`)
pub fn cond_number(idx: u8) -> u32 {
    match COND_NAMES[idx as usize] {
        "eq" => 0,
        "ne" => 1,
        "cs" | "hs" => 2,
        "cc" | "lo" => 3,
        "mi" => 4,
        "pl" => 5,
        "vs" => 6,
        "vc" => 7,
        "hi" => 8,
        "ls" => 9,
        "ge" => 10,
        "lt" => 11,
        "gt" => 12,
        "le" => 13,
        _ => unreachable!(),
    }
}

/// canonical spelling of the architectural condition number (as LLVM prints it)
pub fn cond_text(num: u32) -> &'static str {
    ["eq", "ne", "hs", "lo", "mi", "pl", "vs", "vc", "hi", "ls", "ge", "lt", "gt", "le", "al", "nv"][num as usize]
}

impl Op {
    pub fn r(self) -> Register {
        match self {
            Op::R(n) if n <= 30 => Register::new(n),
            Op::R(ZR) => REG_ZERO,
            Op::R(SP) => REG_SP,
            _ => panic!("harness: operand {:?} is not a register", self),
        }
    }
    pub fn f(self) -> NeonRegister {
        match self {
            Op::F(n) => NeonRegister::new(n),
            _ => panic!("harness: operand {:?} is not an fp register", self),
        }
    }
    pub fn rnum(self) -> u8 {
        match self {
            Op::R(n) | Op::F(n) => n,
            _ => panic!("harness: operand {:?} is not a register", self),
        }
    }
    pub fn i(self) -> i64 {
        match self {
            Op::I(v) => v,
            Op::U(v) => v as i64,
            _ => panic!("harness: operand {:?} is not an immediate", self),
        }
    }
    pub fn u32(self) -> u32 {
        self.i() as u32
    }
    pub fn i32(self) -> i32 {
        self.i() as i32
    }
    pub fn u64(self) -> u64 {
        match self {
            Op::U(v) => v,
            Op::I(v) => v as u64,
            _ => panic!("harness: operand {:?} is not an immediate", self),
        }
    }
    pub fn sh(self) -> Shift {
        match self {
            Op::Sh(0) => Shift::LSL,
            Op::Sh(1) => Shift::LSR,
            Op::Sh(2) => Shift::ASR,
            Op::Sh(3) => Shift::ROR,
            _ => panic!("harness: operand {:?} is not a shift", self),
        }
    }
    pub fn shn(self) -> u8 {
        match self {
            Op::Sh(n) => n,
            _ => panic!("harness: operand {:?} is not a shift", self),
        }
    }
    pub fn ext(self) -> Extend {
        match self {
            Op::Ext(0) => Extend::UXTB,
            Op::Ext(1) => Extend::UXTH,
            Op::Ext(2) => Extend::LSL,
            Op::Ext(3) => Extend::UXTW,
            Op::Ext(4) => Extend::UXTX,
            Op::Ext(5) => Extend::SXTB,
            Op::Ext(6) => Extend::SXTH,
            Op::Ext(7) => Extend::SXTW,
            Op::Ext(8) => Extend::SXTX,
            _ => panic!("harness: operand {:?} is not an extend", self),
        }
    }
    pub fn extn(self) -> u8 {
        match self {
            Op::Ext(n) => n,
            _ => panic!("harness: operand {:?} is not an extend", self),
        }
    }
    pub fn cond(self) -> Cond {
        match self {
            Op::C(0) => Cond::EQ,
            Op::C(1) => Cond::NE,
            Op::C(2) => Cond::CS,
            Op::C(3) => Cond::HS,
            Op::C(4) => Cond::CC,
            Op::C(5) => Cond::LO,
            Op::C(6) => Cond::MI,
            Op::C(7) => Cond::PL,
            Op::C(8) => Cond::VS,
            Op::C(9) => Cond::VC,
            Op::C(10) => Cond::HI,
            Op::C(11) => Cond::LS,
            Op::C(12) => Cond::GE,
            Op::C(13) => Cond::LT,
            Op::C(14) => Cond::GT,
            Op::C(15) => Cond::LE,
            _ => panic!("harness: operand {:?} is not a condition", self),
        }
    }
    pub fn condn(self) -> u8 {
        match self {
            Op::C(n) => n,
            _ => panic!("harness: operand {:?} is not a condition", self),
        }
    }

    pub fn to_json(self) -> Value {
        match self {
            Op::R(ZR) => json!("zr"),
            Op::R(SP) => json!("sp"),
            Op::R(n) => json!(format!("r{n}")),
            Op::F(n) => json!(format!("f{n}")),
            Op::I(v) => json!(v),
            Op::U(v) => json!(format!("{v:#x}")),
            Op::Sh(n) => json!(SHIFT_NAMES[n as usize]),
            Op::Ext(n) => json!(format!("ext:{}", EXT_NAMES[n as usize])),
            Op::C(n) => json!(format!("cond:{}", COND_NAMES[n as usize])),
        }
    }

    pub fn from_json(v: &Value) -> Option<Op> {
        if let Some(i) = v.as_i64() {
            return Some(Op::I(i));
        }
        let s = v.as_str()?;
        if s == "zr" {
            return Some(Op::R(ZR));
        }
        if s == "sp" {
            return Some(Op::R(SP));
        }
        if let Some(h) = s.strip_prefix("0x") {
            return u64::from_str_radix(h, 16).ok().map(Op::U);
        }
        if let Some(e) = s.strip_prefix("ext:") {
            return EXT_NAMES.iter().position(|x| *x == e).map(|i| Op::Ext(i as u8));
        }
        if let Some(e) = s.strip_prefix("cond:") {
            return COND_NAMES.iter().position(|x| *x == e).map(|i| Op::C(i as u8));
        }
        if let Some(i) = SHIFT_NAMES.iter().position(|x| *x == s) {
            return Some(Op::Sh(i as u8));
        }
        if let Some(n) = s.strip_prefix('r') {
            return n.parse::<u8>().ok().filter(|n| *n <= 30).map(Op::R);
        }
        if let Some(n) = s.strip_prefix('f') {
            return n.parse::<u8>().ok().filter(|n| *n <= 31).map(Op::F);
        }
        None
    }
}

/// Text of a general register at a position where number 31 means `zr` (z=true) or `sp`.
/// Returns None when the requested register does not exist at such a position
/// (REG_SP where 31 is the zero register, or REG_ZERO where 31 is the stack pointer).
pub fn greg(op: Op, is64: bool, at31_is_zr: bool) -> Option<String> {
    let n = op.rnum();
    let p = if is64 { "x" } else { "w" };
    match n {
        0..=30 => Some(format!("{p}{n}")),
        ZR if at31_is_zr => Some(format!("{p}zr")),
        SP if !at31_is_zr => Some(if is64 { "sp".to_string() } else { "wsp".to_string() }),
        _ => None,
    }
}
