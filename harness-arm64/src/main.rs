//! vasmarm — property C08: every AArch64 instruction is encoded as the instruction that was requested.
//!
//! `vasmarm quick|thorough|--replay <file>`  (cwd = /verif)

mod dora;
mod enc;
mod labels;
mod llvm;
mod ops;
mod preds;
mod table;

use enc::{Batch, Encoding, Inst};
use labels::{Labels, PBatch};
use serde_json::{Value, json};
use std::collections::BTreeSet;
use vh::vcore::*;

const RULE: &str = "an instance is one call of a public AssemblerArm64 method with concrete operands (sub-check encoding) or one reference to a label inside a generated program (sub-check labels). \
Operands: every register value R0..R30, REG_ZERO, REG_SP at every register position (requested sp where 31 means zr, or the reverse, must be refused), all shift/extend/condition values, \
immediates/offsets/amounts from boundary lists (both range ends, one step inside/outside, misaligned, field-width aliases) and random legal/illegal values, every valid 32- and 64-bit logical \
immediate, every bit-field position pair; label references at distances straddling the imm14/imm19/imm21/imm26 limits in both directions incl. the two-instruction far fallbacks. \
Oracle: LLVM 14 (llvm-mc assembles the requested instruction text, llvm-objdump decodes both it and the emitted words; texts must agree, pc-relative targets compared as offsets). \
non-trivial = an instance with a register number >= 16 (incl. zr/sp), or an immediate/offset/branch distance within one step of a range end, or a refusal case; distinct by content hash of (method, operands) resp. (branch, distance)";

fn chunk<T: Clone>(v: &[T], n: usize) -> Vec<Vec<T>> {
    v.chunks(n).map(|c| c.to_vec()).collect()
}

fn hard(ctx: &mut Ctx, msg: String) {
    ctx.inconclusive.push(msg.clone());
    ctx.extra.insert("hard_inconclusive".into(), json!(msg));
}

/// Every expected text of the table (two base assignments per row) must assemble.
fn table_self_check() -> Result<usize, String> {
    let mut blocks = vec![];
    let mut n = 0;
    for row in table::rows() {
        for variant in 0..2 {
            let ops = enc::base_ops(row, variant);
            if enc::illegal_class(row, &ops).is_some() {
                return Err(format!("table bug: base operands of {} are classified illegal: {:?}", row.name, ops));
            }
            let alts = (row.expect)(&ops);
            if alts.is_empty() {
                return Err(format!("table bug: no expected text for {}", row.name));
            }
            n += alts.len();
            blocks.push(llvm::Block { words: vec![], alts });
        }
    }
    match llvm::check_blocks(&blocks) {
        Ok(_) => Ok(n),
        Err(e) => Err(format!("table self-check: {e}")),
    }
}

fn run(tier: String) -> i32 {
    let mut ctx = Ctx::new("C08", &tier);
    enc::install_fast_hook();
    start_watchdog(1500, "C08");
    ctx.rule = RULE.into();
    ctx.assumptions = vec![
        "LLVM 14's AArch64 assembler and disassembler are correct for the instructions involved (both directions are used: text->word and word->text)".into(),
        "a refusal is observed as a panic of the assembler call (assert/unwrap/unreachable); dora-asm is built like the shipped toolchain (release: overflow checks off)".into(),
        "legal operands that the assembler's own asserts exclude (zero register in some positions, extend amount 4, 64-bit logical shift amounts >= 32) may be refused; this is recorded, not reported (list: coverage.tolerated_refusals_of_legal_operands)".into(),
        "CONSTRAINED UNPREDICTABLE register overlaps (ldp Rt==Rt2, writeback base in transfer list, exclusive status==source) and reserved SIMD size/Q combinations are not generated".into(),
    ];

    if let Err(e) = llvm::tools() {
        hard(&mut ctx, e);
        return ctx.finish();
    }

    // ---- method coverage
    let table_names: BTreeSet<String> = table::rows().iter().map(|r| r.name.to_string()).collect();
    match table::source_methods() {
        Ok(src) => {
            let src_set: BTreeSet<String> = src.iter().cloned().collect();
            let instr: Vec<&String> = src_set.iter().filter(|m| !table::INFRASTRUCTURE.contains(&m.as_str())).collect();
            let covered: Vec<&String> = instr.iter().copied().filter(|m| table_names.contains(*m) || table::LABEL_METHODS.contains(&m.as_str())).collect();
            let uncovered: Vec<&String> = instr.iter().copied().filter(|m| !(table_names.contains(*m) || table::LABEL_METHODS.contains(&m.as_str()))).collect();
            let stale: Vec<&String> = table_names.iter().filter(|m| !src_set.contains(*m)).collect();
            ctx.extra.insert("instruction_methods_in_source".into(), json!(instr.len()));
            ctx.extra.insert("instruction_methods_covered".into(), json!(covered.len()));
            ctx.extra.insert("uncovered_methods".into(), json!(uncovered));
            ctx.extra.insert("non_instruction_api".into(), json!(table::INFRASTRUCTURE));
            if !stale.is_empty() {
                hard(&mut ctx, format!("table rows without a method in the source: {stale:?}"));
            }
        }
        Err(e) => hard(&mut ctx, e),
    }

    // ---- table self-check
    match table_self_check() {
        Ok(n) => {
            ctx.extra.insert("table_self_check_texts_assembled".into(), json!(n));
        }
        Err(e) => {
            hard(&mut ctx, e);
            return ctx.finish();
        }
    }

    // ---- the assembler written in Dora (same-named methods, same oracle): started first, on its own thread
    let dp = dora::DoraAsm::new();
    let dora_sel: Option<Vec<Inst>> = match dora::available() {
        Ok(()) => {
            let mut sel = if ctx.thorough() { dora::select(&enc::sweep(), 2, 1) } else { dora::select(&enc::sweep(), 6, 5) };
            // the reproducers of the open findings of this sub-check ride along in the same compilation
            // (one `dora compile` per reproducer would dominate the quick tier)
            for k in load_known_findings() {
                if k.property == "C08" && k.status == "open" && k.sub == "dora-assembler" {
                    if let Some(b) = dp.from_rendered(&k.reproducer) {
                        sel.extend(b.insts);
                    }
                }
            }
            dp.prefetch(sel.clone());
            Some(sel)
        }
        Err(e) => {
            ctx.extra.insert("dora_assembler_subcheck".into(), json!(format!("skipped: {e}")));
            None
        }
    };

    // ---- encoding
    let batch = 2500usize;
    let ep = Encoding::new(batch);
    ctx.run_regressions(&ep);
    ctx.run_known_reproducers(&ep);
    let sweep = enc::sweep();
    ctx.extra.insert("sweep_instances".into(), json!(sweep.len()));
    ctx.run_enum(&ep, chunk(&sweep, 3000).into_iter().map(|insts| Batch { insts }).collect());
    drop(sweep);
    let cases = ctx.n(40, 40 * 60);
    // a generated instance consumes about 8 choices
    ctx.run_search(&ep, cases, batch * 9, 0);

    // ---- labels
    let lp = Labels::new(48);
    ctx.run_regressions(&lp);
    ctx.run_known_reproducers(&lp);
    ctx.run_enum(&lp, chunk(&labels::directed_set(), 24).into_iter().map(|progs| PBatch { progs }).collect());
    ctx.run_enum(&lp, labels::directed_set_far(ctx.thorough()).into_iter().map(|p| PBatch { progs: vec![p] }).collect());
    let cases = ctx.n(32, 32 * 40);
    ctx.run_search(&lp, cases, 48 * 60, 0);

    // ---- helper predicates
    preds::run(&mut ctx);

    // ---- the assembler written in Dora: results of the thread started above
    if let Some(sel) = dora_sel {
        ctx.run_regressions(&dp);
        ctx.run_enum(&dp, vec![Batch { insts: sel }]);
        if ctx.thorough() {
            ctx.run_search(&dp, 6, 4000 * 9, 0);
        }
    }

    // ---- evidence: count instances, not batches
    let batches = ctx.evaluations;
    let es = ep.stats.lock().unwrap();
    let ls = lp.stats.lock().unwrap();
    let ds = dp.stats.lock().unwrap();
    let pred_evals = ctx.extra.get("predicate_evaluations").and_then(|v| v.as_u64()).unwrap_or(0);
    ctx.evaluations = es.instances + ls.sites + pred_evals + ds.compared;
    ctx.extra.insert("llvm_batches".into(), json!(batches));
    ctx.extra.insert("encoding_instances".into(), json!(es.instances));
    ctx.extra.insert("label_reference_instances".into(), json!(ls.sites));
    ctx.extra.insert("label_programs".into(), json!(ls.programs));
    ctx.nontrivial.clear();
    ctx.nontrivial.extend(es.nontrivial.iter().copied());
    ctx.nontrivial.extend(ls.nontrivial.iter().copied());
    for (k, v) in &es.classes {
        *ctx.classes.entry(format!("encoding/{k}")).or_insert(0) += v;
    }
    for (k, v) in &ls.classes {
        *ctx.classes.entry(format!("labels/{k}")).or_insert(0) += v;
    }
    for (k, v) in &ds.classes {
        *ctx.classes.entry(format!("dora-assembler/{k}")).or_insert(0) += v;
    }
    ctx.nontrivial.extend(ds.nontrivial.iter().copied());
    // a batch reports one failure to the engine; the per-instance counts of known findings are exact
    for classes in [&es.classes, &ls.classes, &ds.classes] {
        for (c, n) in classes.iter() {
            if let Some(key) = c.strip_prefix("known-finding/") {
                if let Some(k) = ctx.known.iter().find(|k| k.property == "C08" && k.status == "open" && (k.key == key || k.key.strip_suffix('*').map(|p| key.starts_with(p)).unwrap_or(false))) {
                    let label = format!("{} [{}]", k.what, k.key);
                    ctx.known_hit.insert(label, *n);
                }
            }
        }
    }
    if ds.compared > 0 || !ds.harness_errors.is_empty() {
        let mut mc: Vec<&&str> = ds.methods_compared.iter().collect();
        mc.sort();
        ctx.extra.insert(
            "dora_assembler_subcheck".into(),
            json!({
                "instances_compared": ds.compared,
                "methods_compared": mc.len(),
                "not_comparable": ds.not_comparable,
                "accepted_by_rust_but_refused_by_dora": ds.refused_by_dora,
            }),
        );
    }
    ctx.samples = es.samples.clone();
    let never_accepted: Vec<&str> = table::rows().iter().map(|r| r.name).filter(|m| es.per_method.get(m).map(|c| c.1 == 0).unwrap_or(true)).collect();
    let known: Vec<&String> = ep.known_keys.iter().collect();
    // a method all of whose accepted instances mismatch is either a known finding or already a violation
    let unexplained: Vec<&&str> = never_accepted.iter().filter(|m| !known.iter().any(|k| k.contains(&format!(":{}:", m)))).collect();
    ctx.extra.insert("methods_without_a_matching_instance".into(), json!(never_accepted));
    if !unexplained.is_empty() && ctx.violations.is_empty() {
        hard(&mut ctx, format!("no instance of {unexplained:?} was accepted and decoded to the request"));
    }
    ctx.extra.insert("per_method_instances".into(), json!(es.per_method.iter().map(|(k, v)| (k.to_string(), json!([v.0, v.1]))).collect::<serde_json::Map<String, Value>>()));
    ctx.extra.insert("tolerated_refusals_of_legal_operands".into(), json!(enc::TOLERATED_REFUSALS.lines().collect::<Vec<_>>()));
    let herr: Vec<String> = es.harness_errors.iter().chain(ls.harness_errors.iter()).chain(ds.harness_errors.iter()).cloned().collect();
    drop(es);
    drop(ls);
    drop(ds);
    if let Some(e) = herr.first() {
        hard(&mut ctx, format!("harness/tool trouble in {} batch(es), first: {e}", herr.len()));
    }
    ctx.require_class("encoding/encoded/decodes-to-request");
    ctx.require_class("encoding/refusal/unencodable-operand-refused");
    ctx.require_class("encoding/encoded/multi-instruction-sequence");
    ctx.require_class("labels/branch/reaches-bound-position");
    ctx.require_class("labels/branch/far-fallback-pair");
    ctx.require_class("labels/branch/at-range-boundary");
    ctx.require_class("labels/refusal/unreachable-target-refused");
    ctx.finish()
}

fn replay(doc: &Value) -> i32 {
    let mut ctx = Ctx::new("C08", "quick");
    enc::install_fast_hook();
    if let Err(e) = llvm::tools() {
        println!("INCONCLUSIVE property=C08 {e}");
        return 2;
    }
    match doc["sub"].as_str() {
        Some("labels") => ctx.replay(&Labels::new(48), doc),
        Some("dora-assembler") => match dora::available() {
            Ok(()) => ctx.replay(&dora::DoraAsm::new(), doc),
            Err(e) => {
                println!("INCONCLUSIVE property=C08 {e}");
                2
            }
        },
        Some("predicates") => {
            // predicates are deterministic and cheap: re-run the whole comparison in strict mode
            ctx.strict = true;
            preds::run(&mut ctx);
            if ctx.violations.is_empty() {
                println!("replay: property held on the stored case");
                0
            } else {
                1
            }
        }
        _ => ctx.replay(&Encoding::new(2500), doc),
    }
}

fn main() {
    let args: Vec<String> = std::env::args().skip(1).collect();
    match args.first().map(|s| s.as_str()) {
        Some("--probe-refusals") => {
            enc::install_fast_hook();
            enc::probe_refusals();
            return;
        }
        Some("--list") => {
            for row in table::rows() {
                for v in 0..2 {
                    let i = Inst { m: row.name, ops: enc::base_ops(row, v) };
                    println!("{:<20} {:<60} {}", row.family, i.call_text(), enc::expect_text(&i));
                }
            }
            return;
        }
        Some("--keys") => {
            // developer aid: all distinct failure keys of the deterministic part, with one instance each
            use rayon::prelude::*;
            enc::install_fast_hook();
            let sweep = enc::sweep();
            let res: Vec<(String, String, Value)> = chunk(&sweep, 3000)
                .par_iter()
                .flat_map(|insts| {
                    let vs = enc::eval_insts(insts).expect("eval");
                    insts.iter().zip(vs).filter_map(|(i, v)| v.fail.map(|f| (f.0, f.1, i.to_json()))).collect::<Vec<_>>()
                })
                .collect();
            let mut seen: std::collections::BTreeMap<String, (usize, String, Value)> = Default::default();
            for (k, m, j) in res {
                let e = seen.entry(k).or_insert((0, m, j));
                e.0 += 1;
            }
            for (k, (n, m, j)) in &seen {
                println!("{k}\t{n}\t{m}\t{j}");
            }
            let progs: Vec<labels::Prog> = labels::directed_set();
            let mut lseen: std::collections::BTreeMap<String, (usize, String, Value)> = Default::default();
            for c in chunk(&progs, 24) {
                let vs = labels::eval_progs(&c).expect("eval");
                for v in vs {
                    if let Some(f) = v.fail {
                        let e = lseen.entry(f.0).or_insert((0, f.1, labels::prog_json(&c[v.prog])));
                        e.0 += 1;
                    }
                }
            }
            for (k, (n, m, j)) in &lseen {
                println!("{k}\t{n}\t{m}\t{j}");
            }
            return;
        }
        Some("--dora") => {
            // developer aid: only the Dora assembler comparison, all failures listed
            enc::install_fast_hook();
            let div: u64 = args.get(1).and_then(|s| s.parse().ok()).unwrap_or(6);
            let div_all: u64 = args.get(2).and_then(|s| s.parse().ok()).unwrap_or(5);
            let sel = dora::select(&enc::sweep(), div, div_all);
            println!("{} instances selected", sel.len());
            let mut st = dora::DStats::default();
            let t0 = std::time::Instant::now();
            match dora::eval_dora(&sel, &mut st) {
                Ok(f) => {
                    let mut keys: std::collections::BTreeMap<String, (usize, String)> = Default::default();
                    for (_, k, m) in f {
                        let e = keys.entry(k).or_insert((0, m));
                        e.0 += 1;
                    }
                    for (k, (n, m)) in keys {
                        println!("{k}\t{n}\t{m}");
                    }
                }
                Err(e) => println!("ERROR {e}"),
            }
            println!("compared {} methods {} in {:.1}s; not comparable: {:#?}; refused by dora: {:#?}", st.compared, st.methods_compared.len(), t0.elapsed().as_secs_f64(), st.not_comparable, st.refused_by_dora);
            return;
        }
        Some("--call") => {
            // developer aid: --call '<json instance>' evaluates one instance
            enc::install_fast_hook();
            let v: Value = serde_json::from_str(&args[1]).expect("json");
            let inst = Inst::from_json(&v).expect("instance");
            println!("{} => requested {}", inst.call_text(), enc::expect_text(&inst));
            println!("{:?}", enc::eval_insts(&[inst]));
            return;
        }
        _ => {}
    }
    let code = match parse_mode_from(&args) {
        Mode::Run(tier) => run(tier),
        Mode::Replay(_, doc) => replay(&doc),
        Mode::Minimize(..) | Mode::Worker(_) => {
            println!("INCONCLUSIVE property=C08 mode not supported");
            2
        }
    };
    std::process::exit(code);
}
