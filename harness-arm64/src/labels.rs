//! Sub-check "labels": short programs with forward and backward branches to labels at distances
//! that straddle every range boundary, including the two-instruction far fallbacks. The decoded
//! branch (or fallback pair) must reach exactly the position the label was bound to.

use crate::enc::try_call;
use crate::llvm::{self, Block, ToolError, Verdict};
use crate::ops::*;
use crate::table::{Alt, Elem};
use dora_asm::Label;
use dora_asm::arm64::{AssemblerArm64 as Asm, Register};
use serde_json::{Value, json};
use std::collections::{BTreeMap, HashSet};
use std::sync::Mutex;
use vh::vcore::*;

#[derive(Clone, Copy, Debug, PartialEq, Eq, Hash)]
pub enum Br {
    B,
    Bc { cond: u8 },
    Cbz { sf: bool, nz: bool, reg: u8 },
    Tbz { nz: bool, reg: u8, bit: u32 },
    Adr { reg: u8 },
}

impl Br {
    pub fn method(&self) -> &'static str {
        match self {
            Br::B => "b",
            Br::Bc { .. } => "bc",
            Br::Cbz { sf: true, nz: false, .. } => "cbz",
            Br::Cbz { sf: false, nz: false, .. } => "cbz_w",
            Br::Cbz { sf: true, nz: true, .. } => "cbnz",
            Br::Cbz { sf: false, nz: true, .. } => "cbnz_w",
            Br::Tbz { nz: false, .. } => "tbz",
            Br::Tbz { nz: true, .. } => "tbnz",
            Br::Adr { .. } => "adr_label",
        }
    }
    /// words reserved for a reference to a not yet bound label
    fn forward_slot(&self) -> i64 {
        match self {
            Br::Cbz { .. } | Br::Tbz { .. } => 2,
            _ => 1,
        }
    }
}

#[derive(Clone, Copy, Debug, PartialEq, Eq, Hash)]
pub enum Item {
    Bind(usize),
    Gap(u32),
    Branch(Br, usize),
}

#[derive(Clone, Debug, PartialEq, Eq, Hash)]
pub struct Prog {
    pub nlabels: usize,
    pub items: Vec<Item>,
}

fn fits_signed(v: i64, bits: u32) -> bool {
    v >= -(1i64 << (bits - 1)) && v < (1i64 << (bits - 1))
}

fn treg(reg: u8, sf: bool) -> String {
    format!("{}{}", if sf { "x" } else { "w" }, reg)
}

/// Acceptable instruction sequences for a reference whose target lies `d` bytes after the site.
/// Empty = the branch cannot be expressed and the assembler must refuse.
pub fn expected(br: &Br, d: i64) -> Vec<Alt> {
    let t = |s: String| Elem::Text(s);
    if d % 4 != 0 {
        return vec![];
    }
    let di = d / 4;
    match br {
        Br::B => {
            if fits_signed(di, 26) {
                vec![vec![t(format!("b #{d}"))]]
            } else {
                vec![]
            }
        }
        Br::Bc { cond } => {
            if fits_signed(di, 19) {
                vec![vec![t(format!("b.{} #{d}", cond_text(cond_number(*cond))))]]
            } else {
                vec![]
            }
        }
        Br::Adr { reg } => {
            if *reg <= 30 && fits_signed(d, 21) {
                vec![vec![t(format!("adr x{reg}, #{d}"))]]
            } else {
                vec![]
            }
        }
        Br::Cbz { sf, nz, reg } => {
            if *reg > 30 {
                return vec![];
            }
            let mn = |nz: bool| if nz { "cbnz" } else { "cbz" };
            let r = treg(*reg, *sf);
            let mut out = vec![];
            if fits_signed(di, 19) {
                out.push(vec![t(format!("{} {r}, #{d}", mn(*nz)))]);
                out.push(vec![t(format!("{} {r}, #{d}", mn(*nz))), t("nop".into())]);
            }
            if fits_signed(di - 1, 26) {
                // skip the unconditional branch when the condition does not hold
                out.push(vec![t(format!("{} {r}, #8", mn(!*nz))), t(format!("b #{}", d - 4))]);
            }
            out
        }
        Br::Tbz { nz, reg, bit } => {
            if *reg > 30 || *bit > 63 {
                return vec![];
            }
            let mn = |nz: bool| if nz { "tbnz" } else { "tbz" };
            let r = treg(*reg, *bit >= 32);
            let mut out = vec![];
            if fits_signed(di, 14) {
                out.push(vec![t(format!("{} {r}, #{bit}, #{d}", mn(*nz)))]);
                out.push(vec![t(format!("{} {r}, #{bit}, #{d}", mn(*nz))), t("nop".into())]);
            }
            if fits_signed(di - 1, 26) {
                out.push(vec![t(format!("{} {r}, #{bit}, #8", mn(!*nz))), t(format!("b #{}", d - 4))]);
            }
            out
        }
    }
}

pub struct Site {
    pub item: usize,
    pub pos: usize,
    pub len: usize,
}

pub struct RunOut {
    pub code: Vec<u8>,
    pub sites: Vec<Site>,
    pub bound: Vec<Option<usize>>,
}

fn reg_of(n: u8) -> Register {
    Op::R(n).r()
}

fn fill(a: &mut Asm, words: u32) {
    const NOP: u32 = 0xd503201f;
    let quad: u128 = (NOP as u128) | ((NOP as u128) << 32) | ((NOP as u128) << 64) | ((NOP as u128) << 96);
    let mut n = words;
    while n >= 4 {
        a.emit_u128(quad);
        n -= 4;
    }
    while n > 0 {
        a.nop();
        n -= 1;
    }
}

/// Model of the layout, independent of the assembler's own position bookkeeping: every item has a
/// known size except compare/test branches to an already bound label (1 or 2 words), for which the
/// assembler's choice is read back and validated against the alternatives.
pub fn run_prog(p: &Prog) -> Result<RunOut, String> {
    try_call(|| {
        let mut a = Asm::new();
        // a label is created up front when it is referenced before it is bound
        let mut first_ref: Vec<Option<usize>> = vec![None; p.nlabels];
        let mut bind_at: Vec<Option<usize>> = vec![None; p.nlabels];
        for (i, it) in p.items.iter().enumerate() {
            match it {
                Item::Branch(_, l) => {
                    if first_ref[*l].is_none() {
                        first_ref[*l] = Some(i);
                    }
                }
                Item::Bind(l) => {
                    if bind_at[*l].is_none() {
                        bind_at[*l] = Some(i);
                    }
                }
                Item::Gap(_) => {}
            }
        }
        let mut labels: Vec<Option<Label>> = vec![None; p.nlabels];
        for l in 0..p.nlabels {
            let forward = match (first_ref[l], bind_at[l]) {
                (Some(r), Some(b)) => r < b,
                (Some(_), None) => true,
                _ => false,
            };
            if forward {
                labels[l] = Some(a.create_label());
            }
        }
        let mut sites = vec![];
        let mut bound: Vec<Option<usize>> = vec![None; p.nlabels];
        for (i, it) in p.items.iter().enumerate() {
            match it {
                Item::Gap(n) => fill(&mut a, *n),
                Item::Bind(l) => {
                    let pos = a.position();
                    match labels[*l] {
                        Some(lbl) => a.bind_label(lbl),
                        None => labels[*l] = Some(a.create_and_bind_label()),
                    }
                    bound[*l] = Some(pos);
                }
                Item::Branch(br, l) => {
                    let lbl = match labels[*l] {
                        Some(l) => l,
                        None => {
                            let nl = a.create_label();
                            labels[*l] = Some(nl);
                            nl
                        }
                    };
                    let pos = a.position();
                    match br {
                        Br::B => a.b(lbl),
                        Br::Bc { cond } => a.bc(Op::C(*cond).cond(), lbl),
                        Br::Adr { reg } => a.adr_label(reg_of(*reg), lbl),
                        Br::Cbz { sf: true, nz: false, reg } => a.cbz(reg_of(*reg), lbl),
                        Br::Cbz { sf: false, nz: false, reg } => a.cbz_w(reg_of(*reg), lbl),
                        Br::Cbz { sf: true, nz: true, reg } => a.cbnz(reg_of(*reg), lbl),
                        Br::Cbz { sf: false, nz: true, reg } => a.cbnz_w(reg_of(*reg), lbl),
                        Br::Tbz { nz: false, reg, bit } => a.tbz(reg_of(*reg), *bit, lbl),
                        Br::Tbz { nz: true, reg, bit } => a.tbnz(reg_of(*reg), *bit, lbl),
                    }
                    let len = a.position() - pos;
                    sites.push(Site { item: i, pos, len });
                }
            }
        }
        let code = a.finalize(4).code();
        RunOut { code, sites, bound }
    })
}

#[derive(Clone, Debug)]
pub struct SiteVerdict {
    pub prog: usize,
    pub fail: Option<(String, String)>,
    pub nontrivial: bool,
    pub classes: Vec<String>,
    pub hash: u64,
}

fn near_boundary(br: &Br, d: i64) -> bool {
    let di = d / 4;
    let bits: &[u32] = match br {
        Br::B => &[26],
        Br::Bc { .. } => &[19],
        Br::Adr { .. } => &[19],
        Br::Cbz { .. } => &[19, 26],
        Br::Tbz { .. } => &[14, 15, 26],
    };
    bits.iter().any(|b| {
        let hi = (1i64 << (b - 1)) - 1;
        let lo = -(1i64 << (b - 1));
        (di - hi).abs() <= 2 || (di - lo).abs() <= 2
    })
}

/// Evaluate programs; one LLVM round trip for all branch sites.
pub fn eval_progs(progs: &[Prog]) -> Result<Vec<SiteVerdict>, String> {
    let mut out: Vec<SiteVerdict> = vec![];
    let mut blocks: Vec<Block> = vec![];
    let mut block_info: Vec<(usize, Br, i64, usize)> = vec![]; // prog, branch, distance, index into out
    for (pi, p) in progs.iter().enumerate() {
        // static expectation: which references can be expressed at all?
        let res = run_prog(p);
        // an unbound referenced label must be refused
        let mut bound_static: Vec<bool> = vec![false; p.nlabels];
        for it in &p.items {
            if let Item::Bind(l) = it {
                bound_static[*l] = true;
            }
        }
        let unbound_ref = p.items.iter().any(|it| matches!(it, Item::Branch(_, l) if !bound_static[*l]));
        let double_bind = {
            let mut seen = HashSet::new();
            p.items.iter().any(|it| matches!(it, Item::Bind(l) if !seen.insert(*l)))
        };
        match res {
            Err(msg) if msg.starts_with("harness:") => return Err(msg),
            Err(msg) => {
                // refused: fine iff some reference is inexpressible (or a label misuse), or a tolerated case
                let verdict = classify_refusal(p, unbound_ref || double_bind, &msg);
                out.push(SiteVerdict { prog: pi, hash: hash64(p), ..verdict });
            }
            Ok(run) => {
                if unbound_ref || double_bind {
                    out.push(SiteVerdict {
                        prog: pi,
                        fail: Some(("refusal:labels:unbound-or-rebound-label".into(), "a program referencing an unbound label (or binding a label twice) was assembled without complaint".into())),
                        nontrivial: true,
                        classes: vec![],
                        hash: hash64(p),
                    });
                    continue;
                }
                if run.code.len() % 4 != 0 {
                    return Err("code length not a multiple of 4".into());
                }
                for s in &run.sites {
                    let Item::Branch(br, l) = p.items[s.item] else { unreachable!() };
                    let target = run.bound[l].expect("bound") as i64;
                    let d = target - s.pos as i64;
                    let alts = expected(&br, d);
                    let h = hash64(&(br, d));
                    if s.len == 0 || s.len % 4 != 0 || s.len > 8 || s.pos + s.len > run.code.len() {
                        out.push(SiteVerdict {
                            prog: pi,
                            fail: Some((format!("branch:{}:slot-size", br.method()), format!("{:?} at {:#x} occupies {} bytes", br, s.pos, s.len))),
                            nontrivial: true,
                            classes: vec![],
                            hash: h,
                        });
                        continue;
                    }
                    let words: Vec<u32> = run.code[s.pos..s.pos + s.len].chunks(4).map(|c| u32::from_le_bytes([c[0], c[1], c[2], c[3]])).collect();
                    if alts.is_empty() {
                        let texts = llvm::decode_words(&words);
                        let why = match br {
                            Br::Tbz { bit, .. } if bit > 63 => "bit-position-out-of-range",
                            _ => "target-not-reachable",
                        };
                        out.push(SiteVerdict {
                            prog: pi,
                            fail: Some((
                                format!("refusal:{}:{why}", br.method()),
                                format!("{:?} at {:#x} to a label bound at {:#x} (distance {d}) cannot be encoded but was not refused: emitted `{}`", br, s.pos, target, texts.join("; ")),
                            )),
                            nontrivial: true,
                            classes: vec![],
                            hash: h,
                        });
                        continue;
                    }
                    out.push(SiteVerdict { prog: pi, fail: None, nontrivial: false, classes: vec![], hash: h });
                    blocks.push(Block { words, alts });
                    block_info.push((pi, br, d, out.len() - 1));
                }
            }
        }
    }
    match llvm::check_blocks(&blocks) {
        Ok(vs) => {
            for (bi, v) in vs.into_iter().enumerate() {
                let (_pi, br, d, oi) = block_info[bi];
                let reg16 = match br {
                    Br::Cbz { reg, .. } | Br::Tbz { reg, .. } | Br::Adr { reg } => reg >= 16,
                    _ => false,
                };
                let far = blocks[bi].words.len() == 2 && !matches!(v, Verdict::Mismatch { .. }) && {
                    // second word is an unconditional branch => fallback form
                    blocks[bi].words[1] >> 26 == 0b000101
                };
                match v {
                    Verdict::Match => {
                        out[oi].nontrivial = near_boundary(&br, d) || reg16 || far;
                        out[oi].classes = vec![
                            "branch/reaches-bound-position".into(),
                            format!("branch/{}", br.method()),
                            (if d < 0 { "branch/backward" } else { "branch/forward" }).to_string(),
                        ];
                        if far {
                            out[oi].classes.push("branch/far-fallback-pair".into());
                        }
                        if near_boundary(&br, d) {
                            out[oi].classes.push("branch/at-range-boundary".into());
                        }
                    }
                    Verdict::Mismatch { class, detail, actual } => {
                        out[oi].nontrivial = true;
                        let class = target_class(&br, d, &actual).unwrap_or(class);
                        out[oi].fail = Some((format!("branch:{}:{}", br.method(), class), format!("{:?} to a label {d} bytes away: emitted `{}`; {detail}", br, actual.join("; "))));
                    }
                }
            }
        }
        Err(ToolError::ExpectedRejected { text, err, .. }) => return Err(format!("table bug: expected branch text {text:?} does not assemble: {err}")),
        Err(ToolError::Other(e)) => return Err(e),
    }
    Ok(out)
}

/// The emitted sequence has the right shape but lands somewhere else: name how.
fn target_class(br: &Br, d: i64, actual: &[String]) -> Option<String> {
    let direct = match br {
        Br::B => "b ",
        Br::Bc { .. } => "b.",
        Br::Cbz { nz: false, .. } => "cbz ",
        Br::Cbz { nz: true, .. } => "cbnz ",
        Br::Tbz { nz: false, .. } => "tbz ",
        Br::Tbz { nz: true, .. } => "tbnz ",
        Br::Adr { .. } => "adr ",
    };
    let bits = match br {
        Br::B => 26,
        Br::Bc { .. } | Br::Cbz { .. } => 19,
        Br::Tbz { .. } => 14,
        Br::Adr { .. } => 21,
    };
    let rel_of = |t: &str| -> Option<i64> {
        let i = t.rfind(|c| c == '@' || c == '#')?;
        t[i + 1..].trim().parse::<i64>().ok()
    };
    let first = actual.first()?;
    if first.starts_with(direct) {
        let rel = rel_of(first)?;
        if rel != d {
            let unit = if matches!(br, Br::Adr { .. }) { 1i64 } else { 4 };
            return Some(if (rel - d) % ((1i64 << bits) * unit) == 0 { format!("target-truncated-to-imm{bits}") } else { "direct-form-wrong-target".to_string() });
        }
        return None;
    }
    // inverted test + unconditional branch
    if actual.len() == 2 && actual[1].starts_with("b ") {
        let rel = rel_of(&actual[1])?;
        if rel + 4 != d {
            return Some(if (rel + 4 - d).abs() <= 8 { "far-fallback-off-by-one".to_string() } else { "far-fallback-wrong-target".to_string() });
        }
    }
    None
}

/// Distances are computed from the model when the assembler refused (no positions to read back):
/// all items have a fixed size except backward compare/test branches, for which both sizes are tried.
fn classify_refusal(p: &Prog, label_misuse: bool, msg: &str) -> SiteVerdict {
    let ok = |class: &str| SiteVerdict { prog: 0, fail: None, nontrivial: true, classes: vec![class.to_string()], hash: 0 };
    if label_misuse {
        return ok("refusal/label-misuse-refused");
    }
    // layout model
    let mut pos: i64 = 0;
    let mut bound: Vec<Option<i64>> = vec![None; p.nlabels];
    let mut site_pos: Vec<(usize, i64)> = vec![];
    let mut ambiguous = false;
    for (i, it) in p.items.iter().enumerate() {
        match it {
            Item::Gap(n) => pos += 4 * *n as i64,
            Item::Bind(l) => bound[*l] = Some(pos),
            Item::Branch(br, l) => {
                site_pos.push((i, pos));
                match (br, bound[*l]) {
                    (Br::Cbz { .. }, Some(t)) => {
                        // backward: one word when in range, two otherwise
                        pos += if fits_signed((t - pos) / 4, 19) { 4 } else { 8 };
                    }
                    (Br::Tbz { .. }, Some(t)) => {
                        if !fits_signed((t - pos) / 4, 14) {
                            ambiguous = true;
                        }
                        pos += 4;
                    }
                    (_, Some(_)) => pos += 4,
                    (_, None) => pos += 4 * br.forward_slot(),
                }
            }
        }
    }
    let mut must_refuse = false;
    let mut tolerated = false;
    let mut which = String::new();
    for (i, sp) in &site_pos {
        let Item::Branch(br, l) = p.items[*i] else { unreachable!() };
        let d = bound[l].unwrap() - sp;
        let is_backward = p.items[..*i].iter().any(|it| matches!(it, Item::Bind(x) if *x == l));
        if expected(&br, d).is_empty() {
            must_refuse = true;
            which = format!("{:?} distance {d}", br);
        } else if let Br::Tbz { .. } = br {
            // unchanged tree: `unimplemented!()` for a backward test branch beyond the imm14 range
            if is_backward && !fits_signed(d / 4, 14) {
                tolerated = true;
            }
        } else if let Br::Cbz { reg, .. } | Br::Adr { reg } = br {
            let _ = reg;
        }
    }
    let _ = ambiguous;
    if must_refuse {
        let mut v = ok("refusal/unreachable-target-refused");
        let kind: String = which.chars().take_while(|c| c.is_ascii_alphabetic()).collect();
        v.classes.push(format!("refusal/{kind}"));
        return v;
    }
    if tolerated {
        return ok("legal-but-refused/tbz-backward-beyond-imm14");
    }
    SiteVerdict {
        prog: 0,
        fail: Some(("refuses-legal:labels:all-targets-reachable".into(), format!("every reference of the program can be encoded, yet the assembler refused: {msg}"))),
        nontrivial: true,
        classes: vec![],
        hash: 0,
    }
}

// ---------------------------------------------------------------------------
// Generation

fn gen_br(c: &mut Choices) -> Br {
    let reg = |c: &mut Choices| c.below(31) as u8;
    match c.weighted(&[2, 3, 4, 5, 2]) {
        0 => Br::B,
        1 => Br::Bc { cond: c.below(16) as u8 },
        2 => Br::Cbz { sf: c.chance(1, 2), nz: c.chance(1, 2), reg: reg(c) },
        3 => {
            let rnd = c.below(64) as u32;
            let bit = if c.chance(1, 12) { 64 + c.below(8) as u32 } else { *c.pick(&[0u32, 1, 5, 31, 32, 33, 62, 63, rnd]) };
            Br::Tbz { nz: c.chance(1, 2), reg: reg(c), bit }
        }
        _ => Br::Adr { reg: reg(c) },
    }
}

const GAPS: &[u32] = &[
    0, 1, 2, 3, 7, 100, 8186, 8187, 8188, 8189, 8190, 8191, 8192, 8193, 8194, 16380, 16381, 16382, 16383, 16384, 16385, 16386, 32766, 32767, 32768, 32769, 65536, 262138, 262139, 262140, 262141,
    262142, 262143, 262144, 262145, 262146,
];

pub fn gen_prog(c: &mut Choices) -> Prog {
    let nlabels = 1 + c.below(4);
    let mut items = vec![];
    let mut bound = vec![false; nlabels];
    let n = 2 + c.below(9);
    let mut total: u64 = 0;
    for _ in 0..n {
        match c.weighted(&[4, 3, 2]) {
            0 => items.push(Item::Branch(gen_br(c), c.below(nlabels))),
            1 => {
                let g = if c.chance(1, 3) { c.below(40) as u32 } else { *c.pick(GAPS) };
                if total + g as u64 <= 800_000 {
                    total += g as u64;
                    items.push(Item::Gap(g));
                }
            }
            _ => {
                let l = c.below(nlabels);
                if !bound[l] {
                    bound[l] = true;
                    items.push(Item::Bind(l));
                }
            }
        }
    }
    // bind the rest at the end (a rare program leaves a referenced label unbound: must be refused)
    let leave_unbound = c.chance(1, 40);
    for l in 0..nlabels {
        if !bound[l] && !leave_unbound {
            items.push(Item::Bind(l));
        }
    }
    Prog { nlabels, items }
}

/// Directed programs: one reference at an exact distance (in instructions).
pub fn directed(br: Br, di: i64) -> Option<Prog> {
    if di >= 0 {
        let slot = br.forward_slot();
        if di < slot {
            return None;
        }
        Some(Prog { nlabels: 1, items: vec![Item::Gap(3), Item::Branch(br, 0), Item::Gap((di - slot) as u32), Item::Bind(0), Item::Gap(2)] })
    } else {
        Some(Prog { nlabels: 1, items: vec![Item::Gap(1), Item::Bind(0), Item::Gap((-di) as u32), Item::Branch(br, 0), Item::Gap(2)] })
    }
}

fn add_directed(out: &mut Vec<Prog>, br: Br, ds: &[i64], both: bool) {
    for &d in ds {
        let signs: &[i64] = if both { &[1, -1] } else { &[1] };
        for s in signs {
            if let Some(p) = directed(br, d * s) {
                if !out.contains(&p) {
                    out.push(p);
                }
            }
        }
    }
}

fn around(b: i64) -> Vec<i64> {
    vec![b - 2, b - 1, b, b + 1, b + 2]
}

/// One reference per program at exact distances around every range limit (up to 1 MiB programs).
pub fn directed_set() -> Vec<Prog> {
    let mut out = vec![];
    let small = [0i64, 1, 2, 3, 4];
    for (nz, reg, bit) in [(false, 3u8, 0u32), (true, 17, 63), (false, 30, 31), (true, 0, 32)] {
        let br = Br::Tbz { nz, reg, bit };
        add_directed(&mut out, br, &small, true);
        add_directed(&mut out, br, &around(1 << 13), true);
        add_directed(&mut out, br, &around(1 << 14), true);
        add_directed(&mut out, br, &around(1 << 15), true);
        add_directed(&mut out, br, &[12000, 20000, 40000, 70000], true);
    }
    for (sf, nz, reg) in [(true, false, 1u8), (false, true, 19), (true, true, 30), (false, false, 0)] {
        let br = Br::Cbz { sf, nz, reg };
        add_directed(&mut out, br, &small, true);
        add_directed(&mut out, br, &around(1 << 18), true);
        add_directed(&mut out, br, &[300_000, 524_288], true);
    }
    for cond in 0..16u8 {
        add_directed(&mut out, Br::Bc { cond }, &[1, (1 << 18) - 1, 1 << 18, (1 << 18) + 1], true);
    }
    add_directed(&mut out, Br::Bc { cond: 0 }, &around(1 << 18), true);
    for reg in [0u8, 15, 16, 30] {
        add_directed(&mut out, Br::Adr { reg }, &small, true);
        add_directed(&mut out, Br::Adr { reg }, &around(1 << 18), true);
    }
    add_directed(&mut out, Br::B, &small, true);
    add_directed(&mut out, Br::B, &[1 << 18, 1 << 20], true);
    out
}

/// 128 MiB programs: both ends of the imm26 range, directly and through the far fallbacks.
pub fn directed_set_far(thorough: bool) -> Vec<Prog> {
    let mut out = vec![];
    let top = 1i64 << 25;
    // b: [-2^25, 2^25-1] instructions
    add_directed(&mut out, Br::B, &[top - 1, top, -top, -top - 1], false);
    // cbz fallback: `b` sits one instruction later, so the reachable distances are [-2^25+1, 2^25]
    let cbz = Br::Cbz { sf: true, nz: false, reg: 21 };
    add_directed(&mut out, cbz, &[top, top + 1], false);
    add_directed(&mut out, Br::Tbz { nz: true, reg: 9, bit: 40 }, &[top], false);
    if thorough {
        add_directed(&mut out, Br::B, &[top + 1, -top + 1], false);
        add_directed(&mut out, cbz, &[top - 1, -top + 1, -top, -top - 1], false);
        add_directed(&mut out, Br::Cbz { sf: false, nz: true, reg: 2 }, &[top, top + 1, -top + 1, -top], false);
        add_directed(&mut out, Br::Tbz { nz: false, reg: 30, bit: 5 }, &[top, top + 1], false);
    }
    out
}

// ---------------------------------------------------------------------------

#[derive(Default)]
pub struct LStats {
    pub sites: u64,
    pub programs: u64,
    pub nontrivial: HashSet<u64>,
    pub classes: BTreeMap<String, u64>,
    pub harness_errors: Vec<String>,
}

pub struct Labels {
    pub stats: Mutex<LStats>,
    pub known_keys: Vec<String>,
    pub batch: usize,
}

impl Labels {
    pub fn new(batch: usize) -> Labels {
        let known_keys = load_known_findings().into_iter().filter(|k| k.property == "C08" && k.status == "open").map(|k| k.key).collect();
        Labels { stats: Mutex::new(LStats::default()), known_keys, batch }
    }
    fn is_known(&self, key: &str) -> bool {
        self.known_keys.iter().any(|k| match k.strip_suffix('*') {
            Some(p) => key.starts_with(p),
            None => k == key,
        })
    }
}

#[derive(Clone, Debug)]
pub struct PBatch {
    pub progs: Vec<Prog>,
}

fn br_json(b: &Br, l: usize) -> Value {
    match b {
        Br::B => json!(["b", l]),
        Br::Bc { cond } => json!(["bc", COND_NAMES[*cond as usize], l]),
        Br::Cbz { sf, nz, reg } => json!([b.method(), reg, l, sf, nz]),
        Br::Tbz { reg, bit, .. } => json!([b.method(), reg, bit, l]),
        Br::Adr { reg } => json!(["adr_label", reg, l]),
    }
}

fn item_from_json(v: &Value) -> Option<Item> {
    let a = v.as_array()?;
    let k = a.first()?.as_str()?;
    let n = |i: usize| a.get(i).and_then(|x| x.as_u64());
    Some(match k {
        "bind" => Item::Bind(n(1)? as usize),
        "gap" => Item::Gap(n(1)? as u32),
        "b" => Item::Branch(Br::B, n(1)? as usize),
        "bc" => Item::Branch(Br::Bc { cond: COND_NAMES.iter().position(|c| Some(*c) == a.get(1).and_then(|x| x.as_str()))? as u8 }, n(2)? as usize),
        "cbz" | "cbz_w" | "cbnz" | "cbnz_w" => Item::Branch(Br::Cbz { sf: !k.ends_with("_w"), nz: k.starts_with("cbnz"), reg: n(1)? as u8 }, n(2)? as usize),
        "tbz" | "tbnz" => Item::Branch(Br::Tbz { nz: k == "tbnz", reg: n(1)? as u8, bit: n(2)? as u32 }, n(3)? as usize),
        "adr_label" => Item::Branch(Br::Adr { reg: n(1)? as u8 }, n(2)? as usize),
        _ => return None,
    })
}

pub fn prog_json(p: &Prog) -> Value {
    let items: Vec<Value> = p
        .items
        .iter()
        .map(|it| match it {
            Item::Bind(l) => json!(["bind", l]),
            Item::Gap(n) => json!(["gap", n]),
            Item::Branch(b, l) => br_json(b, *l),
        })
        .collect();
    json!({"labels": p.nlabels, "items": items})
}

impl Prop for Labels {
    type Case = PBatch;
    fn name(&self) -> &str {
        "labels"
    }
    fn generate(&self, c: &mut Choices) -> PBatch {
        let mut progs = vec![];
        while progs.len() < self.batch && (!c.exhausted() || progs.is_empty()) {
            progs.push(gen_prog(c));
        }
        PBatch { progs }
    }
    fn eval(&self, case: &PBatch) -> Outcome {
        let h = hash64(&case.progs);
        let vs = match eval_progs(&case.progs) {
            Ok(v) => v,
            Err(e) => {
                self.stats.lock().unwrap().harness_errors.push(e.clone());
                return Outcome { inconclusive: Some(e), hash: h, ..Default::default() };
            }
        };
        let mut st = self.stats.lock().unwrap();
        st.programs += case.progs.len() as u64;
        let mut first_new = None;
        let mut first_known = None;
        for v in &vs {
            st.sites += 1;
            if v.nontrivial {
                st.nontrivial.insert(v.hash ^ 0x6c61_6265_6c73);
            }
            for c in &v.classes {
                *st.classes.entry(c.clone()).or_insert(0) += 1;
            }
            if let Some(f) = &v.fail {
                if self.is_known(&f.0) {
                    *st.classes.entry(format!("known-finding/{}", f.0)).or_insert(0) += 1;
                    if first_known.is_none() {
                        first_known = Some(f.clone());
                    }
                } else if first_new.is_none() {
                    first_new = Some(f.clone());
                }
            }
        }
        drop(st);
        match first_new.or(first_known) {
            Some((k, m)) => Outcome::fail(h, k, m),
            None => Outcome::pass(h, false),
        }
    }
    fn render(&self, case: &PBatch) -> Value {
        json!({"progs": case.progs.iter().map(prog_json).collect::<Vec<_>>()})
    }
    fn from_rendered(&self, v: &Value) -> Option<PBatch> {
        let mut progs = vec![];
        for p in v["progs"].as_array()? {
            let items: Option<Vec<Item>> = p["items"].as_array()?.iter().map(item_from_json).collect();
            progs.push(Prog { nlabels: p["labels"].as_u64()? as usize, items: items? });
        }
        Some(PBatch { progs })
    }
    fn minimize(&self, case: &PBatch, fails: &dyn Fn(&PBatch) -> bool) -> Option<PBatch> {
        let vs = eval_progs(&case.progs).ok()?;
        let mut cand: Vec<usize> = vs.iter().filter(|v| v.fail.is_some()).map(|v| v.prog).collect();
        cand.dedup();
        let mut cur: Option<Prog> = None;
        for pi in cand.into_iter().take(16) {
            let b = PBatch { progs: vec![case.progs[pi].clone()] };
            if fails(&b) {
                cur = Some(case.progs[pi].clone());
                break;
            }
        }
        let mut cur = cur?;
        // drop references one at a time (keeping their space, so distances stay the same)
        let mut i = 0;
        while i < cur.items.len() {
            if let Item::Branch(br, _) = cur.items[i] {
                let nbranches = cur.items.iter().filter(|x| matches!(x, Item::Branch(..))).count();
                if nbranches > 1 {
                    for words in [br.forward_slot() as u32, 1] {
                        let mut c2 = cur.clone();
                        c2.items[i] = Item::Gap(words);
                        if fails(&PBatch { progs: vec![c2.clone()] }) {
                            cur = c2;
                            break;
                        }
                    }
                }
            }
            i += 1;
        }
        Some(PBatch { progs: vec![cur] })
    }
}
