//! The oracle: LLVM 14's AArch64 assembler and disassembler, driven in batches.
//!
//! One assembly file per batch holds, for every block, the emitted words (`.inst`, label `A<i>`)
//! and every expected alternative as text (label `E<i>_<alt>`). `llvm-mc -filetype=obj` assembles
//! it, `llvm-objdump -d` disassembles it. A block passes when the decoded emitted instructions
//! equal the decoded expected instructions (same printer on both sides, so alias spelling, hex vs
//! decimal and implicit operands cannot cause a difference); pc-relative targets are compared as
//! offsets from the instruction.

use crate::table::{Alt, Elem};
use std::collections::HashMap;
use std::path::PathBuf;
use std::process::Command;
use std::sync::atomic::{AtomicU64, Ordering};

pub const MC_CANDIDATES: &[&str] = &["/usr/lib/llvm-14/bin/llvm-mc", "/usr/bin/llvm-mc-14", "llvm-mc-14", "llvm-mc"];
pub const OBJDUMP_CANDIDATES: &[&str] = &["/usr/lib/llvm-14/bin/llvm-objdump", "/usr/bin/llvm-objdump-14", "llvm-objdump-14", "llvm-objdump"];
const MATTR: &str = "+lse,+v8.4a";

fn find_tool(cands: &[&str]) -> Option<String> {
    for c in cands {
        if c.starts_with('/') {
            if std::path::Path::new(c).exists() {
                return Some(c.to_string());
            }
        } else if Command::new(c).arg("--version").output().map(|o| o.status.success()).unwrap_or(false) {
            return Some(c.to_string());
        }
    }
    None
}

pub fn tools() -> Result<(String, String), String> {
    static T: std::sync::OnceLock<Result<(String, String), String>> = std::sync::OnceLock::new();
    T.get_or_init(|| {
        let mc = find_tool(MC_CANDIDATES).ok_or("llvm-mc (LLVM 14) not found")?;
        let od = find_tool(OBJDUMP_CANDIDATES).ok_or("llvm-objdump (LLVM 14) not found")?;
        Ok((mc, od))
    })
    .clone()
}

pub struct Block {
    /// words emitted by the assembler under test
    pub words: Vec<u32>,
    /// acceptable instruction sequences
    pub alts: Vec<Alt>,
}

#[derive(Clone, Debug)]
pub struct Decoded {
    pub word: u32,
    /// normalised text: single spaces, pc-relative targets as `@<offset>`
    pub text: String,
}

#[derive(Clone, Debug)]
pub enum Verdict {
    Match,
    /// class: short stable label of the kind of difference; detail: human readable;
    /// actual: normalised decoded text of the emitted words
    Mismatch { class: String, detail: String, actual: Vec<String> },
}

#[derive(Debug)]
pub enum ToolError {
    /// an expected text of block `block` was rejected by llvm-mc (harness/table bug)
    ExpectedRejected { block: usize, text: String, err: String },
    Other(String),
}

impl std::fmt::Display for ToolError {
    fn fmt(&self, f: &mut std::fmt::Formatter<'_>) -> std::fmt::Result {
        match self {
            ToolError::ExpectedRejected { block, text, err } => write!(f, "llvm-mc rejected the expected text {text:?} of block {block}: {err}"),
            ToolError::Other(s) => write!(f, "{s}"),
        }
    }
}

static COUNTER: AtomicU64 = AtomicU64::new(0);

pub fn scratch_root() -> PathBuf {
    PathBuf::from("/verif/.build/scratch")
}

struct ScratchDir(PathBuf);
impl Drop for ScratchDir {
    fn drop(&mut self) {
        let _ = std::fs::remove_dir_all(&self.0);
    }
}

fn scratch_dir() -> Result<ScratchDir, String> {
    let n = COUNTER.fetch_add(1, Ordering::SeqCst);
    let p = scratch_root().join(format!("c08-{}-{}", std::process::id(), n));
    std::fs::create_dir_all(&p).map_err(|e| format!("cannot create scratch dir {}: {e}", p.display()))?;
    Ok(ScratchDir(p))
}

/// Assemble + disassemble a file whose every line after `.text` is one 4-byte item or a label.
/// `items`: the lines (without labels); `labels`: (item index, label name). Returns one decoded
/// entry per item. On an llvm-mc error, returns the index of the offending item.
fn run_llvm(items: &[String], labels: &[(usize, String)]) -> Result<Vec<Decoded>, (Option<usize>, String)> {
    let (mc, od) = tools().map_err(|e| (None, e))?;
    let dir = scratch_dir().map_err(|e| (None, e))?;
    let src = dir.0.join("batch.s");
    let obj = dir.0.join("batch.o");
    let mut text = String::with_capacity(items.len() * 32);
    text.push_str(".text\n");
    // line number (1-based) -> item index
    let mut line_item: Vec<Option<usize>> = vec![None, None];
    let mut li = 0usize;
    for (i, it) in items.iter().enumerate() {
        while li < labels.len() && labels[li].0 == i {
            text.push_str(&labels[li].1);
            text.push_str(":\n");
            line_item.push(None);
            li += 1;
        }
        text.push_str(it);
        text.push('\n');
        line_item.push(Some(i));
    }
    std::fs::write(&src, &text).map_err(|e| (None, format!("write {}: {e}", src.display())))?;
    let out = Command::new(&mc)
        .args(["-triple=aarch64", &format!("-mattr={MATTR}"), "-filetype=obj", "-o"])
        .arg(&obj)
        .arg(&src)
        .output()
        .map_err(|e| (None, format!("cannot run {mc}: {e}")))?;
    if !out.status.success() {
        let err = String::from_utf8_lossy(&out.stderr).to_string();
        // "<file>:<line>:<col>: error: <msg>"
        for l in err.lines() {
            if let Some(pos) = l.find(": error:") {
                let head = &l[..pos];
                let mut parts = head.rsplitn(3, ':');
                let _col = parts.next();
                let line = parts.next().and_then(|s| s.parse::<usize>().ok());
                if let Some(line) = line {
                    let item = line_item.get(line).copied().flatten();
                    return Err((item, l[pos + 2..].to_string()));
                }
            }
        }
        return Err((None, format!("llvm-mc failed: {}", err.lines().take(3).collect::<Vec<_>>().join(" | "))));
    }
    let out = Command::new(&od)
        .args(["-d", "-M", "no-aliases", &format!("--mattr={MATTR}")])
        .arg(&obj)
        .output()
        .map_err(|e| (None, format!("cannot run {od}: {e}")))?;
    if !out.status.success() {
        return Err((None, format!("llvm-objdump failed: {}", String::from_utf8_lossy(&out.stderr).lines().take(3).collect::<Vec<_>>().join(" | "))));
    }
    let listing = String::from_utf8_lossy(&out.stdout);
    let mut decoded: Vec<Option<Decoded>> = vec![None; items.len()];
    let mut label_addr: HashMap<String, u64> = HashMap::new();
    for line in listing.lines() {
        // label header: "0000000000000008 <E0_0>:"
        if let Some(rest) = line.strip_suffix(">:") {
            if let Some((a, name)) = rest.split_once(" <") {
                if let Ok(addr) = u64::from_str_radix(a.trim(), 16) {
                    label_addr.insert(name.to_string(), addr);
                }
            }
            continue;
        }
        let Some((a, rest)) = line.split_once(':') else { continue };
        let Ok(addr) = u64::from_str_radix(a.trim(), 16) else { continue };
        let mut toks = rest.split_whitespace();
        let mut bytes = [0u8; 4];
        let mut ok = true;
        for b in bytes.iter_mut() {
            match toks.next().and_then(|t| if t.len() == 2 { u8::from_str_radix(t, 16).ok() } else { None }) {
                Some(v) => *b = v,
                None => {
                    ok = false;
                    break;
                }
            }
        }
        if !ok {
            continue;
        }
        let raw: Vec<&str> = toks.collect();
        let raw = raw.join(" ");
        if addr % 4 != 0 || (addr / 4) as usize >= items.len() {
            return Err((None, format!("objdump listed an instruction at unexpected address {addr:#x}")));
        }
        let idx = (addr / 4) as usize;
        if decoded[idx].is_some() {
            return Err((None, format!("objdump listed address {addr:#x} twice")));
        }
        decoded[idx] = Some(Decoded { word: u32::from_le_bytes(bytes), text: normalise(&raw, addr) });
    }
    // layout cross-check: every label sits where the line count says it must
    for (i, name) in labels {
        match label_addr.get(name) {
            Some(a) if *a == (*i as u64) * 4 => {}
            Some(a) => return Err((None, format!("label {name} at {a:#x}, expected {:#x}: an item is not 4 bytes long", i * 4))),
            None => {
                // labels that share an address with another label may be omitted from the listing
            }
        }
    }
    let mut out = Vec::with_capacity(items.len());
    for (i, d) in decoded.into_iter().enumerate() {
        match d {
            Some(d) => out.push(d),
            None => return Err((None, format!("objdump listed nothing for item {i} ({:?})", items[i]))),
        }
    }
    Ok(out)
}

/// "add x0, x1, x2" / "b.eq 0x2c <L11>" -> normalised text
pub fn normalise(raw: &str, addr: u64) -> String {
    let raw = raw.trim();
    // strip a trailing comment and the symbolic annotation of a target
    let raw = raw.split(" //").next().unwrap_or(raw).trim();
    let head = match raw.find(" <") {
        Some(lt) => raw[..lt].trim_end(),
        None => raw,
    };
    let mn = head.split(' ').next().unwrap_or("");
    let pcrel = matches!(mn, "b" | "bl" | "cbz" | "cbnz" | "tbz" | "tbnz" | "adrp") || mn.starts_with("b.");
    if pcrel {
        // the last operand is the absolute target: replace it by the offset from this instruction
        if let Some(hx) = head.rfind("0x") {
            let tail = &head[hx + 2..];
            if !tail.is_empty() && tail.chars().all(|c| c.is_ascii_hexdigit()) && !head[..hx].ends_with('#') {
                if let Ok(target) = u64::from_str_radix(tail, 16) {
                    let base = if mn == "adrp" { addr & !0xfff } else { addr };
                    let rel = target.wrapping_sub(base) as i64;
                    return format!("{}@{}", &head[..hx], rel);
                }
            }
        }
    }
    head.to_string()
}

fn parse_imm(tok: &str) -> Option<i128> {
    let t = tok.trim().strip_prefix('#')?;
    let (neg, t) = match t.strip_prefix('-') {
        Some(r) => (true, r),
        None => (false, t),
    };
    let v = if let Some(h) = t.strip_prefix("0x") { i128::from_str_radix(h, 16).ok()? } else { t.parse::<i128>().ok()? };
    Some(if neg { -v } else { v })
}

/// Apply one decoded move-wide instruction to `cur` (None = register not yet written).
/// Returns None when `text` is not a move-wide immediate instruction writing `rd`.
fn apply_mov(text: &str, rd: &str, is64: bool, cur: Option<u64>) -> Option<u64> {
    let (mn, rest) = text.split_once(' ')?;
    let ops: Vec<&str> = rest.split(',').map(|s| s.trim()).collect();
    if ops.len() < 2 || ops[0] != rd {
        return None;
    }
    let mask: u64 = if is64 { !0 } else { 0xffff_ffff };
    let shift = if ops.len() >= 3 {
        let s = ops[2].strip_prefix("lsl ")?;
        parse_imm(s)? as u32
    } else {
        0
    };
    let imm = parse_imm(ops[1])?;
    match mn {
        // LLVM prints movz/movn through the `mov` alias with the resulting value
        "mov" if ops.len() == 2 => Some((imm as i64 as u64) & mask),
        "movz" => Some(((imm as u64) << shift) & mask),
        "movn" => Some(!((imm as u64) << shift) & mask),
        "movk" => {
            let c = cur?;
            Some(((c & !(0xffffu64 << shift)) | ((imm as u64) << shift)) & mask)
        }
        _ => None,
    }
}

fn tokens(text: &str) -> Vec<String> {
    text.split(|c: char| c == ' ' || c == ',' || c == '[' || c == ']' || c == '!').filter(|s| !s.is_empty()).map(|s| s.to_string()).collect()
}

fn reg_parts(tok: &str) -> Option<(char, String)> {
    let t = if tok == "sp" { return Some(('x', "sp".into())) } else if tok == "wsp" { return Some(('w', "sp".into())) } else { tok };
    let mut ch = t.chars();
    let p = ch.next()?;
    let rest: String = ch.collect();
    if !"xwdsbhqv".contains(p) {
        return None;
    }
    if rest == "zr" || rest.split('.').next().map(|n| !n.is_empty() && n.chars().all(|c| c.is_ascii_digit())).unwrap_or(false) {
        Some((p, rest))
    } else {
        None
    }
}

/// Short stable label for the difference between the expected and the decoded instruction.
pub fn diff_class(expected: &str, actual: &str) -> String {
    if actual.starts_with("<unknown>") {
        return "unallocated-encoding".into();
    }
    let e = tokens(expected);
    let a = tokens(actual);
    if e.is_empty() || a.is_empty() {
        return "empty".into();
    }
    if e[0] != a[0] {
        return format!("mnemonic-{}", a[0]);
    }
    for i in 1..e.len().max(a.len()) {
        let (et, at) = (e.get(i), a.get(i));
        if et == at {
            continue;
        }
        let (Some(et), Some(at)) = (et, at) else {
            return format!("op{}-missing-or-extra", i - 1);
        };
        if let (Some((ep, en)), Some((ap, an))) = (reg_parts(et), reg_parts(at)) {
            if en == an && ep != ap {
                return format!("op{}-width", i - 1);
            }
            return format!("op{}-register", i - 1);
        }
        if et.starts_with('#') && at.starts_with('#') {
            return format!("op{}-immediate", i - 1);
        }
        if et.starts_with('@') && at.starts_with('@') {
            return format!("op{}-target", i - 1);
        }
        let plain = |s: &str| s.chars().all(|c| c.is_ascii_alphabetic());
        if plain(et) && plain(at) {
            return format!("op{}-{}-as-{}", i - 1, et, at);
        }
        return format!("op{}-differs", i - 1);
    }
    "same-text-different-word".into()
}

fn match_alt(alt: &Alt, etexts: &[Decoded], actual: &[Decoded]) -> Result<(), (String, String)> {
    let mut ai = 0usize;
    let mut ei = 0usize;
    for el in alt {
        match el {
            Elem::Text(t) => {
                let e = &etexts[ei];
                ei += 1;
                let Some(a) = actual.get(ai) else {
                    return Err(("length".into(), format!("emitted {} instruction(s), expected more: missing `{}`", actual.len(), t)));
                };
                ai += 1;
                if a.word != e.word && a.text != e.text {
                    return Err((
                        diff_class(&e.text, &a.text),
                        format!("requested `{}` (LLVM encodes it as {:08x}, prints `{}`); emitted word {:08x} decodes to `{}`", t, e.word, e.text, a.word, a.text),
                    ));
                }
            }
            Elem::MovSeq { rd, value, is64 } => {
                let mut cur: Option<u64> = None;
                let mut n = 0;
                while let Some(a) = actual.get(ai) {
                    match apply_mov(&a.text, rd, *is64, cur) {
                        Some(v) => {
                            cur = Some(v);
                            ai += 1;
                            n += 1;
                        }
                        None => break,
                    }
                }
                if n == 0 {
                    let got = actual.get(ai).map(|a| a.text.clone()).unwrap_or_else(|| "<nothing>".into());
                    return Err(("mov-sequence-missing".into(), format!("expected a move-wide sequence loading {value:#x} into {rd}, found `{got}`")));
                }
                if cur != Some(*value) {
                    let seq: Vec<String> = actual[ai - n..ai].iter().map(|a| a.text.clone()).collect();
                    return Err(("mov-sequence-value".into(), format!("move-wide sequence `{}` leaves {:#x} in {rd}, requested {value:#x}", seq.join("; "), cur.unwrap_or(0))));
                }
            }
        }
    }
    if ai != actual.len() {
        let extra: Vec<String> = actual[ai..].iter().map(|a| a.text.clone()).collect();
        return Err(("length".into(), format!("{} extra instruction(s) emitted: `{}`", actual.len() - ai, extra.join("; "))));
    }
    Ok(())
}

/// Check every block against its alternatives with one llvm-mc and one llvm-objdump run.
pub fn check_blocks(blocks: &[Block]) -> Result<Vec<Verdict>, ToolError> {
    if blocks.is_empty() {
        return Ok(vec![]);
    }
    let mut items: Vec<String> = vec![];
    let mut labels: Vec<(usize, String)> = vec![];
    // (block, start of A, [(start of E alt, count)])
    let mut layout: Vec<(usize, Vec<(usize, usize)>)> = vec![];
    let mut item_owner: Vec<(usize, Option<String>)> = vec![];
    for (bi, b) in blocks.iter().enumerate() {
        let a_start = items.len();
        if !b.words.is_empty() {
            labels.push((a_start, format!("A{bi}")));
        }
        for w in &b.words {
            items.push(format!(".inst {w:#010x}"));
            item_owner.push((bi, None));
        }
        let mut es = vec![];
        for (ai, alt) in b.alts.iter().enumerate() {
            let e_start = items.len();
            let texts: Vec<&String> = alt.iter().filter_map(|e| if let Elem::Text(t) = e { Some(t) } else { None }).collect();
            if !texts.is_empty() {
                labels.push((e_start, format!("E{bi}_{ai}")));
            }
            for t in &texts {
                items.push((*t).clone());
                item_owner.push((bi, Some((*t).clone())));
            }
            es.push((e_start, texts.len()));
        }
        layout.push((a_start, es));
    }
    let decoded = match run_llvm(&items, &labels) {
        Ok(d) => d,
        Err((Some(item), err)) => {
            let (bi, text) = item_owner[item].clone();
            return Err(match text {
                Some(text) => ToolError::ExpectedRejected { block: bi, text, err },
                None => ToolError::Other(format!("llvm-mc rejected `{}`: {err}", items[item])),
            });
        }
        Err((None, err)) => return Err(ToolError::Other(err)),
    };
    let mut out = Vec::with_capacity(blocks.len());
    for (bi, b) in blocks.iter().enumerate() {
        let (a_start, es) = &layout[bi];
        let actual = &decoded[*a_start..*a_start + b.words.len()];
        if let Some(u) = actual.iter().find(|a| a.text.starts_with("<unknown>")) {
            out.push(Verdict::Mismatch {
                class: "unallocated-encoding".into(),
                detail: format!("emitted word {:08x} is not an instruction (LLVM: <unknown>)", u.word),
                actual: actual.iter().map(|a| a.text.clone()).collect(),
            });
            continue;
        }
        let mut first_err: Option<(String, String)> = None;
        let mut same_len_err: Option<(String, String)> = None;
        let mut matched = false;
        for (ai, alt) in b.alts.iter().enumerate() {
            let (e_start, n) = es[ai];
            match match_alt(alt, &decoded[e_start..e_start + n], actual) {
                Ok(()) => {
                    matched = true;
                    break;
                }
                Err(e) => {
                    if e.0 != "length" && same_len_err.is_none() {
                        same_len_err = Some(e.clone());
                    }
                    if first_err.is_none() {
                        first_err = Some(e);
                    }
                }
            }
        }
        if matched {
            out.push(Verdict::Match);
        } else {
            let (class, detail) = same_len_err.or(first_err).unwrap_or(("no-alternative".into(), "no expected alternative".into()));
            out.push(Verdict::Mismatch { class, detail, actual: actual.iter().map(|a| a.text.clone()).collect() });
        }
    }
    Ok(out)
}

/// Decode words for diagnostics (refusal violations show what the silently emitted word means).
pub fn decode_words(words: &[u32]) -> Vec<String> {
    let items: Vec<String> = words.iter().map(|w| format!(".inst {w:#010x}")).collect();
    match run_llvm(&items, &[]) {
        Ok(d) => d.into_iter().map(|d| d.text).collect(),
        Err(_) => words.iter().map(|w| format!("{w:08x}")).collect(),
    }
}
