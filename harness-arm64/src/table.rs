//! One row per public instruction-emitting method of `AssemblerArm64`:
//! how to call it, which operand kinds it takes (with the *architectural* legality of each
//! operand, written from the Arm ARM and not from the assembler), and the text of the requested
//! instruction in LLVM syntax.

use crate::ops::*;
use dora_asm::arm64::{AssemblerArm64 as Asm, MemOperand};
use std::collections::HashSet;
use std::sync::OnceLock;
use vh::vcore::Choices;

#[derive(Clone, Copy, Debug, PartialEq, Eq)]
pub enum At31 {
    /// register number 31 at this position is the zero register
    Zr,
    /// register number 31 at this position is the stack pointer
    Sp,
    /// the method picks an encoding in which the requested one exists (add/sub/mov)
    Either,
}

#[derive(Clone, Copy, Debug, PartialEq, Eq)]
pub enum Ty {
    U32,
    I32,
    I64,
    U64,
}

impl Ty {
    pub fn holds(self, v: i128) -> bool {
        match self {
            Ty::U32 => v >= 0 && v <= u32::MAX as i128,
            Ty::I32 => v >= i32::MIN as i128 && v <= i32::MAX as i128,
            Ty::I64 => v >= i64::MIN as i128 && v <= i64::MAX as i128,
            Ty::U64 => v >= 0 && v <= u64::MAX as i128,
        }
    }
}

#[derive(Clone, Debug)]
pub enum ImmSpec {
    /// legal iff lo <= v <= hi and v % step == 0
    Range { lo: i64, hi: i64, step: i64 },
    /// add/sub immediate: 12 bits, optionally shifted left by 12
    AddSub,
    /// bitmask immediate of the given register width
    Logical { bits: u32 },
    /// one of a few values
    Set(&'static [i64]),
    /// every value of the parameter type is legal (composite methods)
    Any,
}

#[derive(Clone, Debug)]
#[allow(dead_code)]
pub enum Kind {
    Reg { name: &'static str, at31: At31 },
    FReg { name: &'static str },
    Shift { allow_ror: bool },
    Extend { ldst: bool },
    Cond,
    Imm { name: &'static str, ty: Ty, spec: ImmSpec },
}

impl Kind {
    #[allow(dead_code)]
    pub fn name(&self) -> &'static str {
        match self {
            Kind::Reg { name, .. } | Kind::FReg { name } | Kind::Imm { name, .. } => name,
            Kind::Shift { .. } => "shift",
            Kind::Extend { .. } => "extend",
            Kind::Cond => "cond",
        }
    }
}

/// One element of an expected instruction sequence.
#[derive(Clone, Debug, PartialEq, Eq)]
pub enum Elem {
    /// exactly this instruction (LLVM syntax, pc-relative operands as `#offset`)
    Text(String),
    /// any movz/movn/movk sequence that leaves `value` in `rd`
    MovSeq { rd: String, value: u64, is64: bool },
}
pub type Alt = Vec<Elem>;

pub type CallFn = Box<dyn Fn(&mut Asm, &[Op]) + Send + Sync>;
pub type ExpectFn = Box<dyn Fn(&[Op]) -> Vec<Alt> + Send + Sync>;
pub type PredFn = Box<dyn Fn(&[Op]) -> bool + Send + Sync>;
pub type ClassFn = Box<dyn Fn(&[Op]) -> Option<String> + Send + Sync>;

pub struct Row {
    pub name: &'static str,
    pub family: &'static str,
    pub kinds: Vec<Kind>,
    pub call: CallFn,
    /// requested instruction(s); only called for architecturally legal operands
    pub expect: ExpectFn,
    /// operand combinations that are legal encodings but that the generator avoids
    /// (CONSTRAINED UNPREDICTABLE register overlaps which llvm-mc rejects, reserved field combinations)
    pub valid: Option<PredFn>,
    /// cross-operand illegality (the requested instruction does not exist => must be refused)
    pub cross_illegal: Option<ClassFn>,
}

// ---------------------------------------------------------------------------
// Logical immediates, enumerated from the definition (Arm ARM DecodeBitMasks), not from the
// assembler's encoder.

fn ror_elem(v: u64, rot: u32, esize: u32) -> u64 {
    if rot == 0 {
        return v;
    }
    let mask = if esize == 64 { !0u64 } else { (1u64 << esize) - 1 };
    ((v >> rot) | (v << (esize - rot))) & mask
}

fn gen_logical(bits: u32) -> Vec<u64> {
    let mut out = HashSet::new();
    let mut esize = 2u32;
    while esize <= bits {
        for ones in 1..esize {
            let base = (1u64 << ones) - 1;
            for rot in 0..esize {
                let elem = ror_elem(base, rot, esize);
                let mut v = 0u64;
                let mut pos = 0;
                while pos < bits {
                    v |= elem << pos;
                    pos += esize;
                }
                out.insert(v);
            }
        }
        esize *= 2;
    }
    let mut v: Vec<u64> = out.into_iter().collect();
    v.sort();
    v
}

pub fn logical_list(bits: u32) -> &'static Vec<u64> {
    static L64: OnceLock<Vec<u64>> = OnceLock::new();
    static L32: OnceLock<Vec<u64>> = OnceLock::new();
    if bits == 64 { L64.get_or_init(|| gen_logical(64)) } else { L32.get_or_init(|| gen_logical(32)) }
}

pub fn logical_set(bits: u32) -> &'static HashSet<u64> {
    static S64: OnceLock<HashSet<u64>> = OnceLock::new();
    static S32: OnceLock<HashSet<u64>> = OnceLock::new();
    if bits == 64 {
        S64.get_or_init(|| logical_list(64).iter().copied().collect())
    } else {
        S32.get_or_init(|| logical_list(32).iter().copied().collect())
    }
}

// ---------------------------------------------------------------------------
// Immediate legality / boundaries / drawing

impl ImmSpec {
    pub fn legal(&self, v: Op) -> bool {
        match self {
            ImmSpec::Range { lo, hi, step } => {
                let x = v.i();
                x >= *lo && x <= *hi && x.rem_euclid(*step) == 0
            }
            ImmSpec::AddSub => {
                let x = v.i();
                (0..=4095).contains(&x) || (x >= 0 && x & 0xfff == 0 && (x >> 12) <= 4095)
            }
            ImmSpec::Logical { bits } => logical_set(*bits).contains(&v.u64()),
            ImmSpec::Set(s) => s.contains(&v.i()),
            ImmSpec::Any => true,
        }
    }

    /// why `v` is not encodable (short class label)
    pub fn illegal_class(&self, v: Op) -> &'static str {
        match self {
            ImmSpec::Range { lo, hi, step } => {
                let x = v.i();
                if x < *lo {
                    "below-min"
                } else if x > *hi {
                    "above-max"
                } else if x.rem_euclid(*step) != 0 {
                    "misaligned"
                } else {
                    "?"
                }
            }
            ImmSpec::AddSub => {
                let x = v.i();
                if x > 0xfff000 { "above-max" } else { "not-imm12-or-imm12-lsl-12" }
            }
            ImmSpec::Logical { bits } => {
                let x = v.u64();
                if *bits == 32 && x >> 32 != 0 {
                    "wider-than-register"
                } else if x == 0 {
                    "zero"
                } else if (*bits == 64 && x == !0) || (*bits == 32 && x == 0xffff_ffff) {
                    "all-ones"
                } else {
                    "not-a-bitmask"
                }
            }
            ImmSpec::Set(_) => "not-in-set",
            ImmSpec::Any => "?",
        }
    }

    /// within one step of an end of the legal range (non-trivial rule)
    pub fn near_end(&self, v: Op) -> bool {
        match self {
            ImmSpec::Range { lo, hi, step } => {
                let x = v.i();
                (x - lo).abs() <= *step || (x - hi).abs() <= *step
            }
            ImmSpec::AddSub => {
                let x = v.i();
                x <= 1 || (4094..=4096).contains(&x) || x == 8192 || x >= 0xffe000
            }
            ImmSpec::Logical { .. } => {
                let x = v.u64();
                x == 1 || x == 2 || x.count_ones() == 1 || x.count_zeros() == 1 || (x as u32).count_zeros() == 1
            }
            ImmSpec::Set(s) => Some(&v.i()) == s.first() || Some(&v.i()) == s.last(),
            ImmSpec::Any => {
                let x = v.i();
                x == i64::MIN || x == i64::MAX || x == i32::MIN as i64 || x == i32::MAX as i64 || x == -1 || x == 0
            }
        }
    }

    fn mk(ty: Ty, v: i128) -> Option<Op> {
        if !ty.holds(v) {
            return None;
        }
        Some(if ty == Ty::U64 { Op::U(v as u64) } else { Op::I(v as i64) })
    }

    /// boundary values, legal and illegal, for the deterministic sweep
    pub fn boundaries(&self, ty: Ty) -> Vec<Op> {
        let mut c: Vec<i128> = vec![];
        match self {
            ImmSpec::Range { lo, hi, step } => {
                let (lo, hi, st) = (*lo as i128, *hi as i128, *step as i128);
                for b in [lo, hi, 0] {
                    for d in [-2 * st, -st, -1, 0, 1, st, 2 * st] {
                        c.push(b + d);
                    }
                }
                c.push((lo + hi) / 2 / st * st);
                c.extend([i32::MIN as i128, i32::MAX as i128, u32::MAX as i128, 2 * (hi + st), 2 * lo - st]);
                // aliases modulo the field width (silent truncation lands on a legal-looking value)
                let span = hi - lo + st;
                c.extend([lo + span, hi + span, lo - span, lo + 2 * span, 1 + span]);
            }
            ImmSpec::AddSub => {
                c.extend([0, 1, 2, 0x7ff, 0x800, 4094, 4095, 4096, 4097, 8191, 8192, 0x1001, 0x2000, 0x123000, 0x123456, 0xffe000, 0xfff000, 0xfff001, 0xffffff, 0x1000000, 0x1001000, 0x80000000, u32::MAX as i128]);
            }
            ImmSpec::Logical { bits } => {
                c.extend([0, 1, 2, 3, 5, 6, 7, 9, 0xff, 0x101, 0xf0f, 0xff00, 0xff01, 0x1234, 0x5555_5555, 0xaaaa_aaaa, 0x7fff_ffff, 0x8000_0000, 0xffff_fffe, 0xffff_ffff, 0x1_0000_0000, 0x1_0000_0001, 0x5555_5555_5555_5555, 0xff00_ff00_ff00_ff00, 0xffff_ffff_0000_0000, 0x8000_0000_0000_0000, 0x7fff_ffff_ffff_ffff, 0xffff_ffff_ffff_fffe, u64::MAX as i128, 0x0000_ffff_0000_fffe, 0xdead_beef]);
                let _ = bits;
            }
            ImmSpec::Set(s) => {
                for &x in s.iter() {
                    c.extend([x as i128 - 1, x as i128, x as i128 + 1]);
                }
                c.extend([64, 8, 100]);
            }
            ImmSpec::Any => {
                c.extend([0, 1, -1, 2, 255, 256, -256, -257, 4095, 4096, 0xffff, 0x10000, 0xffff0000, 0x12345678, -0x12345678, i32::MIN as i128, i32::MAX as i128, u32::MAX as i128, 0x1_0000_0000, 0xffff_0000_0000, 0x1234_0000_5678, -0x1_0000_0000, 0x7fff_ffff_ffff_ffff, i64::MIN as i128, 0x1234_5678_9abc_def0, -2, 0xffff_ffff_0000_ffffu64 as i64 as i128, 0x0000_ffff_ffff_0000]);
            }
        }
        let mut out: Vec<Op> = vec![];
        for v in c {
            if let Some(o) = Self::mk(ty, v) {
                if !out.contains(&o) {
                    out.push(o);
                }
            }
        }
        out
    }

    pub fn draw(&self, c: &mut Choices, ty: Ty, want_illegal: bool) -> Op {
        // half of the draws come from the boundary list
        let b = self.boundaries(ty);
        let from_b: Vec<Op> = b.iter().copied().filter(|o| self.legal(*o) != want_illegal).collect();
        let use_b = c.chance(1, 2);
        if (use_b || matches!(self, ImmSpec::Set(_))) && !from_b.is_empty() {
            return *c.pick(&from_b);
        }
        let rnd: Op = match self {
            ImmSpec::Range { lo, hi, step } => {
                if !want_illegal {
                    let n = (hi - lo) / step;
                    Op::I(lo + c.range(0, n) * step)
                } else {
                    let span = hi - lo + step;
                    let v = match c.below(4) {
                        0 => *hi as i128 + 1 + c.range(0, 4 * span as i64) as i128,
                        1 => *lo as i128 - 1 - c.range(0, 4 * span as i64) as i128,
                        2 if *step > 1 => (lo + c.range(0, (hi - lo) / step - 1) * step + 1 + c.range(0, step - 2)) as i128,
                        _ => *hi as i128 + (1 + c.range(0, 3)) as i128 * span as i128,
                    };
                    Self::mk(ty, v).unwrap_or_else(|| Self::mk(ty, *hi as i128 + *step as i128).unwrap_or(Op::I(hi + step)))
                }
            }
            ImmSpec::AddSub => {
                if !want_illegal {
                    if c.chance(1, 2) { Op::I(c.range(0, 4095)) } else { Op::I(c.range(0, 4095) << 12) }
                } else {
                    let v = c.range(0, u32::MAX as i64);
                    Op::I(if (0..=4095).contains(&v) || v & 0xfff == 0 { v | 0x1001 } else { v })
                }
            }
            ImmSpec::Logical { bits } => {
                if !want_illegal {
                    let l = logical_list(*bits);
                    Op::U(l[c.below(l.len())])
                } else {
                    let v = c.u64() >> (c.below(3) * 16);
                    Op::U(if self.legal(Op::U(v)) { 0 } else { v })
                }
            }
            ImmSpec::Set(s) => Op::I(if want_illegal { s[s.len() - 1] + 1 + c.range(0, 70) } else { *c.pick(s) }),
            ImmSpec::Any => {
                let raw = c.u64() as i64;
                let v = raw >> (c.below(8) * 8);
                Self::mk(ty, v as i128).unwrap_or(Op::I(v as i32 as i64))
            }
        };
        if self.legal(rnd) != want_illegal {
            rnd
        } else if !from_b.is_empty() {
            *c.pick(&from_b)
        } else {
            rnd
        }
    }
}

// ---------------------------------------------------------------------------
// helpers for the expected text

fn x(o: Op) -> String {
    greg(o, true, true).expect("x: operand must be legal here")
}
fn w(o: Op) -> String {
    greg(o, false, true).expect("w: operand must be legal here")
}
fn xs(o: Op) -> String {
    greg(o, true, false).expect("xs: operand must be legal here")
}
fn ws(o: Op) -> String {
    greg(o, false, false).expect("ws: operand must be legal here")
}
/// register of the given width, 31 = zr
fn g(o: Op, sf: bool) -> String {
    if sf { x(o) } else { w(o) }
}
/// register of the given width, 31 = sp
fn gs(o: Op, sf: bool) -> String {
    if sf { xs(o) } else { ws(o) }
}
/// register of the given width, whichever special register was passed
fn ge(o: Op, sf: bool) -> String {
    greg(o, sf, o.rnum() != SP).unwrap()
}
fn d(o: Op) -> String {
    format!("d{}", o.rnum())
}
fn s(o: Op) -> String {
    format!("s{}", o.rnum())
}
fn fp(o: Op, double: bool) -> String {
    if double { d(o) } else { s(o) }
}
fn one(t: String) -> Vec<Alt> {
    vec![vec![Elem::Text(t)]]
}
fn alts(ts: Vec<String>) -> Vec<Alt> {
    ts.into_iter().map(|t| vec![Elem::Text(t)]).collect()
}

macro_rules! call {
    ($m:ident $(, $conv:ident)*) => {{
        Box::new(|a: &mut Asm, o: &[Op]| {
            #[allow(unused_mut, unused_variables)]
            let mut i = 0usize;
            a.$m($({ let v = o[i].$conv(); i += 1; v }),*);
            let _ = (i, o);
        }) as CallFn
    }};
}

fn rz(name: &'static str) -> Kind {
    Kind::Reg { name, at31: At31::Zr }
}
fn rs(name: &'static str) -> Kind {
    Kind::Reg { name, at31: At31::Sp }
}
fn re(name: &'static str) -> Kind {
    Kind::Reg { name, at31: At31::Either }
}
fn fr(name: &'static str) -> Kind {
    Kind::FReg { name }
}
fn imm(name: &'static str, ty: Ty, spec: ImmSpec) -> Kind {
    Kind::Imm { name, ty, spec }
}
fn range(name: &'static str, ty: Ty, lo: i64, hi: i64, step: i64) -> Kind {
    imm(name, ty, ImmSpec::Range { lo, hi, step })
}

struct B {
    rows: Vec<Row>,
}

impl B {
    fn add(&mut self, name: &'static str, family: &'static str, kinds: Vec<Kind>, call: CallFn, expect: ExpectFn) -> &mut Row {
        self.rows.push(Row { name, family, kinds, call, expect, valid: None, cross_illegal: None });
        self.rows.last_mut().unwrap()
    }
}

fn is_plain(o: Op) -> bool {
    o.rnum() <= 30
}

/// rm text + extend text for the extended-register add/sub forms
fn ext_operand(rm: Op, ext: u8, amount: i64, sf: bool) -> String {
    // Extend::LSL requests a plain left shift of the full-width register: that is UXTX in the
    // 64-bit form and UXTW in the 32-bit form (Arm ARM: "LSL" is the preferred spelling of these).
    let name = match EXT_NAMES[ext as usize] {
        "lsl" => {
            if sf { "uxtx" } else { "uxtw" }
        }
        n => n,
    };
    let rm_is_x = sf && (name == "uxtx" || name == "sxtx");
    let r = if rm_is_x { x(rm) } else { w(rm) };
    if amount == 0 { format!("{r}, {name}") } else { format!("{r}, {name} #{amount}") }
}

fn addsub_imm_text(v: i64) -> String {
    if v <= 4095 { format!("#{v}") } else { format!("#{}, lsl #12", v >> 12) }
}

fn build() -> Vec<Row> {
    let mut b = B { rows: vec![] };

    // ---- add/sub (register), the forms that choose between shifted and extended encoding
    macro_rules! arith3_sp {
        ($m:ident, $mn:literal, $sf:literal) => {{
            let r = b.add(
                stringify!($m),
                "addsub-reg",
                vec![re("rd"), re("rn"), rz("rm")],
                call!($m, r, r, r),
                Box::new(|o| {
                    let sp = o[0].rnum() == SP || o[1].rnum() == SP;
                    let base = format!("{} {}, {}, {}", $mn, ge(o[0], $sf), ge(o[1], $sf), g(o[2], $sf));
                    if sp && !$sf {
                        // 32-bit: with Rd/Rn = wsp both UXTW (LLVM's choice) and UXTX denote a plain Wm
                        alts(vec![base.clone(), format!("{base}, uxtx")])
                    } else {
                        one(base)
                    }
                }),
            );
            r.cross_illegal = Some(Box::new(|o| {
                let sp = o[0].rnum() == SP || o[1].rnum() == SP;
                let zr = o[0].rnum() == ZR || o[1].rnum() == ZR;
                if sp && zr { Some("sp-and-zr-in-one-instruction".to_string()) } else { None }
            }));
        }};
    }
    arith3_sp!(add, "add", true);
    arith3_sp!(add_w, "add", false);
    arith3_sp!(sub, "sub", true);
    arith3_sp!(sub_w, "sub", false);

    macro_rules! arith3 {
        ($m:ident, $mn:literal, $sf:literal) => {
            b.add(
                stringify!($m),
                "addsub-reg",
                vec![rz("rd"), rz("rn"), rz("rm")],
                call!($m, r, r, r),
                Box::new(|o| one(format!("{} {}, {}, {}", $mn, g(o[0], $sf), g(o[1], $sf), g(o[2], $sf)))),
            );
        };
    }
    arith3!(adds, "adds", true);
    arith3!(adds_w, "adds", false);
    arith3!(subs, "subs", true);
    arith3!(subs_w, "subs", false);

    b.add(
        "cmp",
        "addsub-reg",
        vec![rz("rn"), rz("rm")],
        call!(cmp, r, r),
        Box::new(|o| one(format!("cmp {}, {}", x(o[0]), x(o[1])))),
    );
    b.add(
        "cmp_w",
        "addsub-reg",
        vec![rz("rn"), rz("rm")],
        call!(cmp_w, r, r),
        Box::new(|o| one(format!("cmp {}, {}", w(o[0]), w(o[1])))),
    );

    // ---- add/sub (shifted register)
    macro_rules! shreg {
        ($m:ident, $mn:literal, $sf:literal) => {
            b.add(
                stringify!($m),
                "addsub-shifted",
                vec![rz("rd"), rz("rn"), rz("rm"), Kind::Shift { allow_ror: false }, range("amount", Ty::U32, 0, if $sf { 63 } else { 31 }, 1)],
                call!($m, r, r, r, sh, u32),
                Box::new(|o| one(format!("{} {}, {}, {}, {} #{}", $mn, g(o[0], $sf), g(o[1], $sf), g(o[2], $sf), SHIFT_NAMES[o[3].shn() as usize], o[4].i()))),
            );
        };
    }
    shreg!(add_sh, "add", true);
    shreg!(add_sh_w, "add", false);
    shreg!(adds_sh, "adds", true);
    shreg!(adds_sh_w, "adds", false);
    shreg!(sub_sh, "sub", true);
    shreg!(sub_sh_w, "sub", false);
    shreg!(subs_sh, "subs", true);
    shreg!(subs_sh_w, "subs", false);
    macro_rules! cmp_sh {
        ($m:ident, $sf:literal) => {
            b.add(
                stringify!($m),
                "addsub-shifted",
                vec![rz("rn"), rz("rm"), Kind::Shift { allow_ror: false }, range("amount", Ty::U32, 0, if $sf { 63 } else { 31 }, 1)],
                call!($m, r, r, sh, u32),
                Box::new(|o| one(format!("cmp {}, {}, {} #{}", g(o[0], $sf), g(o[1], $sf), SHIFT_NAMES[o[2].shn() as usize], o[3].i()))),
            );
        };
    }
    cmp_sh!(cmp_sh, true);
    cmp_sh!(cmp_sh_w, false);

    // ---- add/sub (extended register)
    macro_rules! extreg {
        ($m:ident, $mn:literal, $sf:literal, $setflags:literal) => {
            b.add(
                stringify!($m),
                "addsub-extended",
                vec![if $setflags { rz("rd") } else { rs("rd") }, rs("rn"), rz("rm"), Kind::Extend { ldst: false }, range("amount", Ty::U32, 0, 4, 1)],
                call!($m, r, r, r, ext, u32),
                Box::new(|o| {
                    let rd = if $setflags { g(o[0], $sf) } else { gs(o[0], $sf) };
                    one(format!("{} {}, {}, {}", $mn, rd, gs(o[1], $sf), ext_operand(o[2], o[3].extn(), o[4].i(), $sf)))
                }),
            );
        };
    }
    extreg!(add_ext, "add", true, false);
    extreg!(add_ext_w, "add", false, false);
    extreg!(sub_ext, "sub", true, false);
    extreg!(sub_ext_w, "sub", false, false);
    extreg!(subs_ext, "subs", true, true);
    extreg!(subs_ext_w, "subs", false, true);
    macro_rules! cmp_ext {
        ($m:ident, $sf:literal) => {
            b.add(
                stringify!($m),
                "addsub-extended",
                vec![rs("rn"), rz("rm"), Kind::Extend { ldst: false }, range("amount", Ty::U32, 0, 4, 1)],
                call!($m, r, r, ext, u32),
                Box::new(|o| one(format!("cmp {}, {}", gs(o[0], $sf), ext_operand(o[1], o[2].extn(), o[3].i(), $sf)))),
            );
        };
    }
    cmp_ext!(cmp_ext, true);
    cmp_ext!(cmp_ext_w, false);

    // ---- add/sub (immediate)
    macro_rules! addsub_imm {
        ($m:ident, $mn:literal, $sf:literal, $setflags:literal) => {
            b.add(
                stringify!($m),
                "addsub-imm",
                vec![if $setflags { rz("rd") } else { rs("rd") }, rs("rn"), imm("imm", Ty::U32, ImmSpec::AddSub)],
                call!($m, r, r, u32),
                Box::new(|o| {
                    let rd = if $setflags { g(o[0], $sf) } else { gs(o[0], $sf) };
                    one(format!("{} {}, {}, {}", $mn, rd, gs(o[1], $sf), addsub_imm_text(o[2].i())))
                }),
            );
        };
    }
    addsub_imm!(add_imm, "add", true, false);
    addsub_imm!(add_imm_w, "add", false, false);
    addsub_imm!(adds_imm, "adds", true, true);
    addsub_imm!(adds_imm_w, "adds", false, true);
    addsub_imm!(sub_imm, "sub", true, false);
    addsub_imm!(sub_imm_w, "sub", false, false);
    addsub_imm!(subs_imm, "subs", true, true);
    addsub_imm!(subs_imm_w, "subs", false, true);
    macro_rules! cmp_imm {
        ($m:ident, $mn:literal, $sf:literal) => {
            b.add(
                stringify!($m),
                "addsub-imm",
                vec![rs("rn"), imm("imm", Ty::U32, ImmSpec::AddSub)],
                call!($m, r, u32),
                Box::new(|o| one(format!("{} {}, {}", $mn, gs(o[0], $sf), addsub_imm_text(o[1].i())))),
            );
        };
    }
    cmp_imm!(cmp_imm, "cmp", true);
    cmp_imm!(cmp_imm_w, "cmp", false);
    cmp_imm!(cmn_imm, "cmn", true);
    cmp_imm!(cmn_imm_w, "cmn", false);

    // ---- logical (immediate)
    b.add(
        "and_imm",
        "logical-imm",
        vec![rs("rd"), rz("rn"), imm("imm", Ty::U64, ImmSpec::Logical { bits: 64 })],
        call!(and_imm, r, r, u64),
        Box::new(|o| one(format!("and {}, {}, #{:#x}", xs(o[0]), x(o[1]), o[2].u64()))),
    );
    b.add(
        "and_imm_w",
        "logical-imm",
        vec![rs("rd"), rz("rn"), imm("imm", Ty::U64, ImmSpec::Logical { bits: 32 })],
        call!(and_imm_w, r, r, u64),
        Box::new(|o| one(format!("and {}, {}, #{:#x}", ws(o[0]), w(o[1]), o[2].u64()))),
    );

    // ---- logical (shifted register)
    macro_rules! logical_sh {
        ($m:ident, $mn:literal, $sf:literal) => {
            b.add(
                stringify!($m),
                "logical-shifted",
                vec![rz("rd"), rz("rn"), rz("rm"), Kind::Shift { allow_ror: true }, range("amount", Ty::U32, 0, if $sf { 63 } else { 31 }, 1)],
                call!($m, r, r, r, sh, u32),
                Box::new(|o| one(format!("{} {}, {}, {}, {} #{}", $mn, g(o[0], $sf), g(o[1], $sf), g(o[2], $sf), SHIFT_NAMES[o[3].shn() as usize], o[4].i()))),
            );
        };
    }
    logical_sh!(and_sh, "and", true);
    logical_sh!(and_sh_w, "and", false);
    logical_sh!(ands_sh, "ands", true);
    logical_sh!(ands_sh_w, "ands", false);
    logical_sh!(bic_sh, "bic", true);
    logical_sh!(bic_sh_w, "bic", false);
    logical_sh!(bics_sh, "bics", true);
    logical_sh!(bics_sh_w, "bics", false);
    logical_sh!(eon_sh, "eon", true);
    logical_sh!(eon_sh_w, "eon", false);
    logical_sh!(eor_sh, "eor", true);
    logical_sh!(eor_sh_w, "eor", false);
    logical_sh!(orn_sh, "orn", true);
    logical_sh!(orn_sh_w, "orn", false);
    logical_sh!(orr_sh, "orr", true);
    logical_sh!(orr_sh_w, "orr", false);

    // ---- data processing (2 sources)
    macro_rules! dp2 {
        ($m:ident, $mn:literal, $sf:literal) => {
            b.add(
                stringify!($m),
                "dataproc2",
                vec![rz("rd"), rz("rn"), rz("rm")],
                call!($m, r, r, r),
                Box::new(|o| one(format!("{} {}, {}, {}", $mn, g(o[0], $sf), g(o[1], $sf), g(o[2], $sf)))),
            );
        };
    }
    dp2!(asrv, "asr", true);
    dp2!(asrv_w, "asr", false);
    dp2!(lsl, "lsl", true);
    dp2!(lsl_w, "lsl", false);
    dp2!(lsr, "lsr", true);
    dp2!(lsr_w, "lsr", false);
    dp2!(ror, "ror", true);
    dp2!(ror_w, "ror", false);
    dp2!(sdiv, "sdiv", true);
    dp2!(sdiv_w, "sdiv", false);
    dp2!(udiv, "udiv", true);
    dp2!(udiv_w, "udiv", false);

    // ---- data processing (1 source)
    macro_rules! dp1 {
        ($m:ident, $mn:literal, $sf:literal) => {
            b.add(
                stringify!($m),
                "dataproc1",
                vec![rz("rd"), rz("rn")],
                call!($m, r, r),
                Box::new(|o| one(format!("{} {}, {}", $mn, g(o[0], $sf), g(o[1], $sf)))),
            );
        };
    }
    dp1!(cls, "cls", true);
    dp1!(cls_w, "cls", false);
    dp1!(clz, "clz", true);
    dp1!(clz_w, "clz", false);
    dp1!(rbit, "rbit", true);
    dp1!(rbit_w, "rbit", false);
    dp1!(rev, "rev", true);
    dp1!(rev_w, "rev", false);

    // ---- data processing (3 sources)
    macro_rules! dp3 {
        ($m:ident, $mn:literal, $sf:literal) => {
            b.add(
                stringify!($m),
                "dataproc3",
                vec![rz("rd"), rz("rn"), rz("rm"), rz("ra")],
                call!($m, r, r, r, r),
                Box::new(|o| one(format!("{} {}, {}, {}, {}", $mn, g(o[0], $sf), g(o[1], $sf), g(o[2], $sf), g(o[3], $sf)))),
            );
        };
    }
    dp3!(madd, "madd", true);
    dp3!(madd_w, "madd", false);
    dp3!(msub, "msub", true);
    dp3!(msub_w, "msub", false);
    b.add(
        "smaddl",
        "dataproc3",
        vec![rz("rd"), rz("rn"), rz("rm"), rz("ra")],
        call!(smaddl, r, r, r, r),
        Box::new(|o| one(format!("smaddl {}, {}, {}, {}", x(o[0]), w(o[1]), w(o[2]), x(o[3])))),
    );
    b.add(
        "smull",
        "dataproc3",
        vec![rz("rd"), rz("rn"), rz("rm")],
        call!(smull, r, r, r),
        Box::new(|o| one(format!("smull {}, {}, {}", x(o[0]), w(o[1]), w(o[2])))),
    );
    b.add(
        "smulh",
        "dataproc3",
        vec![rz("rd"), rz("rn"), rz("rm")],
        call!(smulh, r, r, r),
        Box::new(|o| one(format!("smulh {}, {}, {}", x(o[0]), x(o[1]), x(o[2])))),
    );
    b.add(
        "mul",
        "dataproc3",
        vec![rz("rd"), rz("rn"), rz("rm")],
        call!(mul, r, r, r),
        Box::new(|o| one(format!("mul {}, {}, {}", x(o[0]), x(o[1]), x(o[2])))),
    );
    b.add(
        "mul_w",
        "dataproc3",
        vec![rz("rd"), rz("rn"), rz("rm")],
        call!(mul_w, r, r, r),
        Box::new(|o| one(format!("mul {}, {}, {}", w(o[0]), w(o[1]), w(o[2])))),
    );

    // ---- bitfield
    macro_rules! bitfield {
        ($m:ident, $mn:literal, $sf:literal) => {
            b.add(
                stringify!($m),
                "bitfield",
                vec![rz("rd"), rz("rn"), range("immr", Ty::U32, 0, if $sf { 63 } else { 31 }, 1), range("imms", Ty::U32, 0, if $sf { 63 } else { 31 }, 1)],
                call!($m, r, r, u32, u32),
                Box::new(|o| one(format!("{} {}, {}, #{}, #{}", $mn, g(o[0], $sf), g(o[1], $sf), o[2].i(), o[3].i()))),
            );
        };
    }
    bitfield!(bfm, "bfm", true);
    bitfield!(bfm_w, "bfm", false);
    bitfield!(sbfm, "sbfm", true);
    bitfield!(sbfm_w, "sbfm", false);
    bitfield!(ubfm, "ubfm", true);
    bitfield!(ubfm_w, "ubfm", false);
    macro_rules! shift_imm {
        ($m:ident, $mn:literal, $sf:literal) => {
            b.add(
                stringify!($m),
                "bitfield",
                vec![rz("rd"), rz("rn"), range("shift", Ty::U32, 0, if $sf { 63 } else { 31 }, 1)],
                call!($m, r, r, u32),
                Box::new(|o| one(format!("{} {}, {}, #{}", $mn, g(o[0], $sf), g(o[1], $sf), o[2].i()))),
            );
        };
    }
    shift_imm!(lsl_imm, "lsl", true);
    shift_imm!(lsl_imm_w, "lsl", false);
    shift_imm!(lsr_imm, "lsr", true);
    shift_imm!(lsr_imm_w, "lsr", false);
    b.add("sxtw", "bitfield", vec![rz("rd"), rz("rn")], call!(sxtw, r, r), Box::new(|o| one(format!("sxtw {}, {}", x(o[0]), w(o[1])))));
    b.add("uxtb", "bitfield", vec![rz("rd"), rz("rn")], call!(uxtb, r, r), Box::new(|o| one(format!("uxtb {}, {}", w(o[0]), w(o[1])))));
    // zero-extend word: the 64-bit bitfield extract of bits 0..31
    b.add("uxtw", "bitfield", vec![rz("rd"), rz("rn")], call!(uxtw, r, r), Box::new(|o| one(format!("ubfx {}, {}, #0, #32", x(o[0]), x(o[1])))));

    // ---- conditional select
    macro_rules! csel {
        ($m:ident, $mn:literal, $sf:literal) => {
            b.add(
                stringify!($m),
                "cond-select",
                vec![rz("rd"), rz("rn"), rz("rm"), Kind::Cond],
                call!($m, r, r, r, cond),
                Box::new(|o| one(format!("{} {}, {}, {}, {}", $mn, g(o[0], $sf), g(o[1], $sf), g(o[2], $sf), cond_text(cond_number(o[3].condn()))))),
            );
        };
    }
    csel!(csel, "csel", true);
    csel!(csel_w, "csel", false);
    csel!(csinc, "csinc", true);
    csel!(csinc_w, "csinc", false);
    csel!(csinv, "csinv", true);
    csel!(csinv_w, "csinv", false);
    b.add(
        "cset",
        "cond-select",
        vec![rz("rd"), Kind::Cond],
        call!(cset, r, cond),
        Box::new(|o| one(format!("cset {}, {}", x(o[0]), cond_text(cond_number(o[1].condn()))))),
    );
    b.add(
        "cset_w",
        "cond-select",
        vec![rz("rd"), Kind::Cond],
        call!(cset_w, r, cond),
        Box::new(|o| one(format!("cset {}, {}", w(o[0]), cond_text(cond_number(o[1].condn()))))),
    );

    // ---- move wide
    macro_rules! movw {
        ($m:ident, $mn:literal, $sf:literal) => {
            b.add(
                stringify!($m),
                "move-wide",
                vec![rz("rd"), range("imm16", Ty::U32, 0, 65535, 1), imm("shift", Ty::U32, ImmSpec::Set(if $sf { &[0, 16, 32, 48] } else { &[0, 16] }))],
                call!($m, r, u32, u32),
                Box::new(|o| one(format!("{} {}, #{}, lsl #{}", $mn, g(o[0], $sf), o[1].i(), o[2].i()))),
            );
        };
    }
    movw!(movn, "movn", true);
    movw!(movn_w, "movn", false);
    movw!(movz, "movz", true);
    movw!(movz_w, "movz", false);
    movw!(movk, "movk", true);
    movw!(movk_w, "movk", false);
    b.add(
        "mov_imm",
        "move-wide",
        vec![rz("rd"), imm("imm", Ty::I64, ImmSpec::Any)],
        call!(mov_imm, r, i),
        Box::new(|o| vec![vec![Elem::MovSeq { rd: x(o[0]), value: o[1].i() as u64, is64: true }]]),
    );
    b.add(
        "mov_imm_w",
        "move-wide",
        vec![rz("rd"), imm("imm", Ty::I32, ImmSpec::Any)],
        call!(mov_imm_w, r, i32),
        Box::new(|o| vec![vec![Elem::MovSeq { rd: w(o[0]), value: (o[1].i() as u64) & 0xffff_ffff, is64: false }]]),
    );
    macro_rules! movreg {
        ($m:ident, $sf:literal) => {{
            let r = b.add(
                stringify!($m),
                "move-reg",
                vec![re("rd"), re("rs")],
                call!($m, r, r),
                Box::new(|o| one(format!("mov {}, {}", ge(o[0], $sf), ge(o[1], $sf)))),
            );
            r.cross_illegal = Some(Box::new(|o| {
                let sp = o[0].rnum() == SP || o[1].rnum() == SP;
                let zr = o[0].rnum() == ZR || o[1].rnum() == ZR;
                if sp && zr { Some("sp-and-zr-in-one-instruction".to_string()) } else { None }
            }));
        }};
    }
    movreg!(mov, true);
    movreg!(mov_w, false);

    // ---- pc-relative, branches with immediate operands, branches to registers
    b.add(
        "adr_imm",
        "pcrel",
        vec![rz("rd"), range("imm", Ty::I32, -(1 << 20), (1 << 20) - 1, 1)],
        call!(adr_imm, r, i32),
        Box::new(|o| one(format!("adr {}, #{}", x(o[0]), o[1].i()))),
    );
    b.add(
        "adrp_imm",
        "pcrel",
        vec![rz("rd"), range("imm", Ty::I32, -(1 << 20), (1 << 20) - 1, 1)],
        call!(adrp_imm, r, i32),
        Box::new(|o| one(format!("adrp {}, #{}", x(o[0]), o[1].i() * 4096))),
    );
    b.add(
        "bl_imm",
        "branch-imm",
        vec![range("imm26", Ty::I32, -(1 << 25), (1 << 25) - 1, 1)],
        call!(bl_imm, i32),
        Box::new(|o| one(format!("bl #{}", o[0].i() * 4))),
    );
    macro_rules! cbz_imm {
        ($m:ident, $mn:literal, $sf:literal) => {
            b.add(
                stringify!($m),
                "branch-imm",
                vec![rz("rt"), range("diff", Ty::I32, -(1 << 18), (1 << 18) - 1, 1)],
                call!($m, r, i32),
                Box::new(|o| one(format!("{} {}, #{}", $mn, g(o[0], $sf), o[1].i() * 4))),
            );
        };
    }
    cbz_imm!(cbz_imm, "cbz", true);
    cbz_imm!(cbz_imm_w, "cbz", false);
    cbz_imm!(cbnz_imm, "cbnz", true);
    cbz_imm!(cbnz_imm_w, "cbnz", false);
    b.add("b_r", "branch-reg", vec![rz("rn")], call!(b_r, r), Box::new(|o| one(format!("br {}", x(o[0])))));
    b.add("bl_r", "branch-reg", vec![rz("rn")], call!(bl_r, r), Box::new(|o| one(format!("blr {}", x(o[0])))));
    b.add("ret", "branch-reg", vec![rz("rn")], call!(ret, r), Box::new(|o| one(format!("ret {}", x(o[0])))));

    // ---- system
    b.add("brk", "system", vec![range("imm16", Ty::U32, 0, 65535, 1)], call!(brk, u32), Box::new(|o| one(format!("brk #{}", o[0].i()))));
    b.add("dmb", "system", vec![range("crm", Ty::U32, 0, 15, 1)], call!(dmb, u32), Box::new(|o| one(format!("dmb #{}", o[0].i()))));
    b.add("dmb_ish", "system", vec![], call!(dmb_ish), Box::new(|_| one("dmb ish".to_string())));
    b.add("dmb_ishst", "system", vec![], call!(dmb_ishst), Box::new(|_| one("dmb ishst".to_string())));
    b.add("nop", "system", vec![], call!(nop), Box::new(|_| one("nop".to_string())));

    // ---- compare-and-swap, atomic memory operations (LSE)
    macro_rules! lse3 {
        ($m:ident, $mn:literal, $sf:literal) => {
            b.add(
                stringify!($m),
                "lse-atomics",
                vec![rz("rs"), rz("rt"), rs("rn")],
                call!($m, r, r, r),
                Box::new(|o| one(format!("{} {}, {}, [{}]", $mn, g(o[0], $sf), g(o[1], $sf), xs(o[2])))),
            );
        };
    }
    lse3!(cas, "cas", true);
    lse3!(cas_w, "cas", false);
    lse3!(casa, "casa", true);
    lse3!(casa_w, "casa", false);
    lse3!(casal, "casal", true);
    lse3!(casal_w, "casal", false);
    lse3!(casl, "casl", true);
    lse3!(casl_w, "casl", false);
    lse3!(ldadd, "ldadd", true);
    lse3!(ldadd_w, "ldadd", false);
    lse3!(ldadda, "ldadda", true);
    lse3!(ldadda_w, "ldadda", false);
    lse3!(ldaddal, "ldaddal", true);
    lse3!(ldaddal_w, "ldaddal", false);
    lse3!(ldaddl, "ldaddl", true);
    lse3!(ldaddl_w, "ldaddl", false);
    lse3!(swp, "swp", true);
    lse3!(swp_w, "swp", false);
    lse3!(swpa, "swpa", true);
    lse3!(swpa_w, "swpa", false);
    lse3!(swpal, "swpal", true);
    lse3!(swpal_w, "swpal", false);
    lse3!(swpl, "swpl", true);
    lse3!(swpl_w, "swpl", false);

    // ---- load-acquire / store-release / exclusives
    macro_rules! acqrel {
        ($m:ident, $mn:literal, $sf:literal) => {
            b.add(
                stringify!($m),
                "acquire-release",
                vec![rz("rt"), rs("rn")],
                call!($m, r, r),
                Box::new(|o| one(format!("{} {}, [{}]", $mn, g(o[0], $sf), xs(o[1])))),
            );
        };
    }
    acqrel!(ldar, "ldar", true);
    acqrel!(ldar_w, "ldar", false);
    acqrel!(ldarb, "ldarb", false);
    acqrel!(ldarh, "ldarh", false);
    acqrel!(ldaxr, "ldaxr", true);
    acqrel!(ldaxr_w, "ldaxr", false);
    acqrel!(ldxr, "ldxr", true);
    acqrel!(ldxr_w, "ldxr", false);
    acqrel!(stlr, "stlr", true);
    acqrel!(stlr_w, "stlr", false);
    acqrel!(stlrb, "stlrb", false);
    acqrel!(stlrh, "stlrh", false);
    macro_rules! stx {
        ($m:ident, $mn:literal, $sf:literal) => {{
            let r = b.add(
                stringify!($m),
                "exclusive",
                vec![rz("status"), rz("rt"), rs("rn")],
                call!($m, r, r, r),
                Box::new(|o| one(format!("{} {}, {}, [{}]", $mn, w(o[0]), g(o[1], $sf), xs(o[2])))),
            );
            // status == source / status == base is CONSTRAINED UNPREDICTABLE (llvm-mc rejects the text)
            r.valid = Some(Box::new(|o| o[0] != o[1] && o[0] != o[2]));
        }};
    }
    stx!(stxr, "stxr", true);
    stx!(stxr_w, "stxr", false);
    stx!(stlxr, "stlxr", true);
    stx!(stlxr_w, "stlxr", false);

    // ---- load/store pair
    // $conv: how the method's last parameter maps to the byte offset of the instruction
    macro_rules! pair {
        ($m:ident, $mn:literal, $sf:literal, $scaled_param:literal, $mode:literal) => {{
            let size: i64 = if $sf { 8 } else { 4 };
            let kind = if $scaled_param { range("imm7", Ty::I32, -64, 63, 1) } else { range("offset", Ty::I32, -64 * size, 63 * size, size) };
            let r = b.add(
                stringify!($m),
                "ldst-pair",
                vec![rz("rt"), rz("rt2"), rs("rn"), kind],
                call!($m, r, r, r, i32),
                Box::new(move |o| {
                    let bytes = if $scaled_param { o[3].i() * size } else { o[3].i() };
                    let (a, b2, n) = (g(o[0], $sf), g(o[1], $sf), xs(o[2]));
                    one(match $mode {
                        "offset" => format!("{} {}, {}, [{}, #{}]", $mn, a, b2, n, bytes),
                        "pre" => format!("{} {}, {}, [{}, #{}]!", $mn, a, b2, n, bytes),
                        _ => format!("{} {}, {}, [{}], #{}", $mn, a, b2, n, bytes),
                    })
                }),
            );
            let is_load = $mn == "ldp";
            let wb = $mode != "offset";
            r.valid = Some(Box::new(move |o| {
                // ldp with Rt == Rt2 and writeback with base in the transfer list are UNPREDICTABLE
                if is_load && o[0] == o[1] {
                    return false;
                }
                if wb && (o[2] == o[0] || o[2] == o[1]) {
                    return false;
                }
                true
            }));
        }};
    }
    pair!(ldp, "ldp", true, false, "offset");
    pair!(ldp_w, "ldp", false, false, "offset");
    pair!(ldp_post, "ldp", true, true, "post");
    pair!(ldp_post_w, "ldp", false, true, "post");
    pair!(stp, "stp", true, true, "offset");
    pair!(stp_w, "stp", false, true, "offset");
    pair!(stp_post, "stp", true, false, "post");
    pair!(stp_post_w, "stp", false, false, "post");
    pair!(stp_pre, "stp", true, true, "pre");
    pair!(stp_pre_w, "stp", false, true, "pre");

    // ---- load/store (unsigned scaled immediate)
    // $rt: "x" | "w" | "d" | "s"
    macro_rules! ldst_imm {
        ($m:ident, $mn:literal, $rt:literal, $size:literal) => {
            b.add(
                stringify!($m),
                "ldst-scaled-imm",
                vec![if $rt == "d" || $rt == "s" { fr("rt") } else { rz("rt") }, rs("rn"), range("imm", Ty::U32, 0, 4095 * $size, $size)],
                if $rt == "d" || $rt == "s" { ldst_imm_call_f(stringify!($m)) } else { ldst_imm_call_r(stringify!($m)) },
                Box::new(|o| one(format!("{} {}, [{}, #{}]", $mn, rt_text(o[0], $rt), xs(o[1]), o[2].i()))),
            );
        };
    }
    ldst_imm!(ldr_imm_x, "ldr", "x", 8);
    ldst_imm!(ldr_imm_w, "ldr", "w", 4);
    ldst_imm!(ldrh_imm, "ldrh", "w", 2);
    ldst_imm!(ldrb_imm, "ldrb", "w", 1);
    ldst_imm!(ldr_imm_d, "ldr", "d", 8);
    ldst_imm!(ldr_imm_s, "ldr", "s", 4);
    ldst_imm!(str_imm, "str", "x", 8);
    ldst_imm!(str_imm_x, "str", "x", 8);
    ldst_imm!(str_imm_w, "str", "w", 4);
    ldst_imm!(strh_imm, "strh", "w", 2);
    ldst_imm!(strb_imm, "strb", "w", 1);
    ldst_imm!(str_imm_d, "str", "d", 8);
    ldst_imm!(str_imm_s, "str", "s", 4);
    b.add(
        "ldr",
        "ldst-scaled-imm",
        vec![rz("rt"), rs("base"), range("offset", Ty::I64, 0, 4095 * 8, 8)],
        Box::new(|a, o| a.ldr(o[0].r(), MemOperand::new(o[1].r(), o[2].i()))),
        Box::new(|o| one(format!("ldr {}, [{}, #{}]", x(o[0]), xs(o[1]), o[2].i()))),
    );

    // ---- load/store (unscaled immediate)
    macro_rules! ldst_unscaled {
        ($m:ident, $mn:literal, $rt:literal) => {
            b.add(
                stringify!($m),
                "ldst-unscaled-imm",
                vec![if $rt == "d" || $rt == "s" { fr("rt") } else { rz("rt") }, rs("rn"), range("imm9", Ty::I32, -256, 255, 1)],
                if $rt == "d" || $rt == "s" { ldst_unscaled_call_f(stringify!($m)) } else { ldst_unscaled_call_r(stringify!($m)) },
                Box::new(|o| one(format!("{} {}, [{}, #{}]", $mn, rt_text(o[0], $rt), xs(o[1]), o[2].i()))),
            );
        };
    }
    ldst_unscaled!(ldur, "ldur", "x");
    ldst_unscaled!(ldur_w, "ldur", "w");
    ldst_unscaled!(ldurh, "ldurh", "w");
    ldst_unscaled!(ldurb, "ldurb", "w");
    ldst_unscaled!(ldur_d, "ldur", "d");
    ldst_unscaled!(ldur_s, "ldur", "s");
    ldst_unscaled!(stur, "stur", "x");
    ldst_unscaled!(stur_w, "stur", "w");
    ldst_unscaled!(sturh, "sturh", "w");
    ldst_unscaled!(sturb, "sturb", "w");
    ldst_unscaled!(stur_d, "stur", "d");
    ldst_unscaled!(stur_s, "stur", "s");

    // ---- load/store (register offset)
    macro_rules! ldst_reg {
        ($m:ident, $mn:literal, $rt:literal, $shift:literal) => {
            b.add(
                stringify!($m),
                "ldst-register-offset",
                vec![
                    if $rt == "d" || $rt == "s" { fr("rt") } else { rz("rt") },
                    rs("rn"),
                    rz("rm"),
                    Kind::Extend { ldst: true },
                    imm("amount", Ty::U32, ImmSpec::Set(if $shift == 0 { &[0] } else { &[0, $shift] })),
                ],
                if $rt == "d" || $rt == "s" { ldst_reg_call_f(stringify!($m)) } else { ldst_reg_call_r(stringify!($m)) },
                Box::new(|o| {
                    let ext = EXT_NAMES[o[3].extn() as usize];
                    let rm = if ext == "lsl" || ext == "sxtx" { x(o[2]) } else { w(o[2]) };
                    let amount = o[4].i();
                    let tail = if amount == 0 {
                        if ext == "lsl" { String::new() } else { format!(", {ext}") }
                    } else {
                        format!(", {ext} #{amount}")
                    };
                    one(format!("{} {}, [{}, {}{}]", $mn, rt_text(o[0], $rt), xs(o[1]), rm, tail))
                }),
            );
        };
    }
    ldst_reg!(ldr_reg, "ldr", "x", 3);
    ldst_reg!(ldr_reg_w, "ldr", "w", 2);
    ldst_reg!(ldrh_reg, "ldrh", "w", 1);
    ldst_reg!(ldrb_reg, "ldrb", "w", 0);
    ldst_reg!(ldr_reg_d, "ldr", "d", 3);
    ldst_reg!(ldr_reg_s, "ldr", "s", 2);
    ldst_reg!(str_reg, "str", "x", 3);
    ldst_reg!(str_reg_w, "str", "w", 2);
    ldst_reg!(strh_reg, "strh", "w", 1);
    ldst_reg!(strb_reg, "strb", "w", 0);
    ldst_reg!(str_reg_d, "str", "d", 3);
    ldst_reg!(str_reg_s, "str", "s", 2);

    // ---- composite load/store with an arbitrary offset (may use the scratch register)
    macro_rules! ldst_mem {
        ($m:ident, $mn:literal, $rt:literal, $size:literal, $scaled:literal, $unscaled:literal) => {{
            let r = b.add(
                stringify!($m),
                "ldst-composite",
                vec![if $rt == "d" || $rt == "s" { fr("rt") } else { rz("rt") }, rs("base"), imm("offset", Ty::I64, ImmSpec::Any), rz("scratch")],
                if $rt == "d" || $rt == "s" { ldst_mem_call_f(stringify!($m)) } else { ldst_mem_call_r(stringify!($m)) },
                Box::new(|o| {
                    let off = o[2].i();
                    let (rt, base) = (rt_text(o[0], $rt), xs(o[1]));
                    let mut out: Vec<Alt> = vec![];
                    if off >= 0 && off % $size == 0 && off / $size <= 4095 {
                        out.push(vec![Elem::Text(format!("{} {}, [{}, #{}]", $scaled, rt, base, off))]);
                    }
                    if (-256..=255).contains(&off) {
                        out.push(vec![Elem::Text(format!("{} {}, [{}, #{}]", $unscaled, rt, base, off))]);
                    }
                    if is_plain(o[3]) {
                        out.push(vec![
                            Elem::MovSeq { rd: x(o[3]), value: off as u64, is64: true },
                            Elem::Text(format!("{} {}, [{}, {}]", $scaled, rt, base, x(o[3]))),
                        ]);
                    }
                    out
                }),
            );
            let is_store = $mn == "str";
            let gpr_rt = !($rt == "d" || $rt == "s");
            // the scratch register must be a real register distinct from the base (and from a stored value)
            r.valid = Some(Box::new(move |o| is_plain(o[3]) && o[3] != o[1] && !(is_store && gpr_rt && o[3] == o[0])));
        }};
    }
    ldst_mem!(ldr_mem_x, "ldr", "x", 8, "ldr", "ldur");
    ldst_mem!(ldr_mem_w, "ldr", "w", 4, "ldr", "ldur");
    ldst_mem!(ldr_mem_b, "ldr", "w", 1, "ldrb", "ldurb");
    ldst_mem!(ldr_mem_d, "ldr", "d", 8, "ldr", "ldur");
    ldst_mem!(ldr_mem_s, "ldr", "s", 4, "ldr", "ldur");
    ldst_mem!(str_mem_x, "str", "x", 8, "str", "stur");
    ldst_mem!(str_mem_w, "str", "w", 4, "str", "stur");
    ldst_mem!(str_mem_b, "str", "w", 1, "strb", "sturb");
    ldst_mem!(str_mem_d, "str", "d", 8, "str", "stur");
    ldst_mem!(str_mem_s, "str", "s", 4, "str", "stur");

    // ---- floating point
    macro_rules! fp3 {
        ($m:ident, $mn:literal, $dbl:literal) => {
            b.add(
                stringify!($m),
                "fp",
                vec![fr("rd"), fr("rn"), fr("rm")],
                call!($m, f, f, f),
                Box::new(|o| one(format!("{} {}, {}, {}", $mn, fp(o[0], $dbl), fp(o[1], $dbl), fp(o[2], $dbl)))),
            );
        };
    }
    fp3!(fadd_s, "fadd", false);
    fp3!(fadd_d, "fadd", true);
    fp3!(fsub_s, "fsub", false);
    fp3!(fsub_d, "fsub", true);
    fp3!(fmul_s, "fmul", false);
    fp3!(fmul_d, "fmul", true);
    fp3!(fdiv_s, "fdiv", false);
    fp3!(fdiv_d, "fdiv", true);
    macro_rules! fp2 {
        ($m:ident, $mn:literal, $dst:literal, $src:literal) => {
            b.add(
                stringify!($m),
                "fp",
                vec![fr("rd"), fr("rn")],
                call!($m, f, f),
                Box::new(|o| one(format!("{} {}, {}", $mn, fp(o[0], $dst), fp(o[1], $src)))),
            );
        };
    }
    fp2!(fcmp_s, "fcmp", false, false);
    fp2!(fcmp_d, "fcmp", true, true);
    fp2!(fcmpe_s, "fcmpe", false, false);
    fp2!(fcmpe_d, "fcmpe", true, true);
    fp2!(fcvt_ds, "fcvt", true, false);
    fp2!(fcvt_sd, "fcvt", false, true);
    fp2!(fmov_s, "fmov", false, false);
    fp2!(fmov_d, "fmov", true, true);
    fp2!(fabs_s, "fabs", false, false);
    fp2!(fabs_d, "fabs", true, true);
    fp2!(fneg_s, "fneg", false, false);
    fp2!(fneg_d, "fneg", true, true);
    fp2!(fsqrt_s, "fsqrt", false, false);
    fp2!(fsqrt_d, "fsqrt", true, true);
    fp2!(frintn_s, "frintn", false, false);
    fp2!(frintn_d, "frintn", true, true);
    fp2!(frintp_s, "frintp", false, false);
    fp2!(frintp_d, "frintp", true, true);
    fp2!(frintm_s, "frintm", false, false);
    fp2!(frintm_d, "frintm", true, true);
    fp2!(frintz_s, "frintz", false, false);
    fp2!(frintz_d, "frintz", true, true);
    fp2!(frinta_s, "frinta", false, false);
    fp2!(frinta_d, "frinta", true, true);
    // general <- fp
    macro_rules! g_from_f {
        ($m:ident, $mn:literal, $sf:literal, $dbl:literal) => {
            b.add(
                stringify!($m),
                "fp-int",
                vec![rz("rd"), fr("rn")],
                call!($m, r, f),
                Box::new(|o| one(format!("{} {}, {}", $mn, g(o[0], $sf), fp(o[1], $dbl)))),
            );
        };
    }
    g_from_f!(fcvtzs_d, "fcvtzs", true, true);
    g_from_f!(fcvtzs_s, "fcvtzs", true, false);
    g_from_f!(fcvtzs_wd, "fcvtzs", false, true);
    g_from_f!(fcvtzs_ws, "fcvtzs", false, false);
    g_from_f!(fmov_sf_d, "fmov", true, true);
    g_from_f!(fmov_sf_s, "fmov", false, false);
    // fp <- general
    macro_rules! f_from_g {
        ($m:ident, $mn:literal, $dbl:literal, $sf:literal) => {
            b.add(
                stringify!($m),
                "fp-int",
                vec![fr("rd"), rz("rn")],
                call!($m, f, r),
                Box::new(|o| one(format!("{} {}, {}", $mn, fp(o[0], $dbl), g(o[1], $sf)))),
            );
        };
    }
    f_from_g!(fmov_fs_d, "fmov", true, true);
    f_from_g!(fmov_fs_s, "fmov", false, false);
    f_from_g!(scvtf_si_dw, "scvtf", true, false);
    f_from_g!(scvtf_si_dx, "scvtf", true, true);
    f_from_g!(scvtf_si_sw, "scvtf", false, false);
    f_from_g!(scvtf_si_sx, "scvtf", false, true);

    // ---- advanced simd
    {
        let r = b.add(
            "addv",
            "simd",
            vec![range("q", Ty::U32, 0, 1, 1), range("size", Ty::U32, 0, 3, 1), fr("rd"), fr("rn")],
            call!(addv, u32, u32, f, f),
            Box::new(|o| {
                let (q, size) = (o[0].i(), o[1].i());
                let dst = ["b", "h", "s", "?"][size as usize];
                let lanes = (if q == 1 { 16 } else { 8 }) >> size;
                one(format!("addv {}{}, v{}.{}{}", dst, o[2].rnum(), o[3].rnum(), lanes, dst))
            }),
        );
        // size=3 and (q=0,size=2) are reserved field combinations; q/size are raw encoding fields
        r.valid = Some(Box::new(|o| {
            let (q, size) = (o[0].i(), o[1].i());
            !(0..=1).contains(&q) || !(0..=3).contains(&size) || size < 2 || (size == 2 && q == 1)
        }));
    }
    {
        let r = b.add(
            "cnt",
            "simd",
            vec![range("q", Ty::U32, 0, 1, 1), range("size", Ty::U32, 0, 3, 1), fr("rd"), fr("rn")],
            call!(cnt, u32, u32, f, f),
            Box::new(|o| {
                let lanes = if o[0].i() == 1 { 16 } else { 8 };
                one(format!("cnt v{}.{}b, v{}.{}b", o[2].rnum(), lanes, o[3].rnum(), lanes))
            }),
        );
        r.valid = Some(Box::new(|o| !(0..=3).contains(&o[1].i()) || o[1].i() == 0));
    }

    b.rows
}

fn rt_text(o: Op, rt: &str) -> String {
    match rt {
        "x" => x(o),
        "w" => w(o),
        "d" => d(o),
        _ => s(o),
    }
}

// The load/store families are selected by method name at table-build time (a macro cannot choose
// the operand conversion from a string literal).
fn ldst_imm_call_r(name: &str) -> CallFn {
    match name {
        "ldr_imm_x" => call!(ldr_imm_x, r, r, u32),
        "ldr_imm_w" => call!(ldr_imm_w, r, r, u32),
        "ldrh_imm" => call!(ldrh_imm, r, r, u32),
        "ldrb_imm" => call!(ldrb_imm, r, r, u32),
        "str_imm" => call!(str_imm, r, r, u32),
        "str_imm_x" => call!(str_imm_x, r, r, u32),
        "str_imm_w" => call!(str_imm_w, r, r, u32),
        "strh_imm" => call!(strh_imm, r, r, u32),
        "strb_imm" => call!(strb_imm, r, r, u32),
        _ => panic!("harness: no dispatcher for {name}"),
    }
}
fn ldst_imm_call_f(name: &str) -> CallFn {
    match name {
        "ldr_imm_d" => call!(ldr_imm_d, f, r, u32),
        "ldr_imm_s" => call!(ldr_imm_s, f, r, u32),
        "str_imm_d" => call!(str_imm_d, f, r, u32),
        "str_imm_s" => call!(str_imm_s, f, r, u32),
        _ => panic!("harness: no dispatcher for {name}"),
    }
}
fn ldst_unscaled_call_r(name: &str) -> CallFn {
    match name {
        "ldur" => call!(ldur, r, r, i32),
        "ldur_w" => call!(ldur_w, r, r, i32),
        "ldurh" => call!(ldurh, r, r, i32),
        "ldurb" => call!(ldurb, r, r, i32),
        "stur" => call!(stur, r, r, i32),
        "stur_w" => call!(stur_w, r, r, i32),
        "sturh" => call!(sturh, r, r, i32),
        "sturb" => call!(sturb, r, r, i32),
        _ => panic!("harness: no dispatcher for {name}"),
    }
}
fn ldst_unscaled_call_f(name: &str) -> CallFn {
    match name {
        "ldur_d" => call!(ldur_d, f, r, i32),
        "ldur_s" => call!(ldur_s, f, r, i32),
        "stur_d" => call!(stur_d, f, r, i32),
        "stur_s" => call!(stur_s, f, r, i32),
        _ => panic!("harness: no dispatcher for {name}"),
    }
}
fn ldst_reg_call_r(name: &str) -> CallFn {
    match name {
        "ldr_reg" => call!(ldr_reg, r, r, r, ext, u32),
        "ldr_reg_w" => call!(ldr_reg_w, r, r, r, ext, u32),
        "ldrh_reg" => call!(ldrh_reg, r, r, r, ext, u32),
        "ldrb_reg" => call!(ldrb_reg, r, r, r, ext, u32),
        "str_reg" => call!(str_reg, r, r, r, ext, u32),
        "str_reg_w" => call!(str_reg_w, r, r, r, ext, u32),
        "strh_reg" => call!(strh_reg, r, r, r, ext, u32),
        "strb_reg" => call!(strb_reg, r, r, r, ext, u32),
        _ => panic!("harness: no dispatcher for {name}"),
    }
}
fn ldst_reg_call_f(name: &str) -> CallFn {
    match name {
        "ldr_reg_d" => call!(ldr_reg_d, f, r, r, ext, u32),
        "ldr_reg_s" => call!(ldr_reg_s, f, r, r, ext, u32),
        "str_reg_d" => call!(str_reg_d, f, r, r, ext, u32),
        "str_reg_s" => call!(str_reg_s, f, r, r, ext, u32),
        _ => panic!("harness: no dispatcher for {name}"),
    }
}
fn ldst_mem_call_r(name: &str) -> CallFn {
    macro_rules! m {
        ($m:ident) => {
            Box::new(|a: &mut Asm, o: &[Op]| a.$m(o[0].r(), MemOperand::new(o[1].r(), o[2].i()), o[3].r())) as CallFn
        };
    }
    match name {
        "ldr_mem_x" => m!(ldr_mem_x),
        "ldr_mem_w" => m!(ldr_mem_w),
        "ldr_mem_b" => m!(ldr_mem_b),
        "str_mem_x" => m!(str_mem_x),
        "str_mem_w" => m!(str_mem_w),
        "str_mem_b" => m!(str_mem_b),
        _ => panic!("harness: no dispatcher for {name}"),
    }
}
fn ldst_mem_call_f(name: &str) -> CallFn {
    macro_rules! m {
        ($m:ident) => {
            Box::new(|a: &mut Asm, o: &[Op]| a.$m(o[0].f(), MemOperand::new(o[1].r(), o[2].i()), o[3].r())) as CallFn
        };
    }
    match name {
        "ldr_mem_d" => m!(ldr_mem_d),
        "ldr_mem_s" => m!(ldr_mem_s),
        "str_mem_d" => m!(str_mem_d),
        "str_mem_s" => m!(str_mem_s),
        _ => panic!("harness: no dispatcher for {name}"),
    }
}

pub fn rows() -> &'static Vec<Row> {
    static ROWS: OnceLock<Vec<Row>> = OnceLock::new();
    ROWS.get_or_init(build)
}

pub fn row(name: &str) -> Option<&'static Row> {
    static IDX: OnceLock<std::collections::HashMap<&'static str, usize>> = OnceLock::new();
    let idx = IDX.get_or_init(|| rows().iter().enumerate().map(|(i, r)| (r.name, i)).collect());
    idx.get(name).map(|&i| &rows()[i])
}

/// Methods that take a `Label`; they are exercised by the label-program sub-check.
pub const LABEL_METHODS: &[&str] = &["b", "bc", "cbz", "cbz_w", "cbnz", "cbnz_w", "tbz", "tbnz", "adr_label"];

/// Public functions of `AssemblerArm64` that do not emit an instruction of their own.
pub const INFRASTRUCTURE: &[&str] = &[
    "new", "create_label", "create_and_bind_label", "bind_label", "offset", "finalize", "align_to", "position", "set_position", "set_position_end", "emit_u8", "emit_u32", "emit_u64",
    "emit_u128",
];

/// Public methods of `impl AssemblerArm64` in the source file.
pub fn source_methods() -> Result<Vec<String>, String> {
    let src = std::fs::read_to_string("/repo/dora-asm/src/arm64.rs").map_err(|e| format!("cannot read the assembler source: {e}"))?;
    let mut out = vec![];
    let mut in_impl = false;
    for line in src.lines() {
        if line.starts_with("impl AssemblerArm64") {
            in_impl = true;
            continue;
        }
        if line.starts_with('}') {
            in_impl = false;
        }
        if in_impl {
            if let Some(rest) = line.strip_prefix("    pub fn ") {
                let name: String = rest.chars().take_while(|c| c.is_alphanumeric() || *c == '_').collect();
                out.push(name);
            }
        }
    }
    if out.len() < 100 {
        return Err(format!("only {} public methods found in the assembler source; parser out of date?", out.len()));
    }
    Ok(out)
}
