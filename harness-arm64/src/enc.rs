//! Sub-check "encoding": single assembler calls, generated operands, LLVM oracle.

use crate::llvm::{self, Block, ToolError, Verdict};
use crate::ops::*;
use crate::table::{self, At31, Elem, Kind, Row};
use dora_asm::arm64::AssemblerArm64 as Asm;
use serde_json::{Value, json};
use std::cell::{Cell, RefCell};
use std::collections::{BTreeMap, HashSet};
use std::panic::{AssertUnwindSafe, catch_unwind};
use std::sync::Mutex;
use vh::vcore::*;

// ---------------------------------------------------------------------------
// Cheap refusal capture: the engine's panic hook formats a backtrace for every panic, which is
// far too slow for tens of thousands of expected refusals.

thread_local! {
    static FAST: Cell<bool> = const { Cell::new(false) };
    static LAST_MSG: RefCell<Option<String>> = const { RefCell::new(None) };
}

pub fn install_fast_hook() {
    let prev = std::panic::take_hook();
    std::panic::set_hook(Box::new(move |info| {
        if FAST.with(|f| f.get()) {
            let message = if let Some(s) = info.payload().downcast_ref::<&str>() {
                s.to_string()
            } else if let Some(s) = info.payload().downcast_ref::<String>() {
                s.clone()
            } else {
                "<non-string panic>".to_string()
            };
            let loc = info.location().map(|l| format!("{}:{}", l.file(), l.line())).unwrap_or_default();
            LAST_MSG.with(|m| *m.borrow_mut() = Some(format!("{message} at {loc}")));
        } else {
            prev(info)
        }
    }));
}

/// Run `f`; a panic becomes Err(message).
pub fn try_call<T>(f: impl FnOnce() -> T) -> Result<T, String> {
    FAST.with(|x| x.set(true));
    LAST_MSG.with(|m| *m.borrow_mut() = None);
    let r = catch_unwind(AssertUnwindSafe(f));
    FAST.with(|x| x.set(false));
    r.map_err(|_| LAST_MSG.with(|m| m.borrow_mut().take()).unwrap_or_else(|| "<unknown panic>".into()))
}

// ---------------------------------------------------------------------------

#[derive(Clone, Debug, PartialEq, Eq, Hash)]
pub struct Inst {
    pub m: &'static str,
    pub ops: Vec<Op>,
}

impl Inst {
    pub fn row(&self) -> &'static Row {
        table::row(self.m).expect("row")
    }
    pub fn call_text(&self) -> String {
        let ops: Vec<String> = self
            .ops
            .iter()
            .map(|o| match o.to_json() {
                Value::String(s) => s,
                v => v.to_string(),
            })
            .collect();
        format!("{}({})", self.m, ops.join(", "))
    }
    pub fn to_json(&self) -> Value {
        json!({"m": self.m, "ops": self.ops.iter().map(|o| o.to_json()).collect::<Vec<_>>()})
    }
    pub fn from_json(v: &Value) -> Option<Inst> {
        let row = table::row(v["m"].as_str()?)?;
        let ops: Option<Vec<Op>> = v["ops"].as_array()?.iter().map(Op::from_json).collect();
        let mut ops = ops?;
        if ops.len() != row.kinds.len() {
            return None;
        }
        // the JSON form does not distinguish I from U for small values: follow the row
        for (k, o) in row.kinds.iter().zip(ops.iter_mut()) {
            match (k, *o) {
                (Kind::Imm { ty: table::Ty::U64, .. }, Op::I(v)) => *o = Op::U(v as u64),
                (Kind::Imm { ty, .. }, Op::U(v)) if *ty != table::Ty::U64 => *o = Op::I(v as i64),
                _ => {}
            }
            let ok = matches!(
                (k, *o),
                (Kind::Reg { .. }, Op::R(_)) | (Kind::FReg { .. }, Op::F(_)) | (Kind::Shift { .. }, Op::Sh(_)) | (Kind::Extend { .. }, Op::Ext(_)) | (Kind::Cond, Op::C(_)) | (Kind::Imm { .. }, Op::I(_) | Op::U(_))
            );
            if !ok {
                return None;
            }
        }
        Some(Inst { m: row.name, ops })
    }
}

pub const LDST_EXTENDS: [u8; 4] = [2, 3, 7, 8]; // lsl, uxtw, sxtw, sxtx

/// None = the requested instruction exists; Some(class) = it cannot be encoded and must be refused.
pub fn illegal_class(row: &Row, ops: &[Op]) -> Option<String> {
    for (k, o) in row.kinds.iter().zip(ops.iter()) {
        match k {
            Kind::Reg { name, at31 } => match (o.rnum(), at31) {
                (ZR, At31::Sp) => return Some(format!("{name}=zr-where-31-means-sp")),
                (SP, At31::Zr) => return Some(format!("{name}=sp-where-31-means-zr")),
                _ => {}
            },
            Kind::Shift { allow_ror } => {
                if !allow_ror && o.shn() == 3 {
                    return Some("shift=ror".into());
                }
            }
            Kind::Extend { ldst } => {
                if *ldst && !LDST_EXTENDS.contains(&o.extn()) {
                    return Some(format!("extend={}-not-a-load-store-extend", EXT_NAMES[o.extn() as usize]));
                }
            }
            Kind::Imm { name, spec, .. } => {
                if !spec.legal(*o) {
                    return Some(format!("{name}:{}", spec.illegal_class(*o)));
                }
            }
            Kind::FReg { .. } | Kind::Cond => {}
        }
    }
    if let Some(ci) = &row.cross_illegal {
        if let Some(c) = ci(ops) {
            return Some(c);
        }
    }
    None
}

/// Operand classes of a legal instance that lie outside the plain core (zr/sp, extended amounts).
pub fn special_classes(row: &Row, ops: &[Op]) -> Vec<String> {
    let mut out = vec![];
    for (k, o) in row.kinds.iter().zip(ops.iter()) {
        match k {
            Kind::Reg { name, .. } => match o.rnum() {
                ZR => out.push(format!("{name}=zr")),
                SP => out.push(format!("{name}=sp")),
                _ => {}
            },
            Kind::Imm { name, .. } => {
                if row.family == "logical-shifted" && *name == "amount" && o.i() >= 32 {
                    out.push("amount>=32".into());
                }
                if row.family == "addsub-extended" && *name == "amount" && o.i() == 4 {
                    out.push("amount=4".into());
                }
            }
            _ => {}
        }
    }
    out
}

/// Legal operands which the unchanged assembler is known to refuse (it asserts a narrower domain
/// than the architecture allows). Refusing is not a wrong encoding, so these are tolerated; any
/// refusal of a legal operand that is NOT listed here is reported (`refuses-legal:...`).
/// Entries are "method:operand-class" (file tolerated_refusals.txt), generated with
/// `vasmarm --probe-refusals` on the unchanged tree and reviewed against the asserts in
/// dora-asm/src/arm64.rs (rm.is_gpr() in addsub_shreg, rd.is_gpr() in logical_shreg/dataproc*/
/// bitfield/move_wide/csel, is_gpr() for all registers of atomic_op and ldst_pair(_pre), rt.is_gpr()
/// in loads, Register::encoding() in fp_int, fits_u2(imm3), fits_u5(imm6)).
pub const TOLERATED_REFUSALS: &str = include_str!("tolerated_refusals.txt");

pub fn tolerated(row: &Row, class: &str) -> bool {
    let key = format!("{}:{}", row.name, class);
    TOLERATED_REFUSALS.lines().any(|l| l.trim() == key)
}

pub enum RunResult {
    Emitted(Vec<u32>),
    Refused(String),
    HarnessPanic(String),
}

pub fn run_inst(inst: &Inst) -> RunResult {
    let row = inst.row();
    let r = try_call(|| {
        let mut a = Asm::new();
        (row.call)(&mut a, &inst.ops);
        a.finalize(4).code()
    });
    match r {
        Ok(bytes) => {
            if bytes.len() % 4 != 0 {
                return RunResult::HarnessPanic(format!("code length {} is not a multiple of 4", bytes.len()));
            }
            RunResult::Emitted(bytes.chunks(4).map(|c| u32::from_le_bytes([c[0], c[1], c[2], c[3]])).collect())
        }
        Err(m) if m.starts_with("harness:") => RunResult::HarnessPanic(m),
        Err(m) => RunResult::Refused(m),
    }
}

#[derive(Clone, Debug)]
pub struct InstVerdict {
    pub fail: Option<(String, String)>,
    pub classes: Vec<String>,
    pub nontrivial: bool,
}

pub fn nontrivial(row: &Row, ops: &[Op], refusal_case: bool) -> bool {
    if refusal_case {
        return true;
    }
    for (k, o) in row.kinds.iter().zip(ops.iter()) {
        match k {
            Kind::Reg { .. } | Kind::FReg { .. } => {
                if o.rnum() >= 16 {
                    return true;
                }
            }
            Kind::Imm { spec, .. } => {
                if spec.near_end(*o) {
                    return true;
                }
            }
            _ => {}
        }
    }
    false
}

/// Evaluate a list of instances with one LLVM round trip.
pub fn eval_insts(insts: &[Inst]) -> Result<Vec<InstVerdict>, String> {
    let mut verdicts: Vec<Option<InstVerdict>> = vec![None; insts.len()];
    let mut blocks: Vec<Block> = vec![];
    let mut block_inst: Vec<usize> = vec![];
    // refusal violations: decode the silently emitted words for the message
    let mut silent: Vec<(usize, String, Vec<u32>)> = vec![];
    for (i, inst) in insts.iter().enumerate() {
        let row = inst.row();
        let ill = illegal_class(row, &inst.ops);
        let fam = row.family;
        match (run_inst(inst), ill) {
            (RunResult::HarnessPanic(m), _) => return Err(format!("harness panic while calling {}: {m}", inst.call_text())),
            (RunResult::Refused(_), Some(_)) => {
                verdicts[i] = Some(InstVerdict { fail: None, classes: vec!["refusal/unencodable-operand-refused".into(), format!("family/{fam}")], nontrivial: true });
            }
            (RunResult::Emitted(words), Some(class)) => {
                silent.push((i, class, words));
            }
            (RunResult::Refused(msg), None) => {
                let specials = special_classes(row, &inst.ops);
                let tol: Vec<&String> = specials.iter().filter(|c| tolerated(row, c)).collect();
                if !tol.is_empty() {
                    verdicts[i] = Some(InstVerdict {
                        fail: None,
                        classes: vec!["legal-but-refused/tolerated".into(), format!("legal-but-refused/{}:{}", row.name, tol[0])],
                        nontrivial: nontrivial(row, &inst.ops, false),
                    });
                } else {
                    let what = if specials.is_empty() { "plain-operands".to_string() } else { specials.join("+") };
                    verdicts[i] = Some(InstVerdict {
                        fail: Some((
                            format!("refuses-legal:{}:{}", row.name, what),
                            format!("{} was refused ({msg}) although the requested instruction exists: {}", inst.call_text(), expect_text(inst)),
                        )),
                        classes: vec![],
                        nontrivial: true,
                    });
                }
            }
            (RunResult::Emitted(words), None) => {
                let alts = (row.expect)(&inst.ops);
                blocks.push(Block { words, alts });
                block_inst.push(i);
            }
        }
    }
    match llvm::check_blocks(&blocks) {
        Ok(vs) => {
            for (bi, v) in vs.into_iter().enumerate() {
                let i = block_inst[bi];
                let inst = &insts[i];
                let row = inst.row();
                verdicts[i] = Some(match v {
                    Verdict::Match => {
                        let mut classes = vec!["encoded/decodes-to-request".to_string(), format!("family/{}", row.family)];
                        if blocks[bi].words.len() > 1 {
                            classes.push("encoded/multi-instruction-sequence".into());
                        }
                        for (k, o) in row.kinds.iter().zip(inst.ops.iter()) {
                            if let Kind::Reg { .. } = k {
                                if o.rnum() == ZR {
                                    classes.push("operand/zr".into());
                                }
                                if o.rnum() == SP {
                                    classes.push("operand/sp".into());
                                }
                            }
                        }
                        InstVerdict { fail: None, classes, nontrivial: nontrivial(row, &inst.ops, false) }
                    }
                    Verdict::Mismatch { class, detail, .. } => InstVerdict { fail: Some((format!("encoding:{}:{}", row.name, class), format!("{}: {}", inst.call_text(), detail))), classes: vec![], nontrivial: true },
                });
            }
        }
        Err(ToolError::ExpectedRejected { block, text, err }) => {
            let inst = &insts[block_inst[block]];
            return Err(format!("table bug: expected text {text:?} for {} does not assemble: {err}", inst.call_text()));
        }
        Err(ToolError::Other(e)) => return Err(e),
    }
    if !silent.is_empty() {
        let all: Vec<u32> = silent.iter().flat_map(|(_, _, w)| w.iter().copied()).collect();
        let texts = llvm::decode_words(&all);
        let mut pos = 0;
        for (i, class, words) in silent {
            let inst = &insts[i];
            let t = texts[pos..pos + words.len()].join("; ");
            pos += words.len();
            let hex: Vec<String> = words.iter().map(|w| format!("{w:08x}")).collect();
            verdicts[i] = Some(InstVerdict {
                fail: Some((
                    format!("refusal:{}:{}", inst.m, class),
                    format!("{} cannot be encoded ({class}) but was not refused: emitted {} which decodes to `{}`", inst.call_text(), hex.join(" "), t),
                )),
                classes: vec![],
                nontrivial: true,
            });
        }
    }
    Ok(verdicts.into_iter().map(|v| v.expect("verdict for every instance")).collect())
}

pub fn expect_text(inst: &Inst) -> String {
    let row = inst.row();
    if illegal_class(row, &inst.ops).is_some() {
        return "<must be refused>".into();
    }
    let alts = (row.expect)(&inst.ops);
    let alt_s: Vec<String> = alts
        .iter()
        .map(|a| {
            a.iter()
                .map(|e| match e {
                    Elem::Text(t) => t.clone(),
                    Elem::MovSeq { rd, value, .. } => format!("<mov-wide sequence: {rd} := {value:#x}>"),
                })
                .collect::<Vec<_>>()
                .join("; ")
        })
        .collect();
    alt_s.join("  |  ")
}

// ---------------------------------------------------------------------------
// Generation

fn draw_reg(c: &mut Choices, at31: At31, illegal: bool) -> Op {
    if illegal {
        return Op::R(match at31 {
            At31::Zr => SP,
            At31::Sp => ZR,
            At31::Either => SP,
        });
    }
    // 0 => r0 (simplest); 1/5 of the draws pick the special register that exists here
    if c.chance(1, 5) {
        Op::R(match at31 {
            At31::Zr => ZR,
            At31::Sp => SP,
            At31::Either => {
                if c.chance(1, 2) {
                    SP
                } else {
                    ZR
                }
            }
        })
    } else {
        Op::R(c.below(31) as u8)
    }
}

fn can_be_illegal(k: &Kind) -> bool {
    match k {
        Kind::Reg { at31, .. } => *at31 != At31::Either,
        Kind::FReg { .. } | Kind::Cond => false,
        Kind::Shift { allow_ror } => !allow_ror,
        Kind::Extend { ldst } => *ldst,
        Kind::Imm { spec, .. } => !matches!(spec, table::ImmSpec::Any),
    }
}

fn draw_op(c: &mut Choices, k: &Kind, illegal: bool) -> Op {
    match k {
        Kind::Reg { at31, .. } => draw_reg(c, *at31, illegal),
        Kind::FReg { .. } => Op::F(c.below(32) as u8),
        Kind::Shift { allow_ror } => {
            if illegal {
                Op::Sh(3)
            } else {
                Op::Sh(c.below(if *allow_ror { 4 } else { 3 }) as u8)
            }
        }
        Kind::Extend { ldst } => {
            if *ldst {
                if illegal {
                    Op::Ext(*c.pick(&[0u8, 1, 4, 5, 6]))
                } else {
                    Op::Ext(*c.pick(&LDST_EXTENDS))
                }
            } else {
                Op::Ext(c.below(9) as u8)
            }
        }
        Kind::Cond => Op::C(c.below(16) as u8),
        Kind::Imm { ty, spec, .. } => spec.draw(c, *ty, illegal),
    }
}

pub fn base_ops(row: &Row, variant: usize) -> Vec<Op> {
    // variant 0: low registers, simplest modifiers; variant 1: high registers, other modifiers
    let regs: [[u8; 5]; 2] = [[0, 1, 2, 3, 4], [17, 29, 30, 16, 23]];
    let mut ri = 0;
    let mut fi = 0;
    let mut ops: Vec<Op> = row
        .kinds
        .iter()
        .map(|k| match k {
            Kind::Reg { .. } => {
                let r = regs[variant][ri % 5];
                ri += 1;
                Op::R(r)
            }
            Kind::FReg { .. } => {
                let r = regs[variant][fi % 5] + if variant == 1 { 1 } else { 0 };
                fi += 1;
                Op::F(r)
            }
            Kind::Shift { .. } => Op::Sh(if variant == 0 { 0 } else { 2 }),
            Kind::Extend { ldst } => Op::Ext(if *ldst { [2, 7][variant] } else { [0, 7][variant] }),
            Kind::Cond => Op::C(if variant == 0 { 0 } else { 15 }),
            Kind::Imm { ty, spec, .. } => {
                let b = spec.boundaries(*ty);
                let legal: Vec<Op> = b.into_iter().filter(|o| spec.legal(*o)).collect();
                if variant == 0 {
                    legal.iter().copied().find(|o| o.i() == 0).or(legal.first().copied()).unwrap_or(Op::I(0))
                } else {
                    // the largest legal boundary value
                    legal
                        .iter()
                        .copied()
                        .max_by_key(|o| match o {
                            Op::U(v) => *v as i128,
                            o => o.i() as i128,
                        })
                        .unwrap_or(Op::I(0))
                }
            }
        })
        .collect();
    // stay inside the domain the assembler asserts (see TOLERATED_REFUSALS)
    for (k, o) in row.kinds.iter().zip(ops.iter_mut()) {
        if let Kind::Imm { name: "amount", .. } = k {
            if row.family == "addsub-extended" && o.i() == 4 {
                *o = Op::I(3);
            }
            if row.family == "logical-shifted" && o.i() >= 32 {
                *o = Op::I(31);
            }
        }
    }
    if variant == 1 && !is_valid(row, &ops) {
        // reserved field combination: fall back to the simple immediates
        let simple = base_ops(row, 0);
        for (i, k) in row.kinds.iter().enumerate() {
            if let Kind::Imm { .. } = k {
                ops[i] = simple[i];
            }
        }
    }
    ops
}

fn is_valid(row: &Row, ops: &[Op]) -> bool {
    row.valid.as_ref().map(|v| v(ops)).unwrap_or(true)
}

pub fn gen_inst(c: &mut Choices, row: &'static Row) -> Inst {
    for _attempt in 0..6 {
        let illegal_positions: Vec<usize> = row.kinds.iter().enumerate().filter(|(_, k)| can_be_illegal(k)).map(|(i, _)| i).collect();
        let want_illegal = !illegal_positions.is_empty() && c.chance(1, 6);
        let ipos = if want_illegal { Some(illegal_positions[c.below(illegal_positions.len())]) } else { None };
        let ops: Vec<Op> = row.kinds.iter().enumerate().map(|(i, k)| draw_op(c, k, Some(i) == ipos)).collect();
        if is_valid(row, &ops) {
            return Inst { m: row.name, ops };
        }
    }
    let ops = base_ops(row, 0);
    Inst { m: row.name, ops }
}

/// Deterministic sweep: every value of every operand position (all 33 register values, all
/// shifts/extends/conditions, boundary immediates incl. unencodable neighbours) against two base
/// assignments, all pairs of non-register operands, sp/zr pairs of register operands, every valid
/// logical immediate, every bit-field position pair.
pub fn sweep() -> Vec<Inst> {
    let mut out: Vec<Inst> = vec![];
    let mut seen: HashSet<u64> = HashSet::new();
    let mut push = |out: &mut Vec<Inst>, row: &'static Row, ops: Vec<Op>| {
        if !is_valid(row, &ops) {
            return;
        }
        let inst = Inst { m: row.name, ops };
        if seen.insert(hash64(&inst)) {
            out.push(inst);
        }
    };
    let candidates = |k: &Kind| -> Vec<Op> {
        match k {
            Kind::Reg { .. } => (0..=32u8).map(Op::R).collect(),
            Kind::FReg { .. } => (0..=31u8).map(Op::F).collect(),
            Kind::Shift { .. } => (0..4u8).map(Op::Sh).collect(),
            Kind::Extend { .. } => (0..9u8).map(Op::Ext).collect(),
            Kind::Cond => (0..16u8).map(Op::C).collect(),
            Kind::Imm { ty, spec, .. } => spec.boundaries(*ty),
        }
    };
    for row in table::rows() {
        for variant in 0..2 {
            let base = base_ops(row, variant);
            push(&mut out, row, base.clone());
            let cands: Vec<Vec<Op>> = row.kinds.iter().map(candidates).collect();
            for i in 0..row.kinds.len() {
                for v in &cands[i] {
                    let mut ops = base.clone();
                    ops[i] = *v;
                    push(&mut out, row, ops);
                }
            }
            for i in 0..row.kinds.len() {
                for j in (i + 1)..row.kinds.len() {
                    let ri = matches!(row.kinds[i], Kind::Reg { .. } | Kind::FReg { .. });
                    let rj = matches!(row.kinds[j], Kind::Reg { .. } | Kind::FReg { .. });
                    let (ci, cj): (Vec<Op>, Vec<Op>) = match (ri, rj) {
                        (false, false) => (cands[i].clone(), cands[j].clone()),
                        (true, true) => {
                            if !matches!(row.kinds[i], Kind::Reg { .. }) || !matches!(row.kinds[j], Kind::Reg { .. }) {
                                continue;
                            }
                            (vec![Op::R(30), Op::R(ZR), Op::R(SP)], vec![Op::R(30), Op::R(ZR), Op::R(SP)])
                        }
                        _ => continue,
                    };
                    if ci.len() * cj.len() > 5000 {
                        continue;
                    }
                    for a in &ci {
                        for b in &cj {
                            let mut ops = base.clone();
                            ops[i] = *a;
                            ops[j] = *b;
                            push(&mut out, row, ops);
                        }
                    }
                }
            }
        }
        // full enumerations
        if row.family == "logical-imm" {
            let bits = if row.name == "and_imm" { 64 } else { 32 };
            for (n, v) in table::logical_list(bits).iter().enumerate() {
                push(&mut out, row, vec![Op::R((n % 31) as u8), Op::R(((n / 31) % 31) as u8), Op::U(*v)]);
            }
        }
        if matches!(row.name, "bfm" | "sbfm" | "ubfm" | "bfm_w" | "sbfm_w" | "ubfm_w") {
            for immr in 0..64 {
                for imms in 0..64 {
                    push(&mut out, row, vec![Op::R(((immr * 7 + imms) % 31) as u8), Op::R(((immr + imms * 3) % 31) as u8), Op::I(immr), Op::I(imms)]);
                }
            }
        }
    }
    out
}

// ---------------------------------------------------------------------------
// The Prop

#[derive(Default)]
pub struct Stats {
    pub instances: u64,
    pub nontrivial: HashSet<u64>,
    pub classes: BTreeMap<String, u64>,
    pub per_method: BTreeMap<&'static str, (u64, u64)>, // (instances, accepted-and-matching)
    pub samples: Vec<Value>,
    pub harness_errors: Vec<String>,
}

pub struct Encoding {
    pub stats: Mutex<Stats>,
    pub known_keys: Vec<String>,
    pub batch: usize,
}

impl Encoding {
    pub fn new(batch: usize) -> Encoding {
        let known_keys = load_known_findings().into_iter().filter(|k| k.property == "C08" && k.status == "open").map(|k| k.key).collect();
        Encoding { stats: Mutex::new(Stats::default()), known_keys, batch }
    }
    fn is_known(&self, key: &str) -> bool {
        self.known_keys.iter().any(|k| match k.strip_suffix('*') {
            Some(p) => key.starts_with(p),
            None => k == key,
        })
    }
}

#[derive(Clone, Debug)]
pub struct Batch {
    pub insts: Vec<Inst>,
}

impl Prop for Encoding {
    type Case = Batch;
    fn name(&self) -> &str {
        "encoding"
    }
    fn generate(&self, c: &mut Choices) -> Batch {
        let rows = table::rows();
        let mut insts = vec![];
        // batch size follows the length of the choice sequence: no padding with default instances
        while insts.len() < self.batch && (!c.exhausted() || insts.is_empty()) {
            let row = &rows[c.below(rows.len())];
            insts.push(gen_inst(c, row));
        }
        Batch { insts }
    }
    fn eval(&self, case: &Batch) -> Outcome {
        let h = hash64(&case.insts);
        let verdicts = match eval_insts(&case.insts) {
            Ok(v) => v,
            Err(e) => {
                self.stats.lock().unwrap().harness_errors.push(e.clone());
                return Outcome { inconclusive: Some(e), hash: h, ..Default::default() };
            }
        };
        let mut st = self.stats.lock().unwrap();
        let mut first_known: Option<(String, String)> = None;
        let mut first_new: Option<(String, String)> = None;
        for (inst, v) in case.insts.iter().zip(verdicts.iter()) {
            st.instances += 1;
            let e = st.per_method.entry(inst.m).or_insert((0, 0));
            e.0 += 1;
            if v.fail.is_none() && v.classes.iter().any(|c| c == "encoded/decodes-to-request") {
                e.1 += 1;
            }
            if v.nontrivial {
                let fresh = st.nontrivial.insert(hash64(inst));
                if fresh && st.samples.len() < 6 && (st.nontrivial.len() % 997 == 1) {
                    st.samples.push(json!({"sub": "encoding", "case": {"call": inst.call_text(), "requested": expect_text(inst)}}));
                }
            }
            for c in &v.classes {
                *st.classes.entry(c.clone()).or_insert(0) += 1;
            }
            if let Some(f) = &v.fail {
                if self.is_known(&f.0) {
                    *st.classes.entry(format!("known-finding/{}", f.0)).or_insert(0) += 1;
                    if first_known.is_none() {
                        first_known = Some(f.clone());
                    }
                } else if first_new.is_none() {
                    first_new = Some(f.clone());
                }
            }
        }
        drop(st);
        match first_new.or(first_known) {
            Some((k, m)) => Outcome::fail(h, k, m),
            None => Outcome::pass(h, false),
        }
    }
    fn render(&self, case: &Batch) -> Value {
        if case.insts.len() == 1 {
            let i = &case.insts[0];
            json!({"insts": [i.to_json()], "call": i.call_text(), "requested": expect_text(i)})
        } else {
            json!({"insts": case.insts.iter().map(|i| i.to_json()).collect::<Vec<_>>()})
        }
    }
    fn from_rendered(&self, v: &Value) -> Option<Batch> {
        let insts: Option<Vec<Inst>> = v["insts"].as_array()?.iter().map(Inst::from_json).collect();
        Some(Batch { insts: insts? })
    }
    fn minimize(&self, case: &Batch, fails: &dyn Fn(&Batch) -> bool) -> Option<Batch> {
        let verdicts = eval_insts(&case.insts).ok()?;
        let mut failing: Vec<&Inst> = case.insts.iter().zip(verdicts.iter()).filter(|(_, v)| v.fail.is_some()).map(|(i, _)| i).collect();
        // unknown keys first, like eval
        failing.sort_by_key(|i| 0usize.wrapping_add(i.ops.len()));
        let mut cur: Option<Inst> = None;
        for i in failing.into_iter().take(24) {
            let b = Batch { insts: vec![i.clone()] };
            if fails(&b) {
                cur = Some(i.clone());
                break;
            }
        }
        let mut cur = cur?;
        // operand-wise simplification, one pass
        let row = cur.row();
        for pos in 0..cur.ops.len() {
            let simpler: Vec<Op> = match (&row.kinds[pos], cur.ops[pos]) {
                (Kind::Reg { .. }, Op::R(n)) if n <= 30 => vec![Op::R(0), Op::R(1), Op::R(2), Op::R(3)],
                (Kind::FReg { .. }, Op::F(_)) => vec![Op::F(0), Op::F(1)],
                (Kind::Shift { .. }, _) => vec![Op::Sh(0)],
                (Kind::Cond, _) => vec![Op::C(0)],
                (Kind::Extend { ldst: false }, _) => vec![Op::Ext(0)],
                (Kind::Extend { ldst: true }, _) => vec![Op::Ext(2)],
                (Kind::Imm { .. }, Op::I(v)) => vec![Op::I(0), Op::I(1), Op::I(v / 2)],
                (Kind::Imm { .. }, Op::U(v)) => vec![Op::U(1), Op::U(v & 0xffff_ffff)],
                _ => vec![],
            };
            for s in simpler {
                if s == cur.ops[pos] {
                    break;
                }
                let mut cand = cur.clone();
                cand.ops[pos] = s;
                if !is_valid(row, &cand.ops) {
                    continue;
                }
                if fails(&Batch { insts: vec![cand.clone()] }) {
                    cur = cand;
                    break;
                }
            }
        }
        Some(Batch { insts: vec![cur] })
    }
}

/// `--probe-refusals`: print which single special operands of legal instances are refused.
pub fn probe_refusals() {
    for row in table::rows() {
        let base = base_ops(row, 0);
        for (i, k) in row.kinds.iter().enumerate() {
            let mut cands: Vec<Op> = vec![];
            match k {
                Kind::Reg { .. } => cands.extend([Op::R(ZR), Op::R(SP)]),
                Kind::Imm { name, .. } if *name == "amount" => cands.extend([Op::I(4), Op::I(32), Op::I(63)]),
                _ => {}
            }
            for v in cands {
                let mut ops = base.clone();
                ops[i] = v;
                if !is_valid(row, &ops) || illegal_class(row, &ops).is_some() {
                    continue;
                }
                let inst = Inst { m: row.name, ops };
                if let RunResult::Refused(msg) = run_inst(&inst) {
                    let sp = special_classes(row, &inst.ops);
                    println!("{:<14} {:<18} {:<14} tolerated={} ({})", row.family, row.name, sp.join("+"), sp.iter().any(|c| tolerated(row, c)), msg.chars().take(70).collect::<String>());
                }
            }
        }
        // plain base must be accepted
        for variant in 0..2 {
            let inst = Inst { m: row.name, ops: base_ops(row, variant) };
            if illegal_class(row, &inst.ops).is_none() {
                if let RunResult::Refused(msg) = run_inst(&inst) {
                    println!("BASE-REFUSED {} {}: {}", row.name, inst.call_text(), msg);
                }
            }
        }
    }
}
