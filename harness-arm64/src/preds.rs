//! Public helper predicates of dora-asm's arm64 module against brute-force definitions.
//! (The private ones — fits_iN, encode_addsub_imm, encode_logical_imm — are exercised through the
//! public methods by the encoding sub-check: legal boundary values must encode, neighbours must
//! be refused, every valid logical immediate is enumerated.)

use dora_asm::arm64 as a;
use serde_json::json;
use vh::vcore::*;

fn halfwords(imm: u64, size: u32) -> Vec<u16> {
    (0..size / 16).map(|i| (imm >> (16 * i)) as u16).collect()
}

fn bf_count_empty(imm: u64, size: u32) -> u32 {
    halfwords(imm, size).iter().filter(|h| **h == 0).count() as u32
}

/// some single movz of the given register size produces the low `size` bits of imm
fn bf_fits_movz(imm: u64, size: u32) -> bool {
    let mask = if size == 64 { !0u64 } else { 0xffff_ffff };
    (0..size / 16).any(|i| (imm & mask) & !(0xffffu64 << (16 * i)) == 0)
}

fn bf_shift_movz(imm: u64) -> u32 {
    (0..4).find(|i| (imm >> (16 * i)) & 0xffff != 0).map(|i| 16 * i).unwrap_or(0)
}

pub fn run(ctx: &mut Ctx) {
    let sub = "predicates";
    let mut vals: Vec<u64> = vec![0, 1, 0xffff, 0x10000, 0xffff0000, 0x1_0000, 0xffff_0000_0000, 0xffff_0000_0000_0000, !0, !0xffff, !0xffff_0000u64, 0x1234_0000_5678, 0x8000_0000, 0xffff_ffff, 0xffff_ffff_8000_0000];
    // all single-halfword values at all positions, with their complements and off-by-one neighbours
    for s in 0..4 {
        for h in [1u64, 2, 0x7fff, 0x8000, 0xfffe, 0xffff, 0x1234] {
            let v = h << (16 * s);
            vals.extend([v, !v, v.wrapping_add(1), v.wrapping_sub(1), v | 1, v | (1 << 63)]);
        }
    }
    let mut x: u64 = 0x9e37_79b9_7f4a_7c15 ^ ctx.seed;
    for _ in 0..ctx.n(20_000, 400_000) {
        x ^= x << 13;
        x ^= x >> 7;
        x ^= x << 17;
        vals.push(x);
        vals.push(x >> 32);
        vals.push((x as i32) as i64 as u64);
        vals.push(x & 0xffff_0000_ffff_0000);
    }
    let mut evals = 0u64;
    let fail = |ctx: &mut Ctx, name: &str, msg: String, input: serde_json::Value| {
        ctx.report_failure(sub, &Failure { key: format!("predicate:{name}"), msg }, || json!({"rendered": {"predicate": name, "input": input}}));
    };
    for &v in &vals {
        for size in [64u32, 32] {
            // 32-bit callers pass sign-extended i32 values; restrict to that domain
            if size == 32 && !(v >> 32 == 0 || v >> 31 == 0x1_ffff_ffff) {
                continue;
            }
            evals += 4;
            let got = a::count_empty_half_words(v, size);
            if got != bf_count_empty(v, size) {
                fail(ctx, "count_empty_half_words", format!("count_empty_half_words({v:#x}, {size}) = {got}, brute force {}", bf_count_empty(v, size)), json!([format!("{v:#x}"), size]));
            }
            if a::fits_movz(v, size) != bf_fits_movz(v, size) {
                fail(ctx, "fits_movz", format!("fits_movz({v:#x}, {size}) = {}, brute force {}", a::fits_movz(v, size), bf_fits_movz(v, size)), json!([format!("{v:#x}"), size]));
            }
            if a::fits_movn(v, size) != bf_fits_movz(!v, size) {
                fail(ctx, "fits_movn", format!("fits_movn({v:#x}, {size}) = {}, brute force {}", a::fits_movn(v, size), bf_fits_movz(!v, size)), json!([format!("{v:#x}"), size]));
            }
        }
        evals += 2;
        if a::shift_movz(v) != bf_shift_movz(v) {
            fail(ctx, "shift_movz", format!("shift_movz({v:#x}) = {}, brute force {}", a::shift_movz(v), bf_shift_movz(v)), json!([format!("{v:#x}")]));
        }
        if a::shift_movn(v) != bf_shift_movz(!v) {
            fail(ctx, "shift_movn", format!("shift_movn({v:#x}) = {}, brute force {}", a::shift_movn(v), bf_shift_movz(!v)), json!([format!("{v:#x}")]));
        }
    }
    for v in (0u32..10_000).chain([u32::MAX, u32::MAX - 1, 1 << 31, 1 << 12, (1 << 12) - 1, (1 << 12) + 1, 1 << 24]) {
        evals += 1;
        if a::fits_addsub_imm(v) != (v <= 4095) {
            fail(ctx, "fits_addsub_imm", format!("fits_addsub_imm({v}) = {}", a::fits_addsub_imm(v)), json!([v]));
        }
    }
    for v in (-2000i32..2000).chain([i32::MIN, i32::MAX, 256 + 512, -257 - 512, 65536 + 5, -65536 - 3]) {
        evals += 1;
        if a::fits_ldst_unscaled(v) != (-256..=255).contains(&v) {
            fail(ctx, "fits_ldst_unscaled", format!("fits_ldst_unscaled({v}) = {}", a::fits_ldst_unscaled(v)), json!([v]));
        }
    }
    *ctx.classes.entry("predicates/compared-with-brute-force".into()).or_insert(0) += evals;
    ctx.extra.insert("predicate_evaluations".into(), json!(evals));
}
