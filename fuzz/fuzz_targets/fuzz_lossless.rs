#![no_main]
//! libFuzzer target for property C16: bytes -> structured case (vh::fuzzsup::decode_text) -> the same oracle the
//! property-based search uses (Prop::eval). Open known findings are tolerated in-target (the campaign driver
//! re-judges every artifact through the normal known-finding handling); anything else aborts so that libFuzzer
//! keeps the input.
use libfuzzer_sys::fuzz_target;

fuzz_target!(|data: &[u8]| {
    let prop = vh::c16::Lossless;
    vh::fuzzsup::fuzz_one(&prop, "C16", vh::fuzzsup::decode_text(data));
});
