#![no_main]
//! libFuzzer target for property C20: bytes -> structured case (vh::fuzzsup::decode_position) -> the same oracle the
//! property-based search uses (Prop::eval). Open known findings are tolerated in-target (the campaign driver
//! re-judges every artifact through the normal known-finding handling); anything else aborts so that libFuzzer
//! keeps the input.
use libfuzzer_sys::fuzz_target;

fuzz_target!(|data: &[u8]| {
    let prop = vh::c20::Positions;
    vh::fuzzsup::fuzz_one(&prop, "C20", vh::fuzzsup::decode_position(data));
});
