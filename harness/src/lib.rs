pub mod vcore;
pub mod isolate;
pub mod textgen;
pub mod c16;
pub mod c06;
pub mod c20;
pub mod c19;
pub mod c17;
