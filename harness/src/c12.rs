//! C12 (program level) — real collections with 1, 2 and 8 workers over generated object graphs.
//!
//! The schedule-exploring half (real `Terminator`, abstract pool) is binary `vsched C12`, merged as part
//! `terminator`. Here: generated graph programs (deep, wide, shared, cyclic, mutated between collections)
//! are run under the parallel collector with every worker count, with and without heap verification,
//! release and debug runtime, and compared with a run that never collects (--gc=zero) — early termination
//! of marking/evacuation frees or fails to copy live objects, which shows as a different checksum, a
//! verifier/assertion failure or a crash; a worker that sleeps forever shows as a quiescent process.

use crate::runner::*;
use crate::vcore::*;
use serde_json::{Value, json};
use std::time::Duration;

#[derive(Clone, Debug)]
pub struct GraphCase {
    pub label: String,
    pub source: String,
    pub backend: Backend,
    /// (debug runtime, DORA_FLAGS) for the swiper executable
    pub configs: Vec<(bool, String)>,
    pub shapes: Vec<String>,
}

pub struct ParallelGc {
    pub release: Tools,
    pub debug: Tools,
}

const PROGRAM: &str = r#"class N { id: Int64, mark: Int64, next: Option[N], other: Option[N], kids: Array[Option[N]], pad: Array[Int64] }

class World { empty: Array[Option[N]], nextid: Int64, rng: Int64, epoch: Int64 }

impl World {
    fn node(): N {
        let n = N(id = self.nextid, mark = 0, next = None, other = None, kids = self.empty, pad = Array[Int64]::zero(self.nextid % @PAD@));
        self.nextid = self.nextid + 1;
        n
    }
    fn rand(m: Int64): Int64 {
        self.rng = (self.rng * 1103515245 + 12345) % 2147483648;
        (self.rng / 7) % m
    }
}

fn deep(w: World, d: Int64): N {
    let head = w.node();
    let mut cur = head;
    let mut i = 1;
    while i < d {
        let n = w.node();
        cur.next = Some[N](n);
        cur = n;
        i = i + 1;
    }
    head
}

fn wide(w: World, fan: Int64, depth: Int64): N {
    let n = w.node();
    if depth > 0 {
        n.kids = Array[Option[N]]::fill(fan, None);
        let mut i = 0;
        while i < fan {
            n.kids(i) = Some[N](wide(w, fan, depth - 1));
            i = i + 1;
        }
    }
    n
}

fn shared(w: World, layers: Int64, width: Int64, r: Int64): N {
    let root = w.node();
    let mut below = Array[Option[N]]::fill(width, None);
    let mut i = 0;
    while i < width { below(i) = Some[N](w.node()); i = i + 1; }
    let mut l = 1;
    while l < layers {
        let cur = Array[Option[N]]::fill(width, None);
        i = 0;
        while i < width {
            let n = w.node();
            n.kids = Array[Option[N]]::fill(r, None);
            let mut j = 0;
            while j < r { n.kids(j) = below(w.rand(width)); j = j + 1; }
            n.next = below(i);
            cur(i) = Some[N](n);
            i = i + 1;
        }
        below = cur;
        l = l + 1;
    }
    root.kids = below;
    root
}

fn cyclic(w: World, n: Int64, chords: Int64): N {
    let nodes = Array[Option[N]]::fill(n, None);
    let mut i = 0;
    while i < n { nodes(i) = Some[N](w.node()); i = i + 1; }
    i = 0;
    while i < n {
        let x = nodes(i).get_or_panic();
        x.next = nodes((i + 1) % n);
        if i % chords == 0 { x.other = nodes((i * 7 + 3) % n); }
        i = i + 1;
    }
    nodes(0).get_or_panic()
}

fn checksum(w: World, root: N): Int64 {
    w.epoch = w.epoch + 1;
    let e = w.epoch;
    let stack = Vec[N]::new();
    stack.push(root);
    root.mark = e;
    let mut sum = 0;
    let mut count = 0;
    while stack.size() > 0 {
        let n = stack.pop().get_or_panic();
        count = count + 1;
        sum = (sum * 31 + n.id * 7 + n.pad.size()) % 1000000007;
        if n.next.is_some() {
            let x = n.next.get_or_panic();
            sum = (sum + x.id) % 1000000007;
            if x.mark != e { x.mark = e; stack.push(x); }
        }
        if n.other.is_some() {
            let x = n.other.get_or_panic();
            sum = (sum + 3 * x.id) % 1000000007;
            if x.mark != e { x.mark = e; stack.push(x); }
        }
        let mut i = 0;
        while i < n.kids.size() {
            if n.kids(i).is_some() {
                let x = n.kids(i).get_or_panic();
                sum = (sum + 5 * x.id + i) % 1000000007;
                if x.mark != e { x.mark = e; stack.push(x); }
            }
            i = i + 1;
        }
    }
    sum * 1000003 % 1000000007 + count
}

fn garbage(w: World, n: Int64): Int64 {
    let idsave = w.nextid;
    let mut i = 0;
    let mut keep = 0;
    while i < n {
        let g = deep(w, 3 + i % 5);
        keep = keep + g.id % 2;
        i = i + 1;
    }
    w.nextid = idsave;
    keep
}

fn main() {
    let w = World(empty = Array[Option[N]]::new(), nextid = 1, rng = @SEED@, epoch = 0);
    let roots = Vec[N]::new();
@ROOTS@
    let mut round = 0;
    while round < @ROUNDS@ {
        garbage(w, @GARBAGE@);
        @MINOR@
        let mut k = 0;
        while k < roots.size() { println("r${round} minor root${k} ${checksum(w, roots(k))}"); k = k + 1; }
        std::force_collect();
        k = 0;
        while k < roots.size() { println("r${round} full root${k} ${checksum(w, roots(k))}"); k = k + 1; }
        // mutate: hang fresh structures below old nodes (old -> young edges), drop others
        let r = roots(round % roots.size());
        r.other = Some[N](wide(w, 3, @MUTDEPTH@));
        let r2 = roots((round + 1) % roots.size());
        r2.next = Some[N](deep(w, @MUTLEN@));
        round = round + 1;
    }
    println("nodes ${w.nextid}");
}
"#;

impl Prop for ParallelGc {
    type Case = GraphCase;
    fn name(&self) -> &str {
        "graphs"
    }
    fn generate(&self, c: &mut Choices) -> GraphCase {
        let backend = if c.chance(1, 3) { Backend::Cannon } else { Backend::Boots };
        let nroots = 1 + c.below(5);
        let mut roots = String::new();
        let mut shapes = vec![];
        let mut est: i64 = 0; // estimated number of nodes
        for _ in 0..nroots {
            match c.below(4) {
                0 => {
                    let d = *c.pick(&[5000i64, 10, 100000, 30000]);
                    roots.push_str(&format!("    roots.push(deep(w, {d}));\n"));
                    shapes.push(format!("deep({d})"));
                    est += d;
                }
                1 => {
                    let (fan, depth) = *c.pick(&[(6i64, 4i64), (2, 12), (50, 2), (1000, 1), (3, 8), (20000, 1)]);
                    roots.push_str(&format!("    roots.push(wide(w, {fan}, {depth}));\n"));
                    shapes.push(format!("wide({fan},{depth})"));
                    est += (0..=depth).map(|i| fan.pow(i as u32)).sum::<i64>();
                }
                2 => {
                    let (layers, width, r) = *c.pick(&[(6i64, 300i64, 3i64), (3, 10, 2), (40, 100, 4), (4, 5000, 2), (10, 1000, 8)]);
                    roots.push_str(&format!("    roots.push(shared(w, {layers}, {width}, {r}));\n"));
                    shapes.push(format!("shared({layers},{width},{r})"));
                    est += layers * width;
                }
                _ => {
                    let (n, chords) = *c.pick(&[(4000i64, 3i64), (2, 1), (50000, 1), (1000, 1000)]);
                    roots.push_str(&format!("    roots.push(cyclic(w, {n}, {chords}));\n"));
                    shapes.push(format!("cyclic({n},{chords})"));
                    est += n;
                }
            }
        }
        let rounds = 2 + c.below(4);
        let garbage = *c.pick(&[2000i64, 0, 20000, 100]);
        est += garbage / 4;
        let minor = if c.chance(3, 4) { "std::force_minor_collect();" } else { "" };
        let source = PROGRAM
            .replace("@PAD@", &c.pick(&[5i64, 1, 40]).to_string())
            .replace("@SEED@", &(1 + c.below(100000)).to_string())
            .replace("@ROOTS@", &roots)
            .replace("@ROUNDS@", &rounds.to_string())
            .replace("@GARBAGE@", &garbage.to_string())
            .replace("@MINOR@", minor)
            .replace("@MUTDEPTH@", &c.pick(&[3i64, 0, 6]).to_string())
            .replace("@MUTLEN@", &c.pick(&[200i64, 1, 5000]).to_string());
        // every worker count, each with a generated flavour
        let mut configs = vec![];
        for w in [1, 2, 8] {
            // the debug runtime (assertions, from-space protection) and a collection at every slow-path
            // allocation are affordable only for small graphs
            let debug = c.chance(1, 2) && est <= 40_000;
            let mut f = vec![format!("--gc-worker={w}")];
            if c.chance(1, 2) {
                f.push("--gc-verify".into());
            }
            match c.below(5) {
                1 => f.push("--gc-young-size=1M".into()),
                2 => f.push("--gc-young-size=4M".into()),
                3 if est <= 3_000 => f.push("--gc-stress-minor".into()),
                3 => f.push("--gc-young-size=2M".into()),
                _ => {}
            }
            configs.push((debug, f.join(" ")));
        }
        // one more: a generated worker count in 3..16
        configs.push((c.chance(1, 2) && est <= 40_000, format!("--gc-worker={}", 3 + c.below(14))));
        GraphCase { label: shapes.join("+"), source, backend, configs, shapes }
    }
    fn eval(&self, case: &GraphCase) -> Outcome {
        let h = hash64(&(&case.source, case.backend, &case.configs));
        let scratch = Scratch::new("c12");
        let src = scratch.file("g.dora");
        std::fs::write(&src, &case.source).unwrap();
        // reference: never collects
        let zexe = scratch.file("g-zero");
        let cr = compile(&self.release, &src, &zexe, case.backend, &CompileOpts { gc: Some("zero".into()), extra: vec![] }, Duration::from_secs(240));
        if !cr.ok() {
            return Outcome { inconclusive: Some(format!("graph program did not compile: {}", first_lines(&crate::c01::strip_warnings(&cr.stderr_str()), 6))), hash: h, ..Default::default() };
        }
        let zr = run_exe(&zexe, "--max-heap-size=3G", Duration::from_secs(120), &scratch.path);
        let reference = if classify(&zr) == Ending::Exit(0) {
            zr.stdout_str()
        } else {
            // graph too large for a run without collection: the serial mark-sweep collector is the reference
            let sexe = scratch.file("g-sweep");
            let cr = compile(&self.release, &src, &sexe, case.backend, &CompileOpts { gc: Some("sweep".into()), extra: vec![] }, Duration::from_secs(240));
            let sr = run_exe(&sexe, "", Duration::from_secs(120), &scratch.path);
            if !cr.ok() || classify(&sr) != Ending::Exit(0) {
                return Outcome { inconclusive: Some(format!("no reference run for {}: zero ended {:?}, sweep ended {:?}", case.label, classify(&zr), classify(&sr))), hash: h, ..Default::default() };
            }
            sr.stdout_str()
        };
        let mut exes: [Option<std::path::PathBuf>; 2] = [None, None];
        let mut parallel = false;
        for (debug, flags) in &case.configs {
            let tools = if *debug { &self.debug } else { &self.release };
            let slot = *debug as usize;
            if exes[slot].is_none() {
                let exe = scratch.file(if *debug { "g-swiper-debug" } else { "g-swiper" });
                let cr = compile(tools, &src, &exe, case.backend, &CompileOpts { gc: Some("swiper".into()), extra: vec![] }, Duration::from_secs(400));
                if !cr.ok() {
                    return Outcome { inconclusive: Some(format!("graph program did not compile (swiper, debug={debug})")), hash: h, ..Default::default() };
                }
                exes[slot] = Some(exe);
            }
            let exe = exes[slot].as_ref().unwrap();
            let rr = run_exe_watch(exe, flags, &[], Duration::from_secs(300), Duration::from_secs(8), &scratch.path);
            let e = classify(&rr);
            let cfg = format!("{} generator, {} runtime, --gc=swiper DORA_FLAGS={:?}, graph {}", case.backend.name(), if *debug { "debug" } else { "release" }, flags, case.label);
            match &e {
                Ending::Timeout => return Outcome { inconclusive: Some(format!("{cfg}: still running after 300 s")), hash: h, ..Default::default() },
                Ending::Quiescent => {
                    return Outcome::fail(h, "collection-never-ends:quiescent", format!("{cfg}: the process stopped making progress (every thread asleep, no CPU time for 8 s) without finishing — a collection phase never ended\nstdout so far: {:?}", truncate_str(&rr.stdout_str(), 300)));
                }
                Ending::Exit(0) => {}
                other => {
                    let what = match other {
                        Ending::Signal(s) => format!("signal-{s}"),
                        Ending::RuntimePanic(_) => "runtime-panic".into(),
                        Ending::Trap(c, _) => format!("trap-{c}"),
                        _ => "other".into(),
                    };
                    return Outcome::fail(h, format!("abnormal-end:{what}"), format!("{cfg}: ended with {:?}\nstderr: {}", other, truncate_str(&rr.stderr_str(), 800)));
                }
            }
            if rr.stdout_str() != reference {
                let out = rr.stdout_str();
                let first = out.lines().zip(reference.lines()).find(|(a, b)| a != b).map(|(a, b)| format!("got {a:?}, reference {b:?}")).unwrap_or_else(|| "different length".into());
                return Outcome::fail(h, "graph-differs-after-collection", format!("{cfg}: the graph checksums differ from the run that never collected: {first}"));
            }
            if !flags.contains("--gc-worker=1") {
                parallel = true;
            }
        }
        let mut o = Outcome::pass(h, parallel).class(format!("generator:{}", case.backend.name()));
        for s in &case.shapes {
            o = o.class(format!("shape:{}", s.split('(').next().unwrap_or("")));
        }
        for (debug, f) in &case.configs {
            o = o.class_if(*debug, "debug-runtime").class_if(f.contains("--gc-verify"), "gc-verify");
            for w in ["--gc-worker=1", "--gc-worker=2", "--gc-worker=8"] {
                o = o.class_if(f.split(' ').any(|x| x == w), w);
            }
        }
        o
    }
    fn render(&self, case: &GraphCase) -> Value {
        json!({"label": case.label, "source": case.source, "generator": case.backend.name(), "configs": case.configs.iter().map(|(d, f)| json!([d, f])).collect::<Vec<_>>(), "shapes": case.shapes})
    }
    fn from_rendered(&self, v: &Value) -> Option<GraphCase> {
        Some(GraphCase {
            label: v["label"].as_str()?.into(),
            source: v["source"].as_str()?.into(),
            backend: if v["generator"].as_str()? == "baseline" { Backend::Cannon } else { Backend::Boots },
            configs: v["configs"].as_array()?.iter().filter_map(|p| Some((p[0].as_bool()?, p[1].as_str()?.to_string()))).collect(),
            shapes: v["shapes"].as_array().map(|a| a.iter().filter_map(|s| s.as_str().map(String::from)).collect()).unwrap_or_default(),
        })
    }
}

pub fn main(mode: Mode) -> i32 {
    let p = ParallelGc { release: Tools::release(), debug: Tools::debug() };
    match mode {
        Mode::Worker(_) => 2,
        Mode::Minimize(_, doc) => {
            let mut ctx = Ctx::new("C12", "quick");
            ctx.minimize_stored(&p, &doc, 60)
        }
        Mode::Replay(_, doc) => {
            let mut ctx = Ctx::new("C12", "quick");
            ctx.replay(&p, &doc)
        }
        Mode::Run(tier) => {
            let mut ctx = Ctx::new("C12", &tier);
            if !p.release.has_boots() || !p.debug.has_boots() {
                println!("INCONCLUSIVE property=C12 the optimizing compiler could not be bootstrapped from this tree");
                return 2;
            }
            ctx.rule = "program level (sub-check `graphs`): a case is a generated graph program — 1-5 roots drawn from deep lists (10-100000 nodes), wide trees (fan-out 2-20000), layered DAGs with pseudo-random shared edges, rings with chords, variable object sizes — that runs 2-5 rounds of {allocate garbage, forced minor collection, checksum of every root, forced full collection, checksum again, hang fresh structures below old nodes}; it is run under the parallel collector with 1, 2, 8 and one generated number (3-16) of workers, each with generated flavour (--gc-verify, young size, --gc-stress-minor, release or debug runtime with its assertions) and compared with a run that never collects (--gc=zero; the serial mark-sweep collector when the graph does not fit). oracle: identical output, exit 0, no signal / runtime panic (marking-closure verification and debug assertions included); a process whose threads are all asleep without CPU use for 8 s is a collection phase that never ended (violation); non-trivial = case in which at least one multi-worker configuration completed. schedule level: part `terminator` (deterministic scheduler over the real Terminator, binary vsched)".into();
            ctx.assumptions = vec!["real runs explore only the worker interleavings the OS produces; the deterministic-scheduler part explores the termination protocol exhaustively up to a preemption bound".into()];
            ctx.run_regressions(&p);
            ctx.run_known_reproducers(&p);
            let n = ctx.n(48, 1500);
            ctx.run_search(&p, n, 60, 0);
            for k in ["shape:deep", "shape:wide", "shape:shared", "shape:cyclic", "--gc-worker=1", "--gc-worker=2", "--gc-worker=8", "gc-verify", "debug-runtime"] {
                ctx.require_class(&format!("graphs/{k}"));
            }
            ctx.merge_part("terminator");
            ctx.finish()
        }
    }
}
