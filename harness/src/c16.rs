//! C16 — the syntax tree loses nothing of the text.

use crate::textgen::{self, TextCase};
use crate::vcore::*;
use dora_parser::ast::{SyntaxElement, SyntaxNode};
use dora_parser::{GreenElement, GreenNode, Parser};
use serde_json::{Value, json};
use std::sync::Arc;

pub struct Lossless;

fn green_shape(n: &GreenNode, out: &mut Vec<(u16, u32)>) {
    out.push((n.syntax_kind() as u16, n.text_length()));
    for ch in n.children() {
        match ch {
            GreenElement::Token(t) => out.push((t.kind as u16 | 0x8000, t.text.len() as u32)),
            GreenElement::Node(c) => green_shape(c, out),
        }
    }
}

struct Walk<'a> {
    text: &'a str,
    nodes: u64,
    tokens: u64,
    error_nodes: u64,
}

impl<'a> Walk<'a> {
    fn node(&mut self, n: &SyntaxNode) -> Result<(), String> {
        self.nodes += 1;
        let span = n.full_span();
        let start = span.start();
        let mut pos = start;
        let mut sum = 0u32;
        for (i, el) in n.children_with_tokens().enumerate() {
            let (s, l) = match &el {
                SyntaxElement::Token(t) => (t.span().start(), t.text_length()),
                SyntaxElement::Node(c) => (c.full_span().start(), c.full_span().len()),
            };
            if s != pos {
                return Err(format!(
                    "tiling: child #{i} of {:?} node at {} starts at {} but previous sibling ended at {}",
                    n.green().syntax_kind(),
                    start,
                    s,
                    pos
                ));
            }
            match &el {
                SyntaxElement::Token(t) => {
                    self.tokens += 1;
                    let e = (s + l) as usize;
                    let slice = self.text.get(s as usize..e);
                    if slice != Some(t.text()) {
                        return Err(format!(
                            "token text mismatch at {}..{}: token says {:?}, input has {:?}",
                            s,
                            e,
                            t.text(),
                            slice
                        ));
                    }
                    if t.text().len() as u32 != l {
                        return Err(format!("token length {} != text length {}", l, t.text().len()));
                    }
                }
                SyntaxElement::Node(c) => {
                    if format!("{:?}", c.green().syntax_kind()) == "ERROR" {
                        self.error_nodes += 1;
                    }
                    self.node(c)?
                }
            }
            pos = s + l;
            sum += l;
        }
        if sum != span.len() {
            return Err(format!(
                "length: {:?} node at {} has length {} but its children sum to {}",
                n.green().syntax_kind(),
                start,
                span.len(),
                sum
            ));
        }
        if n.green().text_length() != span.len() {
            return Err("green/red length disagree".into());
        }
        Ok(())
    }
}

pub struct LosslessStats {
    pub errors: usize,
    pub nodes: u64,
    pub tokens: u64,
}

/// The oracle. Err((key, message)) on violation.
pub fn check_lossless(text: &str) -> Result<LosslessStats, (String, String)> {
    // lexer partition
    let lx = guarded(|| dora_parser::lex(text)).map_err(|p| (p.key(), format!("lexer panicked: {} at {}\n{}", p.message, p.location, p.backtrace)))?;
    // `tokens` carries one trailing EOF entry that has no start
    if lx.tokens.len() != lx.starts.len() + 1 {
        return Err(("lex-partition".into(), "tokens/starts length differ".into()));
    }
    let mut prev: Option<u32> = None;
    for (i, &s) in lx.starts.iter().enumerate() {
        if i == 0 && s != 0 && !lx.starts.is_empty() {
            return Err(("lex-partition".into(), format!("first token starts at {s}")));
        }
        if let Some(p) = prev {
            if s <= p {
                return Err(("lex-partition".into(), format!("token #{i} start {s} not after previous start {p}")));
            }
        }
        if s as usize > text.len() || !text.is_char_boundary(s as usize) {
            return Err(("lex-partition".into(), format!("token #{i} start {s} not a char boundary inside text")));
        }
        prev = Some(s);
    }
    for e in &lx.errors {
        if e.span.end() as usize > text.len() {
            return Err(("error-span".into(), format!("lexer error span {} beyond text length {}", e.span, text.len())));
        }
    }

    let content = Arc::new(text.to_string());
    let (file, errors) = guarded(|| Parser::from_shared_string(content.clone()).parse())
        .map_err(|p| (p.key(), format!("parser panicked: {} at {}\n{}", p.message, p.location, p.backtrace)))?;
    let root = file.root();
    let repro = root.green().to_string();
    if repro != text {
        let at = repro.bytes().zip(text.bytes()).position(|(a, b)| a != b).unwrap_or(repro.len().min(text.len()));
        return Err((
            "roundtrip".into(),
            format!("tree text differs from input at byte {at}: tree has {} bytes, input {} bytes", repro.len(), text.len()),
        ));
    }
    if root.full_span().start() != 0 || root.full_span().len() as usize != text.len() {
        return Err(("root-span".into(), format!("root span {} != [0,{})", root.full_span(), text.len())));
    }
    let mut w = Walk { text, nodes: 0, tokens: 0, error_nodes: 0 };
    w.node(&root).map_err(|m| (m.split(':').next().unwrap_or("walk").to_string(), m))?;
    for e in &errors {
        if e.span.end() as usize > text.len() {
            return Err((
                "error-span".into(),
                format!("error {:?} has span {} outside text of length {}", e.error, e.span, text.len()),
            ));
        }
    }
    if errors.is_empty() {
        let (file2, errors2) = guarded(|| Parser::from_shared_string(Arc::new(repro.clone())).parse())
            .map_err(|p| (p.key(), format!("parser panicked on re-parse: {}", p.message)))?;
        if !errors2.is_empty() {
            return Err(("reparse".into(), "re-parsing the reproduced text reports errors".into()));
        }
        let mut a = vec![];
        let mut b = vec![];
        green_shape(root.green(), &mut a);
        green_shape(file2.root().green(), &mut b);
        if a != b {
            return Err(("reparse".into(), "re-parsing the reproduced text gives a different tree".into()));
        }
    }
    Ok(LosslessStats { errors: errors.len(), nodes: w.nodes, tokens: w.tokens })
}

fn eval_text(case: &TextCase) -> Outcome {
    let text = &case.text;
    let h = hash64(text);
    let multibyte = text.bytes().any(|b| b >= 0x80);
    let nonlf = text.contains('\r');
    match check_lossless(text) {
        Ok(st) => {
            let fam = case.family.split(':').next().unwrap_or("").split('/').next().unwrap_or("").to_string();
            Outcome::pass(h, st.errors > 0 && (multibyte || nonlf))
                .class(format!("family:{fam}"))
                .class_if(st.errors > 0, "with-parse-errors")
                .class_if(st.errors == 0 && !text.is_empty(), "error-free(reparse-checked)")
                .class_if(multibyte, "multi-byte")
                .class_if(nonlf, "non-LF-endings")
        }
        Err((key, msg)) => Outcome::fail(h, key, msg),
    }
}

impl Prop for Lossless {
    type Case = TextCase;
    fn name(&self) -> &str {
        "lossless"
    }
    fn generate(&self, c: &mut Choices) -> TextCase {
        let mut t = textgen::gen_text_case(c);
        if c.chance(1, 4) {
            // insert a multi-byte char somewhere
            let mut pos = c.below(t.text.len() + 1);
            while !t.text.is_char_boundary(pos) {
                pos -= 1;
            }
            let ins: &str = *c.pick(&["é", "😀", "€", "𝒳"]); t.text.insert_str(pos, ins);
        }
        t
    }
    fn eval(&self, case: &TextCase) -> Outcome {
        eval_text(case)
    }
    fn render(&self, case: &TextCase) -> Value {
        json!({"family": case.family, "text": case.text})
    }
    fn minimize(&self, case: &TextCase, fails: &dyn Fn(&TextCase) -> bool) -> Option<TextCase> {
        let fam = case.family.clone();
        let t = ddmin_text(&case.text, &|s| fails(&TextCase { family: fam.clone(), text: s.to_string() }), 3000);
        Some(TextCase { family: fam, text: t })
    }
    fn from_rendered(&self, v: &Value) -> Option<TextCase> {
        Some(TextCase { family: v["family"].as_str().unwrap_or("replay").to_string(), text: v["text"].as_str()?.to_string() })
    }
}

pub fn corpus_cases() -> Vec<TextCase> {
    let mut out = vec![];
    for (p, s) in textgen::corpus() {
        out.push(TextCase { family: format!("repo-file/lf:{}", p.display()), text: s.clone() });
        if s.contains('\n') {
            out.push(TextCase { family: format!("repo-file/crlf:{}", p.display()), text: s.replace('\n', "\r\n") });
            out.push(TextCase { family: format!("repo-file/cr:{}", p.display()), text: s.replace('\n', "\r") });
        }
    }
    out
}

pub fn main(mode: Mode) -> i32 {
    let p = Lossless;
    match mode {
        Mode::Worker(_) | Mode::Minimize(..) => 2,
        Mode::Replay(_, doc) => {
            let mut ctx = Ctx::new("C16", "quick");
            let rc = ctx.replay(&p, &doc);
            rc
        }
        Mode::Run(tier) => {
            let mut ctx = Ctx::new("C16", &tier);
            start_watchdog(120, "C16");
            ctx.rule = "cases: every repo .dora file (<=64KiB) in LF/CRLF/CR form, plus proptest choice sequences decoded into token soups, grammar-directed programs and token-level mutants (delete/duplicate/swap/replace/truncate/splice/flip-delimiter/insert-multibyte) with LF/CRLF/CR/mixed endings; oracle: tree text == input, lexer partition, span tiling, node length = sum of children, token text == input slice, error spans inside text, re-parse stability when error-free. non-trivial = text with >=1 parse error AND (a multi-byte char or a non-LF line ending); distinct by text hash".into();
            ctx.assumptions = vec!["nesting depth of generated brackets <= 64, size <= 64 KiB (the bound the property states)".into()];
            ctx.run_regressions(&p);
            ctx.run_enum(&p, corpus_cases());
            let n = ctx.n(600_000, 6_000_000);
            ctx.run_search(&p, n, 160, 400);
            if ctx.thorough() || std::env::var("VERIF_FUZZ").is_ok() {
                let runs = ctx.n(200_000, 8_000_000) as u64;
                crate::fuzzsup::run_campaign(&mut ctx, &p, &crate::fuzzsup::Campaign { target: "fuzz_lossless", decode: crate::fuzzsup::decode_text, runs, max_len: 4096, seeds: crate::fuzzsup::repo_seeds(2500, 300, b""), timeout: std::time::Duration::from_secs(3000) });
            }
            ctx.require_class("lossless/with-parse-errors");
            ctx.require_class("lossless/non-LF-endings");
            ctx.finish()
        }
    }
}
