//! C20 — editor positions and symbol ranges always match the document.
//! Part (a): position.rs of the language server, compiled in unchanged via #[path].

#[path = "/repo/dora-language-server/src/position.rs"]
#[allow(dead_code, unused_imports)]
mod position;

use crate::textgen::{self, TextCase};
use crate::vcore::*;
use dora_parser::compute_line_starts;
use lsp_types::Position;
use serde_json::{Value, json};

pub struct Positions;

/// Independent line-start table: a terminator is CRLF, a lone CR, or LF.
pub fn naive_line_starts(text: &str) -> Vec<u32> {
    let b = text.as_bytes();
    let mut v = vec![0u32];
    let mut i = 0;
    while i < b.len() {
        if b[i] == b'\r' {
            if i + 1 < b.len() && b[i + 1] == b'\n' {
                i += 2;
            } else {
                i += 1;
            }
            v.push(i as u32);
        } else if b[i] == b'\n' {
            i += 1;
            v.push(i as u32);
        } else {
            i += 1;
        }
    }
    v
}

pub struct PosStats {
    pub offsets: usize,
    pub positions: usize,
    pub astral_adjacent: usize,
    pub inside_crlf: usize,
    pub out_of_range: usize,
}

pub fn check_positions(text: &str, extra: &[(u32, u32)]) -> Result<PosStats, (String, String)> {
    let ls = guarded(|| compute_line_starts(text)).map_err(|p| (p.key(), format!("compute_line_starts panicked: {}", p.message)))?;
    let naive = naive_line_starts(text);
    if ls != naive {
        return Err(("line-starts".into(), format!("compute_line_starts = {:?}…, naive scan = {:?}…", &ls[..ls.len().min(12)], &naive[..naive.len().min(12)])));
    }
    let mut st = PosStats { offsets: 0, positions: 0, astral_adjacent: 0, inside_crlf: 0, out_of_range: 0 };
    let bytes = text.as_bytes();
    for o in 0..=text.len() {
        if !text.is_char_boundary(o) {
            continue;
        }
        st.offsets += 1;
        // independent recomputation of the position
        let line = match naive.binary_search(&(o as u32)) {
            Ok(i) => i,
            Err(i) => i - 1,
        };
        let col: usize = text[naive[line] as usize..o].chars().map(|c| c.len_utf16()).sum();
        let p = guarded(|| position::utf8_offset_to_utf16_position(text, &ls, o as u32))
            .map_err(|p| (p.key(), format!("utf8_offset_to_utf16_position({o}) panicked: {}", p.message)))?;
        if p.line as usize != line || p.character as usize != col {
            return Err(("offset-to-position".into(), format!("offset {o}: got ({},{}) expected ({line},{col})", p.line, p.character)));
        }
        let back = guarded(|| position::utf16_position_to_utf8_offset(text, &ls, p))
            .map_err(|p| (p.key(), format!("utf16_position_to_utf8_offset panicked: {}", p.message)))?;
        if back as usize != o {
            return Err(("round-trip".into(), format!("offset {o} -> ({},{}) -> {back}", p.line, p.character)));
        }
        let prev_astral = text[..o].chars().next_back().map(|c| c.len_utf16() == 2).unwrap_or(false);
        let next_astral = text[o..].chars().next().map(|c| c.len_utf16() == 2).unwrap_or(false);
        if prev_astral || next_astral {
            st.astral_adjacent += 1;
        }
        if o > 0 && o < bytes.len() && bytes[o - 1] == b'\r' && bytes[o] == b'\n' {
            st.inside_crlf += 1;
        }
    }
    // every (line, column) incl. out-of-range ones: clamped into the document
    let nlines = naive.len();
    let mut check_pos = |line: u32, col: u32, st: &mut PosStats| -> Result<(), (String, String)> {
        st.positions += 1;
        let off = guarded(|| position::utf16_position_to_utf8_offset(text, &ls, Position::new(line, col)))
            .map_err(|p| (p.key(), format!("utf16_position_to_utf8_offset({line},{col}) panicked: {}", p.message)))? as usize;
        if off > text.len() || !text.is_char_boundary(off) {
            return Err(("clamp".into(), format!("position ({line},{col}) -> offset {off}, text has {} bytes (char boundary: {})", text.len(), text.is_char_boundary(off.min(text.len())))));
        }
        Ok(())
    };
    for line in 0..(nlines + 2) {
        let (s, e) = if line < nlines {
            (naive[line] as usize, if line + 1 < nlines { naive[line + 1] as usize } else { text.len() })
        } else {
            (text.len(), text.len())
        };
        let w: usize = text[s..e].chars().map(|c| c.len_utf16()).sum();
        for col in 0..=(w + 3) {
            if line >= nlines || col > w {
                st.out_of_range += 1;
            }
            check_pos(line as u32, col as u32, &mut st)?;
        }
    }
    for &(l, c) in extra {
        st.out_of_range += 1;
        check_pos(l, c, &mut st)?;
    }
    Ok(st)
}

#[derive(Clone, Debug)]
pub struct PosCase {
    pub text: TextCase,
    pub extra: Vec<(u32, u32)>,
}

impl Prop for Positions {
    type Case = PosCase;
    fn name(&self) -> &str {
        "positions"
    }
    fn generate(&self, c: &mut Choices) -> PosCase {
        // texts are kept short-ish: the check is quadratic in line length
        let mode = c.weighted(&[3, 3, 2]);
        let mut t = match mode {
            0 => {
                // dense alphabet text: astral chars, CR, LF, CRLF, empty lines, no final newline
                let n = c.below(40);
                let mut s = String::new();
                for _ in 0..n {
                    s.push_str(c.pick_str(&["a", "\n", "\r\n", "\r", "😀", "é", "世", "𝒳", " ", "\t", "x", "\u{FEFF}", "\u{2028}"]));
                }
                TextCase { family: "alphabet".into(), text: s }
            }
            1 => textgen::gen_text_case(c),
            _ => {
                let small = textgen::small_corpus(1500);
                let (_, base) = small[c.below(small.len())];
                let le = 1 + c.below(3);
                let mut s = textgen::line_endings(c, base, le);
                for _ in 0..(1 + c.below(4)) {
                    let mut pos = c.below(s.len() + 1);
                    while !s.is_char_boundary(pos) {
                        pos -= 1;
                    }
                    s.insert_str(pos, c.pick_str(&["😀", "𝒳", "é", "😀😀", "\r", "\n"]));
                }
                TextCase { family: format!("repo-file+astral/{}", textgen::LINE_ENDINGS[le]), text: s }
            }
        };
        if t.text.len() > 3000 {
            let mut cut = 3000;
            while !t.text.is_char_boundary(cut) {
                cut -= 1;
            }
            t.text.truncate(cut);
        }
        let mut extra = vec![];
        for _ in 0..c.below(4) {
            let l = *c.pick(&[0u32, 1, 2, 1000, u32::MAX, u32::MAX - 1, 65536]);
            let col = *c.pick(&[0u32, 1, 2, 1000, u32::MAX, u32::MAX - 1, 65535, 65536]);
            extra.push((l, col));
        }
        PosCase { text: t, extra }
    }
    fn eval(&self, case: &PosCase) -> Outcome {
        let h = hash64(&(&case.text.text, &case.extra));
        match check_positions(&case.text.text, &case.extra) {
            Ok(st) => Outcome::pass(h, st.astral_adjacent > 0 || st.inside_crlf > 0)
                .class_if(st.astral_adjacent > 0, "offset-adjacent-to-astral-char")
                .class_if(st.inside_crlf > 0, "offset-inside-CRLF")
                .class_if(st.out_of_range > 0, "out-of-range-positions")
                .class_if(case.text.text.contains('\r'), "has-CR")
                .class_if(!case.text.text.ends_with('\n') && !case.text.text.is_empty(), "no-final-newline")
                .class_if(case.text.text.contains("\n\n") || case.text.text.contains("\r\r") || case.text.text.contains("\r\n\r\n"), "empty-lines"),
            Err((k, m)) => Outcome::fail(h, k, m),
        }
    }
    fn render(&self, case: &PosCase) -> Value {
        json!({"family": case.text.family, "text": case.text.text, "extra_positions": case.extra})
    }
    fn minimize(&self, case: &PosCase, fails: &dyn Fn(&PosCase) -> bool) -> Option<PosCase> {
        let fam = case.text.family.clone();
        let extra = case.extra.clone();
        let t = ddmin_text(&case.text.text, &|s| fails(&PosCase { text: TextCase { family: fam.clone(), text: s.to_string() }, extra: extra.clone() }), 2000);
        Some(PosCase { text: TextCase { family: fam, text: t }, extra })
    }
    fn from_rendered(&self, v: &Value) -> Option<PosCase> {
        let extra = v["extra_positions"]
            .as_array()
            .map(|a| a.iter().filter_map(|p| Some((p[0].as_u64()? as u32, p[1].as_u64()? as u32))).collect())
            .unwrap_or_default();
        Some(PosCase { text: TextCase { family: v["family"].as_str().unwrap_or("replay").into(), text: v["text"].as_str()?.to_string() }, extra })
    }
}

/// Exhaustive small documents over a 6-letter alphabet (all strings up to length n).
// ---------------------------------------------------------------------------
// Part (b): document symbols reported by the real language server (LSP over stdio).

pub struct Symbols;

fn gen_items(c: &mut Choices, depth: usize, out: &mut String, indent: usize, counter: &mut u32) {
    let n = 1 + c.below(4);
    for _ in 0..n {
        *counter += 1;
        let id = *counter;
        let pad = " ".repeat(indent);
        if c.chance(1, 3) {
            out.push_str(&format!("{pad}{}\n", c.pick_str(&["// plain comment", "// 😀 astral in a comment", "/* 世界 */", "// é", "/* 𝒳𝒴 */ // two"])));
        }
        match c.below(if depth == 0 { 7 } else { 9 }) {
            0 => out.push_str(&format!("{pad}fn f{id}(a: Int64): Int64 {{ let s = \"{}\"; a }}\n", c.pick_str(&["x", "😀", "é世", ""]))),
            1 => out.push_str(&format!("{pad}struct S{id} {{ a: Int64, b{id}: String }}\n")),
            2 => out.push_str(&format!("{pad}class C{id} {{ x: Int64, y{id}: Bool }}\n")),
            3 => out.push_str(&format!("{pad}enum E{id} {{ A, B{id}(Int64), C }}\n")),
            4 => out.push_str(&format!("{pad}trait T{id} {{ fn m{id}(): Int64; fn n(): Bool {{ true }} }}\n")),
            5 => out.push_str(&format!("{pad}const K{id}: Int64 = {};\n", id)),
            6 => out.push_str(&format!("{pad}let mut g{id}: Int64 = 0;\n")),
            7 => {
                out.push_str(&format!("{pad}impl C{} {{\n", id.saturating_sub(1)));
                for k in 0..(1 + c.below(3)) {
                    out.push_str(&format!("{pad}    {}fn m{id}_{k}(): Int64 {{ {k} }}\n", if c.chance(1, 3) { "static " } else { "" }));
                }
                out.push_str(&format!("{pad}}}\n"));
            }
            _ => {
                out.push_str(&format!("{pad}mod m{id} {{\n"));
                gen_items(c, depth - 1, out, indent + 4, counter);
                out.push_str(&format!("{pad}}}\n"));
            }
        }
        if c.chance(1, 4) {
            out.push('\n');
        }
    }
}

/// (line, utf-16 column) of the end of the document, by the same independent line scan as part (a)
fn doc_end(text: &str) -> (u64, u64) {
    let naive = naive_line_starts(text);
    let last = *naive.last().unwrap_or(&0) as usize;
    ((naive.len().max(1) - 1) as u64, text[last..].chars().map(|c| c.len_utf16() as u64).sum())
}

fn line_width(text: &str, line: u64) -> Option<u64> {
    let naive = naive_line_starts(text);
    let l = line as usize;
    if l >= naive.len() {
        return None;
    }
    let s = naive[l] as usize;
    let e = if l + 1 < naive.len() { naive[l + 1] as usize } else { text.len() };
    Some(text[s..e].chars().map(|c| c.len_utf16() as u64).sum())
}

fn pos_of(v: &Value) -> Option<(u64, u64)> {
    Some((v["line"].as_u64()?, v["character"].as_u64()?))
}

struct SymStats {
    symbols: usize,
    nested: usize,
}

fn check_symbol(text: &str, sym: &Value, parent: Option<((u64, u64), (u64, u64))>, end: (u64, u64), st: &mut SymStats) -> Result<(), (String, String)> {
    st.symbols += 1;
    let name = sym["name"].as_str().unwrap_or("?");
    let r = (pos_of(&sym["range"]["start"]), pos_of(&sym["range"]["end"]));
    let sr = (pos_of(&sym["selectionRange"]["start"]), pos_of(&sym["selectionRange"]["end"]));
    let ((Some(rs), Some(re)), (Some(ss), Some(se))) = (r, sr) else {
        return Err(("symbol-malformed".into(), format!("symbol {name:?} lacks range/selectionRange: {sym}")));
    };
    if rs > re || ss > se {
        return Err(("symbol-range-inverted".into(), format!("symbol {name:?}: range {rs:?}..{re:?}, selection {ss:?}..{se:?}")));
    }
    if re > end {
        return Err(("symbol-range-outside-document".into(), format!("symbol {name:?}: range ends at {re:?}, the document ends at {end:?}")));
    }
    for (what, p) in [("range start", rs), ("range end", re), ("selection start", ss), ("selection end", se)] {
        match line_width(text, p.0) {
            Some(w) if p.1 <= w => {}
            other => return Err(("symbol-position-not-in-document".into(), format!("symbol {name:?}: {what} {p:?} is not a position of the document (line width {other:?})"))),
        }
    }
    if ss < rs || se > re {
        return Err(("selection-outside-range".into(), format!("symbol {name:?}: selection {ss:?}..{se:?} not inside range {rs:?}..{re:?}")));
    }
    if let Some((ps, pe)) = parent {
        st.nested += 1;
        if rs < ps || re > pe {
            return Err(("child-outside-parent".into(), format!("symbol {name:?}: range {rs:?}..{re:?} not inside its parent's range {ps:?}..{pe:?}")));
        }
    }
    if let Some(ch) = sym["children"].as_array() {
        for c in ch {
            check_symbol(text, c, Some((rs, re)), end, st)?;
        }
    }
    Ok(())
}

impl Prop for Symbols {
    type Case = TextCase;
    fn name(&self) -> &str {
        "symbols"
    }
    fn generate(&self, c: &mut Choices) -> TextCase {
        let mode = c.weighted(&[5, 2, 2]);
        let mut t = match mode {
            0 => {
                let mut s = String::new();
                let mut counter = 0;
                gen_items(c, 3, &mut s, 0, &mut counter);
                // damage: truncation / stray delimiter, so that error recovery shapes the tree
                match c.below(5) {
                    1 => {
                        let mut cut = c.below(s.len() + 1);
                        while !s.is_char_boundary(cut) {
                            cut -= 1;
                        }
                        s.truncate(cut);
                    }
                    2 => {
                        let mut pos = c.below(s.len() + 1);
                        while !s.is_char_boundary(pos) {
                            pos -= 1;
                        }
                        s.insert_str(pos, c.pick_str(&["}", "{", "(", "😀", "\r", "fn", "mod x {"]));
                    }
                    _ => {}
                }
                let le = c.weighted(&[4, 2, 1, 2]);
                if le != 0 {
                    s = textgen::line_endings(c, &s, le);
                }
                TextCase { family: format!("declarations/{}", textgen::LINE_ENDINGS[le]), text: s }
            }
            1 => textgen::gen_text_case(c),
            _ => {
                let small = textgen::small_corpus(4000);
                let (p, base) = small[c.below(small.len())];
                let le = c.below(4);
                let s = if le != 0 { textgen::line_endings(c, base, le) } else { base.clone() };
                TextCase { family: format!("repo-file:{}/{}", p.display(), textgen::LINE_ENDINGS[le]), text: s }
            }
        };
        if textgen::max_bracket_depth(&t.text) > 64 {
            t.text.clear();
        }
        t
    }
    fn eval(&self, case: &TextCase) -> Outcome {
        let h = hash64(&case.text);
        let mut s = match crate::lspdrive::Session::start("c20-lsp") {
            Ok(s) => s,
            Err(e) => return Outcome { inconclusive: Some(e), hash: h, ..Default::default() },
        };
        let uri = s.open("doc.dora", &case.text);
        let resp = s.request("textDocument/documentSymbol", json!({"textDocument": {"uri": uri}}), std::time::Duration::from_secs(30));
        let panicked = s.panicked();
        let stderr_tail = truncate_str(&s.stderr_text(), 600);
        let out = match (&resp, &panicked) {
            (_, Some(p)) => {
                // signature: innermost repository function in the server's backtrace + message (no line numbers)
                let st = s.stderr_text();
                let func = st
                    .lines()
                    .filter_map(|l| l.trim().split_once(": ").map(|(_, f)| f.trim()))
                    .find(|f| f.starts_with("dora_") || f.starts_with("<dora_"))
                    .unwrap_or("?")
                    .to_string();
                Outcome::fail(h, format!("server-panic@{}:{}", func, normalise_msg(p.split('|').nth(1).unwrap_or(p).trim())), format!("the language server panicked while analysing the document: {p}"))
            }
            (Err(e), None) => Outcome::fail(h, "no-response:documentSymbol", format!("{e:?}; server stderr: {stderr_tail}")),
            (Ok(v), None) => {
                if let Some(err) = v.get("error") {
                    Outcome::fail(h, "error-response:documentSymbol", format!("{err}"))
                } else {
                    let end = doc_end(&case.text);
                    let mut st = SymStats { symbols: 0, nested: 0 };
                    let mut res = Ok(());
                    if let Some(arr) = v["result"].as_array() {
                        for sym in arr {
                            res = check_symbol(&case.text, sym, None, end, &mut st);
                            if res.is_err() {
                                break;
                            }
                        }
                    }
                    match res {
                        Err((k, m)) => Outcome::fail(h, k, m),
                        Ok(()) => Outcome::pass(h, st.nested > 0)
                            .class_if(st.nested > 0, "nested-symbols")
                            .class_if(st.symbols > 0, "has-symbols")
                            .class_if(case.text.chars().any(|c| c.len_utf16() == 2), "astral-characters")
                            .class_if(case.text.contains('\r'), "has-CR")
                            .class(format!("family:{}", case.family.split(|c| c == ':' || c == '/').next().unwrap_or(""))),
                    }
                }
            }
        };
        s.finish();
        out
    }
    fn render(&self, case: &TextCase) -> Value {
        json!({"family": case.family, "text": case.text})
    }
    fn from_rendered(&self, v: &Value) -> Option<TextCase> {
        Some(TextCase { family: v["family"].as_str().unwrap_or("replay").into(), text: v["text"].as_str()?.to_string() })
    }
    fn minimize(&self, case: &TextCase, fails: &dyn Fn(&TextCase) -> bool) -> Option<TextCase> {
        let fam = case.family.clone();
        let t = ddmin_text(&case.text, &|s| fails(&TextCase { family: fam.clone(), text: s.to_string() }), 300);
        Some(TextCase { family: fam, text: t })
    }
}

pub fn run_symbols(ctx: &mut Ctx) {
    let p = Symbols;
    if !crate::lspdrive::exists() {
        ctx.inconclusive.push("symbols: dora-language-server has not been built".into());
        ctx.extra.insert("hard_inconclusive".into(), json!("language server binary missing"));
        return;
    }
    ctx.run_regressions(&p);
    ctx.run_known_reproducers(&p);
    let n = ctx.n(600, 12_000);
    ctx.run_search(&p, n, 200, 60);
    ctx.require_class("symbols/nested-symbols");
    ctx.require_class("symbols/astral-characters");
    ctx.require_class("symbols/has-CR");
}

pub fn exhaustive_small(n: usize) -> Vec<PosCase> {
    let alpha = ["a", "😀", "é", "\n", "\r", "世"];
    let mut out = vec![PosCase { text: TextCase { family: "exhaustive".into(), text: String::new() }, extra: vec![] }];
    let mut frontier = vec![String::new()];
    for _ in 0..n {
        let mut next = vec![];
        for s in &frontier {
            for a in alpha {
                let t = format!("{s}{a}");
                out.push(PosCase { text: TextCase { family: "exhaustive".into(), text: t.clone() }, extra: vec![] });
                next.push(t);
            }
        }
        frontier = next;
    }
    out
}

pub fn run_positions(ctx: &mut Ctx) {
    let p = Positions;
    ctx.run_regressions(&p);
    let depth = if ctx.thorough() { 7 } else { 5 };
    ctx.run_enum(&p, exhaustive_small(depth));
    ctx.extra.insert("exhaustive_alphabet_depth".into(), json!(depth));
    let n = ctx.n(6_000, 150_000);
    ctx.run_search(&p, n, 120, 400);
    if ctx.thorough() || std::env::var("VERIF_FUZZ").is_ok() {
        let runs = ctx.n(200_000, 6_000_000) as u64;
        crate::fuzzsup::run_campaign(ctx, &p, &crate::fuzzsup::Campaign { target: "fuzz_position", decode: crate::fuzzsup::decode_position, runs, max_len: 1024, seeds: crate::fuzzsup::repo_seeds(800, 100, &[1, 2, 3, 4]), timeout: std::time::Duration::from_secs(3000) });
    }
    ctx.require_class("positions/offset-adjacent-to-astral-char");
    ctx.require_class("positions/offset-inside-CRLF");
    ctx.require_class("positions/out-of-range-positions");
}

pub fn main(mode: Mode) -> i32 {
    match mode {
        Mode::Worker(_) | Mode::Minimize(..) => 2,
        Mode::Replay(_, doc) => {
            let mut ctx = Ctx::new("C20", "quick");
            match doc["sub"].as_str() {
                Some("positions") => ctx.replay(&Positions, &doc),
                Some("symbols") => ctx.replay(&Symbols, &doc),
                other => {
                    println!("unknown sub-check {other:?}");
                    2
                }
            }
        }
        Mode::Run(tier) => {
            let mut ctx = Ctx::new("C20", &tier);
            start_watchdog(120, "C20");
            ctx.rule = "positions: every document over the alphabet {a, 😀, é, LF, CR, 世} up to a length bound (exhaustive), plus proptest choice sequences decoded into dense alphabet texts, C06/C16 text families and repo files with rewritten line endings and inserted astral characters; for each text EVERY char-boundary offset is converted to (line, UTF-16 column) and back (must be identical and equal to an independent recomputation), every (line, column) with line <= lines+2, column <= width+3 plus extreme values must map to a char boundary inside the document; compute_line_starts must equal a naive scan. non-trivial = text with an offset adjacent to an astral character or inside a CR LF pair; distinct by text hash. symbols: generated declaration files (functions, structs, classes, enums, traits, impls, nested modules to depth 3, astral characters in comments and strings, LF/CRLF/CR/mixed endings, truncated or with a stray delimiter), C06 text families and repo files are opened in the real dora-language-server over LSP stdio (one server process per document) and textDocument/documentSymbol is requested; every reported range must consist of positions of the document (line exists, UTF-16 column <= line width, by the independent line scan), end inside the document, start <= end, selectionRange inside range, child ranges inside the parent range; a response must arrive and the server must not panic. non-trivial (symbols) = document with at least one nested symbol".into();
            run_positions(&mut ctx);
            run_symbols(&mut ctx);
            ctx.finish()
        }
    }
}
