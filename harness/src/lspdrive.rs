//! lspdrive — speaks LSP over stdio to the real `dora-language-server` binary.
//!
//! One server process per document: initialize, initialized, didOpen (the document is written to a scratch
//! directory first — the server asserts that an opened document exists on disk, as every real client guarantees),
//! requests, shutdown, exit. A panic of the server shows as "panicked at" on its stderr or as a missing response.

use crate::runner::Scratch;
use serde_json::{Value, json};
use std::io::{BufRead, BufReader, Read, Write};
use std::path::{Path, PathBuf};
use std::process::{Child, Command, Stdio};
use std::sync::mpsc::{Receiver, channel};
use std::time::Duration;

pub struct Session {
    child: Child,
    rx: Receiver<Value>,
    stderr: std::sync::Arc<std::sync::Mutex<Vec<u8>>>,
    pub dir: Scratch,
    next_id: i64,
}

#[derive(Debug)]
pub enum LspError {
    /// no response within the limit / server exited
    NoResponse(String),
}

fn frame(v: &Value) -> Vec<u8> {
    let body = serde_json::to_vec(v).unwrap();
    let mut out = format!("Content-Length: {}\r\n\r\n", body.len()).into_bytes();
    out.extend_from_slice(&body);
    out
}

pub fn server_exe() -> PathBuf {
    PathBuf::from(std::env::var("VERIF_DORA_RELEASE").unwrap_or_else(|_| "/verif/.build/target/release".into())).join("dora-language-server")
}

impl Session {
    pub fn start(tag: &str) -> Result<Session, String> {
        let dir = Scratch::new(tag);
        let mut child = Command::new(server_exe())
            .stdin(Stdio::piped())
            .stdout(Stdio::piped())
            .stderr(Stdio::piped())
            .current_dir(&dir.path)
            .spawn()
            .map_err(|e| format!("cannot start dora-language-server: {e}"))?;
        let out = child.stdout.take().unwrap();
        let mut err = child.stderr.take().unwrap();
        let (tx, rx) = channel();
        std::thread::spawn(move || {
            let mut r = BufReader::new(out);
            loop {
                let mut len = 0usize;
                loop {
                    let mut line = String::new();
                    match r.read_line(&mut line) {
                        Ok(0) | Err(_) => return,
                        Ok(_) => {}
                    }
                    let l = line.trim_end();
                    if l.is_empty() {
                        break;
                    }
                    if let Some(v) = l.strip_prefix("Content-Length:") {
                        len = v.trim().parse().unwrap_or(0);
                    }
                }
                let mut buf = vec![0u8; len];
                if r.read_exact(&mut buf).is_err() {
                    return;
                }
                if let Ok(v) = serde_json::from_slice::<Value>(&buf) {
                    if tx.send(v).is_err() {
                        return;
                    }
                }
            }
        });
        let stderr = std::sync::Arc::new(std::sync::Mutex::new(Vec::new()));
        let st2 = stderr.clone();
        std::thread::spawn(move || {
            let mut chunk = [0u8; 8192];
            loop {
                match err.read(&mut chunk) {
                    Ok(0) | Err(_) => return,
                    Ok(n) => {
                        let mut g = st2.lock().unwrap();
                        if g.len() < (1 << 20) {
                            g.extend_from_slice(&chunk[..n]);
                        }
                    }
                }
            }
        });
        let mut s = Session { child, rx, stderr, dir, next_id: 1 };
        let root = format!("file://{}", s.dir.path.display());
        let init = s.request("initialize", json!({"processId": null, "rootUri": root, "capabilities": {}, "workspaceFolders": [{"uri": root, "name": "w"}]}), Duration::from_secs(20));
        if let Err(e) = init {
            return Err(format!("initialize failed: {e:?}; stderr: {}", s.stderr_text()));
        }
        s.notify("initialized", json!({}));
        Ok(s)
    }

    pub fn stderr_text(&self) -> String {
        String::from_utf8_lossy(&self.stderr.lock().unwrap()).into_owned()
    }

    pub fn panicked(&self) -> Option<String> {
        let t = self.stderr_text();
        t.find("panicked at").map(|i| t[i..].lines().take(3).collect::<Vec<_>>().join(" | "))
    }

    fn send(&mut self, v: &Value) {
        if let Some(si) = self.child.stdin.as_mut() {
            let _ = si.write_all(&frame(v));
            let _ = si.flush();
        }
    }

    pub fn notify(&mut self, method: &str, params: Value) {
        self.send(&json!({"jsonrpc": "2.0", "method": method, "params": params}));
    }

    /// Send a request and wait for its response (other messages are skipped).
    pub fn request(&mut self, method: &str, params: Value, limit: Duration) -> Result<Value, LspError> {
        let id = self.next_id;
        self.next_id += 1;
        self.send(&json!({"jsonrpc": "2.0", "id": id, "method": method, "params": params}));
        let t0 = std::time::Instant::now();
        loop {
            let left = limit.checked_sub(t0.elapsed()).unwrap_or(Duration::ZERO);
            match self.rx.recv_timeout(left) {
                Ok(v) => {
                    if v.get("id").and_then(|i| i.as_i64()) == Some(id) && v.get("method").is_none() {
                        return Ok(v);
                    }
                }
                Err(_) => return Err(LspError::NoResponse(format!("no response to {method} within {:?}", limit))),
            }
        }
    }

    /// Write the document to the scratch directory and open it.
    pub fn open(&mut self, name: &str, text: &str) -> String {
        let p = self.dir.file(name);
        let _ = std::fs::write(&p, text);
        let uri = format!("file://{}", p.display());
        self.notify("textDocument/didOpen", json!({"textDocument": {"uri": uri, "languageId": "dora", "version": 1, "text": text}}));
        uri
    }

    pub fn finish(mut self) {
        // the server has no handler for `shutdown`; `exit` ends its event loop
        self.notify("exit", Value::Null);
        drop(self.child.stdin.take());
        let t0 = std::time::Instant::now();
        loop {
            match self.child.try_wait() {
                Ok(Some(_)) => break,
                _ if t0.elapsed() > Duration::from_secs(2) => {
                    let _ = self.child.kill();
                    let _ = self.child.wait();
                    break;
                }
                _ => std::thread::sleep(Duration::from_millis(5)),
            }
        }
    }
}

impl Drop for Session {
    fn drop(&mut self) {
        let _ = self.child.kill();
        let _ = self.child.wait();
    }
}

pub fn exists() -> bool {
    Path::new(&server_exe()).exists()
}
