//! C11 — match exhaustiveness and reachability are decided exactly.

use crate::runner::*;
use crate::vcore::*;
use dora_frontend::sema::{Sema, SemaCreationParams};
use serde_json::{Value, json};
use std::sync::atomic::{AtomicU64, Ordering};
use std::time::Duration;

#[derive(Clone, Debug, PartialEq)]
pub enum MTy {
    Bool,
    Enum(usize),
    Tuple(Vec<MTy>),
    Opt(Box<MTy>),
    Int,
    Char,
    Str,
}

#[derive(Clone, Debug, PartialEq)]
pub enum MVal {
    Bool(bool),
    Enum(usize, usize, Vec<MVal>),
    Tuple(Vec<MVal>),
    Opt(Option<Box<MVal>>),
    Int(i64),
    Char(char),
    Str(String),
}

#[derive(Clone, Debug)]
pub enum MPat {
    Wild,
    Bind,
    LitBool(bool),
    Ctor(usize, usize, Vec<MPat>),
    Tuple(Vec<MPat>),
    Some(Box<MPat>),
    None,
    LitInt(i64),
    LitChar(char),
    LitStr(String),
    Alt(Vec<MPat>),
}

#[derive(Clone, Debug)]
pub struct EnumDef {
    pub variants: Vec<Vec<MTy>>,
}

#[derive(Clone, Debug)]
pub struct Arm {
    pub pat: MPat,
    /// Some(truth) = guarded arm whose guard evaluates to `truth` at run time
    pub guard: Option<bool>,
}

#[derive(Clone, Debug)]
pub struct Matrix {
    pub ty: MTy,
    pub arms: Vec<Arm>,
}

pub struct World {
    pub enums: Vec<EnumDef>,
}

impl World {
    fn finite(&self, t: &MTy) -> bool {
        match t {
            MTy::Int | MTy::Char | MTy::Str => false,
            MTy::Bool => true,
            MTy::Enum(e) => self.enums[*e].variants.iter().all(|ts| ts.iter().all(|t| self.finite(t))),
            MTy::Tuple(ts) => ts.iter().all(|t| self.finite(t)),
            MTy::Opt(t) => self.finite(t),
        }
    }
    /// all values; for infinite leaf types: the literals in `lits` plus one fresh representative
    pub fn values(&self, t: &MTy, lits: &Lits) -> Vec<MVal> {
        self.values_at(t, lits, true)
    }
    /// `top`: the type is the scrutinee itself (not nested in a tuple / constructor / option)
    fn values_at(&self, t: &MTy, lits: &Lits, top: bool) -> Vec<MVal> {
        match t {
            MTy::Bool => vec![MVal::Bool(true), MVal::Bool(false)],
            MTy::Int => {
                let mut v: Vec<i64> = lits.ints.clone();
                v.sort();
                v.dedup();
                let fresh = (0..).map(|k| 1000 + k).find(|k| !v.contains(k)).unwrap();
                // values that alias a literal when a dispatch index is narrowed to 32 or 8 bits, and the extremes
                let lits_only = if top { v.clone() } else { vec![] };
                for l in lits_only {
                    for d in [1i64 << 32, -(1i64 << 32), 3i64 << 32, 256] {
                        let x = l.wrapping_add(d);
                        if !v.contains(&x) {
                            v.push(x);
                        }
                    }
                }
                for x in if top { vec![fresh, i64::MIN, i64::MAX] } else { vec![fresh] } {
                    if !v.contains(&x) {
                        v.push(x);
                    }
                }
                v.into_iter().map(MVal::Int).collect()
            }
            MTy::Char => {
                let mut v = lits.chars.clone();
                v.sort();
                v.dedup();
                v.push('~');
                v.into_iter().map(MVal::Char).collect()
            }
            MTy::Str => {
                let mut v = lits.strs.clone();
                v.sort();
                v.dedup();
                v.push("fresh".into());
                v.into_iter().map(MVal::Str).collect()
            }
            MTy::Enum(e) => {
                let mut out = vec![];
                for (vi, ts) in self.enums[*e].variants.iter().enumerate() {
                    for combo in self.product(ts, lits) {
                        out.push(MVal::Enum(*e, vi, combo));
                    }
                }
                out
            }
            MTy::Tuple(ts) => self.product(ts, lits).into_iter().map(MVal::Tuple).collect(),
            MTy::Opt(t) => {
                let mut out = vec![MVal::Opt(None)];
                for v in self.values_at(t, lits, false) {
                    out.push(MVal::Opt(Some(Box::new(v))));
                }
                out
            }
        }
    }
    fn product(&self, ts: &[MTy], lits: &Lits) -> Vec<Vec<MVal>> {
        let mut out: Vec<Vec<MVal>> = vec![vec![]];
        for t in ts {
            let vs = self.values_at(t, lits, false);
            let mut next = vec![];
            for prefix in &out {
                for v in &vs {
                    let mut p = prefix.clone();
                    p.push(v.clone());
                    next.push(p);
                }
            }
            out = next;
            if out.len() > 4096 {
                out.truncate(4096);
            }
        }
        out
    }
    fn count(&self, t: &MTy) -> usize {
        match t {
            MTy::Bool => 2,
            MTy::Int | MTy::Char | MTy::Str => 4,
            MTy::Enum(e) => self.enums[*e].variants.iter().map(|ts| ts.iter().map(|t| self.count(t)).product::<usize>()).sum(),
            MTy::Tuple(ts) => ts.iter().map(|t| self.count(t)).product(),
            MTy::Opt(t) => 1 + self.count(t),
        }
    }
}

#[derive(Default, Clone)]
pub struct Lits {
    pub ints: Vec<i64>,
    pub chars: Vec<char>,
    pub strs: Vec<String>,
}

fn collect_lits(p: &MPat, l: &mut Lits) {
    match p {
        MPat::LitInt(i) => l.ints.push(*i),
        MPat::LitChar(c) => l.chars.push(*c),
        MPat::LitStr(s) => l.strs.push(s.clone()),
        MPat::Ctor(_, _, ps) | MPat::Tuple(ps) | MPat::Alt(ps) => ps.iter().for_each(|p| collect_lits(p, l)),
        MPat::Some(p) => collect_lits(p, l),
        _ => {}
    }
}

pub fn matches(p: &MPat, v: &MVal) -> bool {
    match (p, v) {
        (MPat::Wild, _) | (MPat::Bind, _) => true,
        (MPat::LitBool(a), MVal::Bool(b)) => a == b,
        (MPat::LitInt(a), MVal::Int(b)) => a == b,
        (MPat::LitChar(a), MVal::Char(b)) => a == b,
        (MPat::LitStr(a), MVal::Str(b)) => a == b,
        (MPat::Ctor(_, vi, ps), MVal::Enum(_, vj, vs)) => vi == vj && ps.iter().zip(vs.iter()).all(|(p, v)| matches(p, v)),
        (MPat::Tuple(ps), MVal::Tuple(vs)) => ps.iter().zip(vs.iter()).all(|(p, v)| matches(p, v)),
        (MPat::Some(p), MVal::Opt(Some(v))) => matches(p, v),
        (MPat::Some(_), MVal::Opt(None)) => false,
        (MPat::None, MVal::Opt(o)) => o.is_none(),
        (MPat::Alt(ps), v) => ps.iter().any(|p| matches(p, v)),
        _ => panic!("matches: ill-typed {p:?} vs {v:?}"),
    }
}

// ---------------- generation ----------------

fn gen_ty(c: &mut Choices, w: &World, depth: usize, max_enum: usize) -> MTy {
    let leaf = depth >= 2;
    match c.weighted(&[4, if max_enum > 0 { 5 } else { 0 }, if leaf { 0 } else { 3 }, if leaf { 0 } else { 2 }, 1, 1, 1]) {
        0 => MTy::Bool,
        1 => MTy::Enum(c.below(max_enum)),
        2 => {
            let n = 2 + c.below(2);
            MTy::Tuple((0..n).map(|_| gen_ty(c, w, depth + 1, max_enum)).collect())
        }
        3 => MTy::Opt(Box::new(gen_ty(c, w, depth + 1, max_enum))),
        4 => MTy::Int,
        5 => MTy::Char,
        _ => MTy::Str,
    }
}

fn gen_pat(c: &mut Choices, w: &World, t: &MTy, depth: usize, allow_bind: bool) -> MPat {
    // alternatives at any depth
    if depth < 3 && c.chance(1, 7) {
        let n = 2 + c.below(2);
        return MPat::Alt((0..n).map(|_| gen_pat(c, w, t, depth + 1, false)).collect());
    }
    if c.chance(1, 4) || depth >= 3 {
        return if allow_bind && c.chance(1, 3) { MPat::Bind } else { MPat::Wild };
    }
    match t {
        MTy::Bool => MPat::LitBool(c.below(2) == 0),
        MTy::Int => MPat::LitInt(*c.pick(&[0i64, 1, 2, -1, 7])),
        MTy::Char => MPat::LitChar(*c.pick(&['a', 'b', 'c'])),
        MTy::Str => MPat::LitStr(c.pick_str(&["x", "y", ""]).to_string()),
        MTy::Enum(e) => {
            let vi = c.below(w.enums[*e].variants.len());
            let ts = w.enums[*e].variants[vi].clone();
            MPat::Ctor(*e, vi, ts.iter().map(|t| gen_pat(c, w, t, depth + 1, allow_bind)).collect())
        }
        MTy::Tuple(ts) => MPat::Tuple(ts.iter().map(|t| gen_pat(c, w, t, depth + 1, allow_bind)).collect()),
        MTy::Opt(t) => {
            if c.chance(1, 3) {
                MPat::None
            } else {
                MPat::Some(Box::new(gen_pat(c, w, t, depth + 1, allow_bind)))
            }
        }
    }
}

pub struct MatchFile {
    pub world: World,
    pub matrices: Vec<Matrix>,
}

pub fn gen_file(c: &mut Choices, nmatrices: usize) -> MatchFile {
    let mut w = World { enums: vec![] };
    let ne = 2 + c.below(3);
    for i in 0..ne {
        let nv = 1 + c.below(3);
        let mut variants = vec![];
        for _ in 0..nv {
            let np = c.weighted(&[3, 3, 1]);
            let mut ts = vec![];
            for _ in 0..np {
                // payloads only mention earlier enums: no recursion, finite
                let t = gen_ty(c, &w, 1, i);
                let t = if matches!(t, MTy::Int | MTy::Char | MTy::Str) && c.chance(2, 3) { MTy::Bool } else { t };
                ts.push(t);
            }
            variants.push(ts);
        }
        w.enums.push(EnumDef { variants });
    }
    let mut matrices = vec![];
    while matrices.len() < nmatrices {
        let ty = gen_ty(c, &w, 0, w.enums.len());
        if w.count(&ty) > 64 {
            // keep the brute-force universe small: fall back to a small type
            matrices.push(gen_matrix(c, &w, MTy::Tuple(vec![MTy::Bool, MTy::Bool])));
            continue;
        }
        matrices.push(gen_matrix(c, &w, ty));
    }
    MatchFile { world: w, matrices }
}

fn gen_matrix(c: &mut Choices, w: &World, ty: MTy) -> Matrix {
    let rows = 1 + c.below(6);
    let mut arms = vec![];
    for _ in 0..rows {
        let pat = gen_pat(c, w, &ty, 0, true);
        let guard = if c.chance(1, 5) { Some(c.below(2) == 0) } else { None };
        arms.push(Arm { pat, guard });
    }
    // half of the matrices get a final catch-all so that exhaustive ones are common
    if c.chance(1, 2) {
        arms.push(Arm { pat: MPat::Wild, guard: None });
    }
    Matrix { ty, arms }
}

// ---------------- printing with spans ----------------

pub struct Printed {
    pub text: String,
    /// per matrix: (function byte range, scrutinee span, per arm: (pattern span, [top-level alternative spans]))
    pub layout: Vec<(std::ops::Range<usize>, Vec<(std::ops::Range<usize>, Vec<std::ops::Range<usize>>)>)>,
}

fn ty_name(t: &MTy) -> String {
    match t {
        MTy::Bool => "Bool".into(),
        MTy::Int => "Int64".into(),
        MTy::Char => "Char".into(),
        MTy::Str => "String".into(),
        MTy::Enum(e) => format!("E{e}"),
        MTy::Tuple(ts) => format!("({})", ts.iter().map(ty_name).collect::<Vec<_>>().join(", ")),
        MTy::Opt(t) => format!("Option[{}]", ty_name(t)),
    }
}

fn print_pat(p: &MPat, out: &mut String, binds: &mut usize, alts: &mut Vec<std::ops::Range<usize>>, top: bool) {
    match p {
        MPat::Wild => out.push('_'),
        MPat::Bind => {
            *binds += 1;
            out.push_str(&format!("b{}", *binds));
        }
        MPat::LitBool(b) => out.push_str(&b.to_string()),
        MPat::LitInt(i) => out.push_str(&i.to_string()),
        MPat::LitChar(ch) => out.push_str(&format!("'{ch}'")),
        MPat::LitStr(s) => out.push_str(&format!("\"{s}\"")),
        MPat::Ctor(e, v, ps) => {
            out.push_str(&format!("E{e}::V{v}"));
            if !ps.is_empty() {
                out.push('(');
                for (i, p) in ps.iter().enumerate() {
                    if i > 0 {
                        out.push_str(", ");
                    }
                    print_pat(p, out, binds, alts, false);
                }
                out.push(')');
            }
        }
        MPat::Tuple(ps) => {
            out.push('(');
            for (i, p) in ps.iter().enumerate() {
                if i > 0 {
                    out.push_str(", ");
                }
                print_pat(p, out, binds, alts, false);
            }
            out.push(')');
        }
        MPat::Some(p) => {
            out.push_str("Some(");
            print_pat(p, out, binds, alts, false);
            out.push(')');
        }
        MPat::None => out.push_str("None"),
        MPat::Alt(ps) => {
            for (i, p) in ps.iter().enumerate() {
                if i > 0 {
                    out.push_str(" | ");
                }
                let s = out.len();
                print_pat(p, out, binds, alts, false);
                if top {
                    alts.push(s..out.len());
                }
            }
        }
    }
}

pub fn print_val(v: &MVal, t: &MTy) -> String {
    match (v, t) {
        (MVal::Bool(b), _) => b.to_string(),
        (MVal::Int(i), _) => {
            if *i < 0 {
                format!("({i})")
            } else {
                i.to_string()
            }
        }
        (MVal::Char(c), _) => format!("'{c}'"),
        (MVal::Str(s), _) => format!("\"{s}\""),
        (MVal::Enum(e, vi, vs), MTy::Enum(_)) => {
            if vs.is_empty() {
                format!("E{e}::V{vi}")
            } else {
                format!("E{e}::V{vi}({})", vs.iter().map(|v| print_val_untyped(v)).collect::<Vec<_>>().join(", "))
            }
        }
        (MVal::Tuple(vs), MTy::Tuple(ts)) => format!("({})", vs.iter().zip(ts.iter()).map(|(v, t)| print_val(v, t)).collect::<Vec<_>>().join(", ")),
        (MVal::Opt(None), MTy::Opt(t)) => format!("None[{}]", ty_name(t)),
        (MVal::Opt(Some(v)), MTy::Opt(t)) => format!("Some[{}]({})", ty_name(t), print_val(v, t)),
        _ => panic!("print_val"),
    }
}

fn print_val_untyped(v: &MVal) -> String {
    // payload values inside enum constructors: Option payloads need their type — payload types are known from the
    // world, but inference accepts `Some(x)` / `None` inside a typed constructor argument
    match v {
        MVal::Opt(None) => "None".into(),
        MVal::Opt(Some(v)) => format!("Some({})", print_val_untyped(v)),
        MVal::Tuple(vs) => format!("({})", vs.iter().map(print_val_untyped).collect::<Vec<_>>().join(", ")),
        MVal::Enum(e, vi, vs) => {
            if vs.is_empty() {
                format!("E{e}::V{vi}")
            } else {
                format!("E{e}::V{vi}({})", vs.iter().map(print_val_untyped).collect::<Vec<_>>().join(", "))
            }
        }
        MVal::Bool(b) => b.to_string(),
        MVal::Int(i) => {
            if *i < 0 {
                format!("({i})")
            } else {
                i.to_string()
            }
        }
        MVal::Char(c) => format!("'{c}'"),
        MVal::Str(s) => format!("\"{s}\""),
    }
}

pub fn print_file(f: &MatchFile, only: Option<&[usize]>, with_main: bool) -> Printed {
    let mut text = String::new();
    for (i, e) in f.world.enums.iter().enumerate() {
        let vs: Vec<String> = e.variants.iter().enumerate().map(|(vi, ts)| if ts.is_empty() { format!("V{vi}") } else { format!("V{vi}({})", ts.iter().map(ty_name).collect::<Vec<_>>().join(", ")) }).collect();
        text.push_str(&format!("enum E{i} {{ {} }}\n", vs.join(", ")));
    }
    text.push_str("fn gd(k: Int64): Bool { k % 2 == 0 }\n");
    let mut layout = vec![];
    for (mi, m) in f.matrices.iter().enumerate() {
        if let Some(only) = only {
            if !only.contains(&mi) {
                layout.push((0..0, vec![]));
                continue;
            }
        }
        let fstart = text.len();
        text.push_str(&format!("fn m{mi}(v: {}): Int64 {{\n    match v {{\n", ty_name(&m.ty)));
        let mut arms = vec![];
        let mut binds = 0usize;
        for (ai, a) in m.arms.iter().enumerate() {
            text.push_str("        ");
            let ps = text.len();
            let mut alts = vec![];
            print_pat(&a.pat, &mut text, &mut binds, &mut alts, true);
            let pe = text.len();
            if let Some(truth) = a.guard {
                // gd(k) is true for even k
                text.push_str(&format!(" if gd({})", if truth { 2 * ai as i64 } else { 2 * ai as i64 + 1 }));
            }
            text.push_str(&format!(" => {ai},\n"));
            arms.push((ps..pe, alts));
        }
        text.push_str("    }\n}\n");
        layout.push((fstart..text.len(), arms));
    }
    if with_main {
        text.push_str("fn main() {\n");
        for (mi, m) in f.matrices.iter().enumerate() {
            if let Some(only) = only {
                if !only.contains(&mi) {
                    continue;
                }
            }
            let mut lits = Lits::default();
            m.arms.iter().for_each(|a| collect_lits(&a.pat, &mut lits));
            for v in f.world.values(&m.ty, &lits) {
                text.push_str(&format!("    println(\"{mi}:${{m{mi}({})}}\");\n", print_val(&v, &m.ty)));
            }
        }
        text.push_str("}\n");
    } else {
        text.push_str("fn main() {}\n");
    }
    Printed { text, layout }
}

// ---------------- oracle ----------------

pub struct Truth {
    pub exhaustive: bool,
    pub useless_arm: Vec<bool>,
    /// per arm, per top-level alternative: may this alternative be reported unreachable?
    pub alt_may_be_useless: Vec<Vec<bool>>,
    pub first_match: Vec<Option<usize>>,
    pub nontrivial: bool,
}

fn has_nested(p: &MPat, depth: usize) -> bool {
    match p {
        MPat::Ctor(_, _, ps) => depth >= 1 || ps.iter().any(|p| has_nested(p, depth + 1)),
        MPat::Tuple(ps) => ps.iter().any(|p| has_nested(p, depth + 1)),
        MPat::Some(p) => has_nested(p, depth + 1),
        MPat::Alt(_) => true,
        _ => false,
    }
}

pub fn truth(w: &World, m: &Matrix) -> Truth {
    let mut lits = Lits::default();
    m.arms.iter().for_each(|a| collect_lits(&a.pat, &mut lits));
    let values = w.values(&m.ty, &lits);
    let covered_before = |i: usize, v: &MVal| m.arms[..i].iter().any(|a| a.guard.is_none() && matches(&a.pat, v));
    let exhaustive = values.iter().all(|v| covered_before(m.arms.len(), v));
    let useless_arm: Vec<bool> = (0..m.arms.len()).map(|i| values.iter().all(|v| !matches(&m.arms[i].pat, v) || covered_before(i, v))).collect();
    let alt_may_be_useless = m
        .arms
        .iter()
        .enumerate()
        .map(|(i, a)| match &a.pat {
            MPat::Alt(ps) => (0..ps.len())
                .map(|k| {
                    // values matched by alternative k and by no EARLIER alternative of the same arm must be covered earlier
                    values.iter().all(|v| !matches(&ps[k], v) || ps[..k].iter().any(|q| matches(q, v)) || covered_before(i, v))
                })
                .collect(),
            _ => vec![],
        })
        .collect();
    let first_match = values.iter().map(|v| m.arms.iter().position(|a| matches(&a.pat, v) && a.guard.unwrap_or(true))).collect();
    let all_wild = m.arms.iter().all(|a| matches!(a.pat, MPat::Wild | MPat::Bind));
    let nontrivial = m.arms.len() >= 2 && !all_wild && m.arms.iter().any(|a| a.guard.is_some() || has_nested(&a.pat, 0));
    Truth { exhaustive, useless_arm, alt_may_be_useless, first_match, nontrivial }
}

pub static MATRICES: AtomicU64 = AtomicU64::new(0);
pub static MATRICES_NONTRIVIAL: AtomicU64 = AtomicU64::new(0);
pub static MATRICES_EXHAUSTIVE: AtomicU64 = AtomicU64::new(0);
pub static ARMS_USELESS: AtomicU64 = AtomicU64::new(0);
pub static RUNTIME_VALUES: AtomicU64 = AtomicU64::new(0);

#[derive(Clone, Debug)]
pub struct FileCase {
    pub seq: Vec<u32>,
    pub nmatrices: usize,
    pub run: bool,
}

pub struct Exhaustiveness {
    pub tools: Tools,
}

fn front_end_diags(text: &str) -> Result<(Vec<(String, u32, u32)>, Vec<(String, u32, u32)>), (String, String)> {
    let t = text.to_string();
    guarded(move || {
        let params = SemaCreationParams::new().set_program_content(t);
        let mut sa = Sema::new(params);
        dora_frontend::check_program(&mut sa);
        let d = sa.diag.borrow();
        let conv = |v: &[dora_frontend::ErrorDescriptor]| v.iter().filter(|e| e.file_id.map(|f| sa.file(f).package_id == sa.program_package_id()).unwrap_or(true)).map(|e| (e.desc.message.to_string(), e.span.map(|s| s.start()).unwrap_or(0), e.span.map(|s| s.end()).unwrap_or(0))).collect::<Vec<_>>();
        (conv(d.errors()), conv(d.warnings()))
    })
    .map_err(|p| (format!("internal-error:{}", p.key()), format!("front end panicked: {} at {}", p.message, p.location)))
}

impl Prop for Exhaustiveness {
    type Case = FileCase;
    fn name(&self) -> &str {
        "matrices"
    }
    fn generate(&self, c: &mut Choices) -> FileCase {
        // the file is regenerated from the remaining choices in eval (keeps Case small and replayable)
        let run = c.chance(1, 12);
        let mut seq = vec![];
        for _ in 0..1400 {
            seq.push(c.raw());
        }
        FileCase { seq, nmatrices: 24, run }
    }
    fn eval(&self, case: &FileCase) -> Outcome {
        let h = hash64(&case.seq);
        let mut ch = Choices::new(&case.seq);
        let file = gen_file(&mut ch, case.nmatrices);
        let printed = print_file(&file, None, false);
        let (errors, warnings) = match front_end_diags(&printed.text) {
            Ok(x) => x,
            Err((k, m)) => return Outcome::fail(h, k, format!("{m}\n{}", printed.text)),
        };
        // any other error would switch the exhaustiveness pass off: generator bug, not a violation
        if let Some(e) = errors.iter().find(|e| !e.0.starts_with("`match` does not cover")) {
            return Outcome { inconclusive: Some(format!("generated file has an unrelated error: {} at {}", e.0, e.1)), hash: h, ..Default::default() };
        }
        let mut nontrivial = 0;
        let mut accepted: Vec<usize> = vec![];
        let truths: Vec<Truth> = file.matrices.iter().map(|m| truth(&file.world, m)).collect();
        for (mi, (m, t)) in file.matrices.iter().zip(truths.iter()).enumerate() {
            MATRICES.fetch_add(1, Ordering::Relaxed);
            if t.nontrivial {
                nontrivial += 1;
                MATRICES_NONTRIVIAL.fetch_add(1, Ordering::Relaxed);
            }
            let (frange, arms) = &printed.layout[mi];
            let reported_nonexh = errors.iter().any(|e| (e.1 as usize) >= frange.start && (e.2 as usize) <= frange.end);
            let show = || &printed.text[frange.clone()];
            if reported_nonexh == t.exhaustive {
                return Outcome::fail(
                    h,
                    if t.exhaustive { "exhaustive-match-rejected" } else { "non-exhaustive-match-accepted" },
                    format!("brute force over all values says exhaustive={}, the compiler {} it:\n{}\nenums: {:?}", t.exhaustive, if reported_nonexh { "rejects" } else { "accepts" }, show(), file.world.enums),
                );
            }
            if t.exhaustive {
                accepted.push(mi);
                MATRICES_EXHAUSTIVE.fetch_add(1, Ordering::Relaxed);
            }
            let unreachable: Vec<(usize, usize)> = warnings.iter().filter(|w| w.0 == "unreachable pattern." && (w.1 as usize) >= frange.start && (w.2 as usize) <= frange.end).map(|w| (w.1 as usize, w.2 as usize)).collect();
            for (ai, (prange, alts)) in arms.iter().enumerate() {
                let whole = unreachable.iter().any(|(s, e)| *s == prange.start && *e == prange.end);
                let all_alts = !alts.is_empty() && alts.iter().all(|a| unreachable.iter().any(|(s, e)| *s <= a.start && *e >= a.end));
                let reported = whole || all_alts;
                if t.useless_arm[ai] {
                    ARMS_USELESS.fetch_add(1, Ordering::Relaxed);
                }
                if reported != t.useless_arm[ai] {
                    return Outcome::fail(
                        h,
                        if reported { "reachable-arm-reported-unreachable" } else { "unreachable-arm-not-reported" },
                        format!("arm #{ai}: brute force says unreachable={}, compiler reported={}\n{}\nenums: {:?}\nreported spans (relative to fn): {:?}", t.useless_arm[ai], reported, show(), file.world.enums, unreachable.iter().map(|(s, e)| (s - frange.start, e - frange.start)).collect::<Vec<_>>()),
                    );
                }
                // sub-alternative warnings must be sound
                for (k, a) in alts.iter().enumerate() {
                    let rep = unreachable.iter().any(|(s, e)| *s == a.start && *e == a.end);
                    if rep && !t.alt_may_be_useless[ai].get(k).copied().unwrap_or(true) {
                        return Outcome::fail(h, "reachable-alternative-reported-unreachable", format!("arm #{ai}, alternative #{k} is reported unreachable but matches a value nothing earlier covers\n{}\nenums: {:?}", show(), file.world.enums));
                    }
                }
            }
            // every unreachable-pattern warning must lie inside some arm pattern of this match
            for (s, e) in &unreachable {
                if !arms.iter().any(|(p, _)| *s >= p.start && *e <= p.end) {
                    return Outcome::fail(h, "warning-span-outside-arm", format!("unreachable-pattern warning at {s}..{e} is not inside an arm pattern\n{}", show()));
                }
            }
            let _ = m;
        }
        let mut o = Outcome::pass(h, nontrivial >= 5).class_if(!accepted.is_empty(), "has-exhaustive").class_if(accepted.len() < file.matrices.len(), "has-non-exhaustive").class_if(truths.iter().any(|t| t.useless_arm.iter().any(|u| *u)), "has-unreachable-arm");
        // run-time arm selection for the accepted matches, both generators
        if case.run && !accepted.is_empty() {
            let prog = print_file(&file, Some(&accepted), true);
            let mut expected = String::new();
            for &mi in &accepted {
                for fm in &truths[mi].first_match {
                    match fm {
                        Some(a) => expected.push_str(&format!("{mi}:{a}\n")),
                        None => return Outcome { inconclusive: Some("exhaustive match without first match: every covering arm guarded-false?".into()), hash: h, ..Default::default() },
                    }
                    RUNTIME_VALUES.fetch_add(1, Ordering::Relaxed);
                }
            }
            let scratch = Scratch::new("c11");
            let src = scratch.file("prog.dora");
            std::fs::write(&src, &prog.text).unwrap();
            for b in Backend::BOTH {
                let exe = scratch.file(&format!("prog-{}", b.name()));
                let cr = compile(&self.tools, &src, &exe, b, &CompileOpts::default(), Duration::from_secs(240));
                if cr.timed_out {
                    return Outcome { inconclusive: Some("compile timed out".into()), hash: h, ..Default::default() };
                }
                if !cr.ok() {
                    let err = cr.stderr_str();
                    return Outcome::fail(h, format!("compile-failed:{}:{}", b.name(), crate::c01::compile_failure_signature(&err)), format!("{} generator failed on accepted matches\n{}", b.name(), truncate_str(&crate::c01::strip_warnings(&err), 1500)));
                }
                let rr = run_exe(&exe, "", Duration::from_secs(60), &scratch.path);
                if rr.timed_out {
                    return Outcome { inconclusive: Some("run timed out".into()), hash: h, ..Default::default() };
                }
                let out = rr.stdout_str();
                if classify(&rr) != Ending::Exit(0) || out != expected {
                    let la: Vec<&str> = out.lines().collect();
                    let lb: Vec<&str> = expected.lines().collect();
                    let i = la.iter().zip(lb.iter()).position(|(x, y)| x != y).unwrap_or(la.len().min(lb.len()));
                    return Outcome::fail(h, format!("wrong-arm-selected:{}", b.name()), format!("{} generator: ending {:?}; first differing line {}: program printed {:?}, first matching arm is {:?} (format match#:arm#)\nstderr: {}", b.name(), classify(&rr), i + 1, la.get(i), lb.get(i), truncate_str(&rr.stderr_str(), 300)));
                }
            }
            o = o.class("executed-on-both-generators");
        }
        o
    }
    fn render(&self, case: &FileCase) -> Value {
        let mut ch = Choices::new(&case.seq);
        let file = gen_file(&mut ch, case.nmatrices);
        let printed = print_file(&file, None, false);
        json!({"seq": case.seq, "nmatrices": case.nmatrices, "run": case.run, "source": printed.text})
    }
    fn from_rendered(&self, v: &Value) -> Option<FileCase> {
        Some(FileCase { seq: v["seq"].as_array()?.iter().map(|x| x.as_u64().unwrap_or(0) as u32).collect(), nmatrices: v["nmatrices"].as_u64().unwrap_or(24) as usize, run: v["run"].as_bool().unwrap_or(false) })
    }
    fn minimize(&self, case: &FileCase, fails: &dyn Fn(&FileCase) -> bool) -> Option<FileCase> {
        // fewer matrices per file while it still fails
        let mut best = case.clone();
        for n in [1usize, 2, 4, 8, 12] {
            let cnd = FileCase { seq: case.seq.clone(), nmatrices: n, run: case.run };
            if fails(&cnd) {
                best = cnd;
                break;
            }
        }
        Some(best)
    }
}

pub fn main(mode: Mode) -> i32 {
    let p = Exhaustiveness { tools: Tools::release() };
    let iso = crate::isolate::IsolatedProp { inner: &p, pool: crate::isolate::Pool::new("C11", "matrices", 600), crash_key: Box::new(|_c: &FileCase, _s, stderr: &str| format!("crash:{}", if stderr.contains("overflowed its stack") { "stack-overflow" } else { "abort" })) };
    match mode {
        Mode::Worker(_) => crate::isolate::worker_loop(&p),
        Mode::Minimize(_, doc) => {
            let mut ctx = Ctx::new("C11", "quick");
            ctx.minimize_stored(&p, &doc, 200)
        }
        Mode::Replay(_, doc) => {
            let mut ctx = Ctx::new("C11", "quick");
            ctx.replay(&iso, &doc)
        }
        Mode::Run(tier) => {
            let mut ctx = Ctx::new("C11", &tier);
            if !p.tools.has_boots() {
                println!("INCONCLUSIVE property=C11 the optimizing compiler could not be bootstrapped from this tree");
                return 2;
            }
            ctx.rule = "cases: generated source files with 24 match expressions each over scrutinee types built from Bool, 2-4 generated enums (1-3 variants, payloads from the family), tuples (2-3), Option, nesting depth <= 3, at most 64 values; Int64/Char/String scrutinees with literal patterns; pattern matrices with 1-7 rows of wildcards, bindings, literals, constructors, tuples, Some/None, alternatives at any depth and guards with a generator-known truth value. oracle (brute force over ALL values of the type; for literal types: all literals used plus one fresh value): the match is rejected as non-exhaustive exactly when some value is matched by no unguarded arm; an arm is reported unreachable (whole pattern, or all of its alternatives) exactly when every value it matches is matched by an earlier unguarded arm; a reported sub-alternative must be covered likewise; warnings lie inside arm patterns; for a sample of files the accepted matches are executed on every value with both code generators and must select the first arm whose pattern and guard hold. non-trivial = file with >= 5 matrices that have >= 2 rows, are not all-wildcard and contain a nested constructor, an alternative or a guard; matrices are counted separately under coverage.matrices".into();
            ctx.assumptions = vec!["diagnostics are mapped to matches/arms by byte span (the generator knows every span)".into()];
            ctx.run_regressions(&iso);
            let n = ctx.n(700, 15000);
            ctx.run_search(&p, n, 1500, 30);
            ctx.extra.insert("matrices".into(), json!({"total": MATRICES.load(Ordering::Relaxed), "nontrivial": MATRICES_NONTRIVIAL.load(Ordering::Relaxed), "exhaustive": MATRICES_EXHAUSTIVE.load(Ordering::Relaxed), "unreachable_arms": ARMS_USELESS.load(Ordering::Relaxed), "values_executed_at_run_time": RUNTIME_VALUES.load(Ordering::Relaxed)}));
            ctx.require_class("matrices/has-exhaustive");
            ctx.require_class("matrices/has-non-exhaustive");
            ctx.require_class("matrices/has-unreachable-arm");
            ctx.require_class("matrices/executed-on-both-generators");
            ctx.finish()
        }
    }
}
