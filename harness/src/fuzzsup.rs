//! Coverage-guided campaigns (libFuzzer through cargo-fuzz) for the in-process properties.
//!
//! The fuzz targets in /verif/fuzz call `fuzz_one` with the *same* `Prop` the property-based search uses:
//! bytes are decoded into the rendered form of a case (`decode_*`), rebuilt with `Prop::from_rendered` and
//! judged by `Prop::eval`. A failure that is not an open known finding aborts the process, so libFuzzer stores
//! the input. `run_campaign` (thorough tier of the owning check) builds the target, seeds a fresh corpus from
//! repository files, runs 16 independent fuzzer processes with seeds derived from VERIF_SEED and a fixed number of
//! runs, and re-judges every artifact through the normal path (`Ctx::report_failure`), which turns it into a
//! replay file and a VIOLATION line — or into a KNOWN-FINDING count.

use crate::runner::{Scratch, run_cmd};
use crate::vcore::*;
use serde_json::{Value, json};
use std::path::{Path, PathBuf};
use std::process::Command;
use std::sync::OnceLock;
use std::time::Duration;

pub const MAX_TEXT: usize = 64 << 10;
pub const WIDTHS: &[u32] = &[90, 1, 2, 10, 40, 79, 80, 120, 10_000];

/// bytes -> text inside the stated bounds (<= 64 KiB, bracket nesting <= 64)
pub fn text_of(bytes: &[u8]) -> String {
    let mut t = String::from_utf8_lossy(&bytes[..bytes.len().min(MAX_TEXT)]).into_owned();
    while t.len() > MAX_TEXT {
        t.pop();
    }
    if crate::textgen::max_bracket_depth(&t) > 64 {
        t.clear();
    }
    t
}

pub fn decode_text(bytes: &[u8]) -> Value {
    json!({"family": "libfuzzer", "text": text_of(bytes)})
}

/// like `decode_text`; the one construct that makes the front end recurse without bound (open known finding,
/// super-trait cycle) is excluded by construction because it kills the fuzzing process itself
pub fn decode_text_sema(bytes: &[u8]) -> Value {
    let mut t = text_of(bytes);
    if crate::c06::has_super_trait_cycle(&t) {
        t.clear();
    }
    json!({"family": "libfuzzer", "text": t})
}

pub fn decode_format(bytes: &[u8]) -> Value {
    let (w, rest) = match bytes.split_first() {
        Some((b, r)) => (WIDTHS[*b as usize * WIDTHS.len() >> 8], r),
        None => (90, bytes),
    };
    json!({"family": "libfuzzer", "text": text_of(rest), "width": w})
}

pub fn decode_position(bytes: &[u8]) -> Value {
    // 4 bytes = two (line, column) pairs that are tried in addition to the systematic ones
    let (head, rest) = bytes.split_at(bytes.len().min(4));
    let mut extra = vec![];
    for p in head.chunks(2) {
        if p.len() == 2 {
            extra.push(json!([p[0] as u32, p[1] as u32 * 3]));
        }
    }
    let mut t = text_of(rest);
    // every offset x every position is quadratic: keep documents small
    while t.len() > 2048 {
        t.pop();
    }
    json!({"family": "libfuzzer", "text": t, "extra_positions": extra})
}

static KNOWN: OnceLock<Vec<KnownFinding>> = OnceLock::new();

pub fn is_known_open(property: &str, key: &str) -> bool {
    KNOWN.get_or_init(load_known_findings).iter().any(|k| {
        k.property == property && k.status == "open" && !k.only_reproducer && (k.key == key || k.key.strip_suffix('*').map(|p| key.starts_with(p)).unwrap_or(false))
    })
}

/// Body of every fuzz target.
pub fn fuzz_one<P: Prop>(prop: &P, property: &str, rendered: Value) {
    static HOOK: std::sync::Once = std::sync::Once::new();
    // libfuzzer-sys installs a panic hook that aborts; the oracles rely on catch_unwind, so ours replaces it
    HOOK.call_once(install_panic_hook);
    let Some(case) = prop.from_rendered(&rendered) else { return };
    let o = eval_guarded(prop, &case);
    if let Some(f) = &o.fail {
        if is_known_open(property, &f.key) {
            return;
        }
        eprintln!("FUZZ-FAILURE property={property} key={}\n{}", f.key, first_lines(&f.msg, 20));
        std::process::abort();
    }
}

pub struct Campaign<'a> {
    pub target: &'a str,
    pub decode: fn(&[u8]) -> Value,
    /// total number of executions over all fuzzer processes
    pub runs: u64,
    pub max_len: usize,
    pub seeds: Vec<Vec<u8>>,
    /// wall-clock guard per fuzzer process (hit => inconclusive, never a violation)
    pub timeout: Duration,
}

fn build_target(target: &str) -> Result<PathBuf, String> {
    let tdir = "/verif/.build/fuzz-target";
    let mut cmd = Command::new("cargo");
    cmd.args(["+nightly", "fuzz", "build", "-s", "none", "--fuzz-dir", "/verif/fuzz", "--target-dir", tdir, target]);
    cmd.env("CARGO_NET_OFFLINE", "true").env("RUSTFLAGS", "--cfg dinfuehr_dora_verif").current_dir("/verif/fuzz");
    let r = run_cmd(cmd, Duration::from_secs(3600));
    let exe = Path::new(tdir).join("x86_64-unknown-linux-gnu/release").join(target);
    if r.ok() && exe.exists() { Ok(exe) } else { Err(format!("cargo fuzz build {target} failed: {}", truncate_str(&r.stderr_str(), 1500))) }
}

/// Run a campaign and fold its outcome into the context under sub-check name `<prop name>-libfuzzer`.
pub fn run_campaign<P: Prop>(ctx: &mut Ctx, prop: &P, c: &Campaign) {
    let sub = format!("{}-libfuzzer", prop.name());
    let exe = match build_target(c.target) {
        Ok(e) => e,
        Err(e) => {
            ctx.inconclusive.push(format!("{sub}: {e}"));
            ctx.extra.insert("hard_inconclusive".into(), json!(format!("fuzz target {} could not be built", c.target)));
            return;
        }
    };
    let scratch = Scratch::new(&format!("fuzz-{}", c.target));
    let workers = 16u64;
    let per = (c.runs / workers).max(1);
    let t0 = std::time::Instant::now();
    let results: Vec<(u64, u64, u64, Vec<Vec<u8>>, Option<String>)> = std::thread::scope(|s| {
        let hs: Vec<_> = (0..workers)
            .map(|w| {
                let exe = exe.clone();
                let root = scratch.path.clone();
                let seeds = &c.seeds;
                let seed0 = ctx.seed.wrapping_mul(1000).wrapping_add(w);
                let (max_len, timeout) = (c.max_len, c.timeout);
                s.spawn(move || {
                    let corpus = root.join(format!("corpus-{w}"));
                    let arts = root.join(format!("artifacts-{w}"));
                    let _ = std::fs::create_dir_all(&corpus);
                    let _ = std::fs::create_dir_all(&arts);
                    for (i, sd) in seeds.iter().enumerate() {
                        let _ = std::fs::write(corpus.join(format!("seed-{i:05}")), sd);
                    }
                    let (mut execs, mut cov, mut ft) = (0u64, 0u64, 0u64);
                    let mut note = None;
                    let mut remaining = per;
                    let mut restarts = 0u64;
                    while remaining > 0 && restarts < 4 {
                        let mut cmd = Command::new(&exe);
                        cmd.arg(&corpus)
                            .arg(format!("-runs={remaining}"))
                            .arg(format!("-seed={}", (seed0 + restarts * 100) % 4_000_000_000 + 1))
                            .arg(format!("-max_len={max_len}"))
                            .arg("-len_control=0")
                            .arg("-rss_limit_mb=4096")
                            .arg("-timeout=60")
                            .arg("-print_final_stats=1")
                            .arg(format!("-artifact_prefix={}/", arts.display()))
                            .current_dir(&root);
                        let r = run_cmd(cmd, timeout);
                        let err = r.stderr_str();
                        let mut done = 0u64;
                        for l in err.lines() {
                            if let Some(v) = l.strip_prefix("stat::number_of_executed_units:") {
                                done = v.trim().parse().unwrap_or(0);
                            }
                            if l.starts_with('#') && l.contains(" cov: ") {
                                let f: Vec<&str> = l.split_whitespace().collect();
                                if let Some(i) = f.iter().position(|x| *x == "cov:") {
                                    cov = cov.max(f.get(i + 1).and_then(|x| x.parse().ok()).unwrap_or(0));
                                }
                                if let Some(i) = f.iter().position(|x| *x == "ft:") {
                                    ft = ft.max(f.get(i + 1).and_then(|x| x.parse().ok()).unwrap_or(0));
                                }
                            }
                        }
                        execs += done;
                        if r.timed_out {
                            note = Some("fuzzer process hit the wall-clock guard".to_string());
                            break;
                        }
                        if r.status == Some(0) {
                            break;
                        }
                        // crashed (artifact written) or died otherwise: continue with what is left
                        remaining = remaining.saturating_sub(done.max(1));
                        restarts += 1;
                        if done == 0 && restarts >= 2 {
                            note = Some(format!("fuzzer process dies at start-up: {}", truncate_str(&err, 600)));
                            break;
                        }
                    }
                    let mut artifacts = vec![];
                    if let Ok(rd) = std::fs::read_dir(&arts) {
                        let mut ps: Vec<PathBuf> = rd.filter_map(|e| e.ok()).map(|e| e.path()).collect();
                        ps.sort();
                        for p in ps {
                            if let Ok(b) = std::fs::read(&p) {
                                artifacts.push(b);
                            }
                        }
                    }
                    (execs, cov, ft, artifacts, note)
                })
            })
            .collect();
        hs.into_iter().map(|h| h.join().unwrap()).collect()
    });
    let execs: u64 = results.iter().map(|r| r.0).sum();
    let cov = results.iter().map(|r| r.1).max().unwrap_or(0);
    let ft = results.iter().map(|r| r.2).max().unwrap_or(0);
    let mut artifacts: Vec<Vec<u8>> = results.iter().flat_map(|r| r.3.iter().cloned()).collect();
    artifacts.sort();
    artifacts.dedup();
    for r in &results {
        if let Some(n) = &r.4 {
            ctx.inconclusive.push(format!("{sub}: {n}"));
        }
    }
    // executions inside the fuzzer are judged by the same oracle; count them
    ctx.evaluations += execs;
    *ctx.classes.entry(format!("{sub}/executions")).or_insert(0) += execs;
    let mut unreproduced = 0;
    for a in &artifacts {
        let rendered = (c.decode)(a);
        let Some(case) = prop.from_rendered(&rendered) else { continue };
        let o = eval_guarded(prop, &case);
        match &o.fail {
            Some(f) => {
                ctx.report_failure(&sub, f, || json!({"rendered": prop.render(&case), "from": "libFuzzer artifact", "target": c.target}));
            }
            None => unreproduced += 1,
        }
    }
    if unreproduced > 0 {
        ctx.inconclusive.push(format!("{sub}: {unreproduced} fuzzer artifact(s) did not fail when re-judged in-process (time-out, memory limit or process-level crash)"));
    }
    ctx.sub_stats.insert(
        sub.clone(),
        json!({"mode": "libFuzzer (cargo-fuzz, sanitizer none), 16 processes, fresh corpus seeded from repository files", "target": c.target, "runs_requested": c.runs,
               "executions": execs, "seed_inputs": c.seeds.len(), "max_len": c.max_len, "edge_coverage_max": cov, "features_max": ft, "artifacts": artifacts.len(),
               "artifacts_not_reproduced_in_process": unreproduced, "wall_s": t0.elapsed().as_secs_f64()}),
    );
}

/// Seed inputs: small repository files (optionally prefixed, e.g. with a width byte).
pub fn repo_seeds(max_size: usize, max_files: usize, prefix: &[u8]) -> Vec<Vec<u8>> {
    let mut out: Vec<Vec<u8>> = vec![prefix.to_vec()];
    for (_, text) in crate::textgen::small_corpus(max_size).into_iter().take(max_files) {
        let mut v = prefix.to_vec();
        v.extend_from_slice(text.as_bytes());
        out.push(v);
    }
    out
}
