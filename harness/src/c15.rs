//! C15 — builds are reproducible and the compiler reproduces itself.

use crate::runner::*;
use crate::vcore::*;
use serde_json::{Value, json};
use std::time::Duration;

#[derive(Clone, Debug)]
pub struct BuildCase {
    pub label: String,
    pub source: String,
    pub gc: Option<String>,
    pub builds: usize,
}

pub struct Repro {
    pub tools: Tools,
}

fn sha(path: &std::path::Path) -> Option<String> {
    let data = std::fs::read(path).ok()?;
    Some(format!("{:016x}{:016x}-{}", hash64(&data), hash64(&(data.len(), &data[..data.len().min(4096)])), data.len()))
}

fn count_instantiations(asm: &str) -> (usize, usize) {
    // monomorphised instantiations carry '[' (mangled _5B) in their symbol, thunks " as " / "for"
    let inst = asm.lines().filter(|l| l.starts_with("dora_") && l.ends_with(':') && l.contains("_5B")).count();
    let thunks = asm.lines().filter(|l| l.starts_with("dora_") && l.ends_with(':') && l.contains("_20as_20")).count();
    (inst, thunks)
}

impl Prop for Repro {
    type Case = BuildCase;
    fn name(&self) -> &str {
        "rebuild"
    }
    fn generate(&self, c: &mut Choices) -> BuildCase {
        let gc = if c.chance(1, 3) { Some(c.pick_str(&["copy", "sweep", "zero", "swiper"]).to_string()) } else { None };
        if c.chance(1, 3) {
            // order-sensitive lowering: matches over integer-like scrutinees with guarded arms on several distinct
            // values, guarded wildcards before literal arms, alternatives, simple enums, strings
            let mut src = String::from("enum Colour { Red, Green, Blue, Cyan, Magenta, Yellow, Black, White }\n");
            let nf = 2 + c.below(5);
            let mut calls = String::new();
            for f in 0..nf {
                let kind = c.below(5);
                let (ty, lits): (&str, Vec<String>) = match kind {
                    0 => ("Int32", (0..12).map(|i| format!("{}i32", i * 3 - 5)).collect()),
                    1 => ("Int64", (0..12).map(|i| format!("{}", i * 1_000_003 - 7)).collect()),
                    2 => ("UInt8", (0..12).map(|i| format!("{}u8", i * 20)).collect()),
                    3 => ("Colour", ["Red", "Green", "Blue", "Cyan", "Magenta", "Yellow", "Black", "White"].iter().map(|v| format!("Colour::{v}")).collect()),
                    _ => ("Char", (0..12).map(|i| format!("'{}'", (b'a' + i as u8) as char)).collect()),
                };
                let res = |k: usize| format!("{}i32", f * 100 + k);
                src.push_str(&format!("fn m{f}(x: {ty}, a: Bool, b: Bool): Int32 {{\n    match x {{\n"));
                let narms = 2 + c.below(9);
                for k in 0..narms {
                    let lit = &lits[c.below(lits.len())];
                    match c.weighted(&[5, 3, 2, 1]) {
                        0 => src.push_str(&format!("        {lit} if {} => {},\n", c.pick_str(&["a", "b", "a && b", "a || b"]), res(k))),
                        1 => src.push_str(&format!("        {lit} => {},\n", res(k))),
                        2 => src.push_str(&format!("        {lit} | {} => {},\n", lits[c.below(lits.len())], res(k))),
                        _ => src.push_str(&format!("        _ if {} => {},\n", c.pick_str(&["a", "b"]), res(k))),
                    }
                }
                src.push_str(&format!("        _ => {},\n    }}\n}}\n", res(99)));
                for l in lits.iter().take(4) {
                    calls.push_str(&format!("    println(\"${{m{f}({l}, true, false)}} ${{m{f}({l}, false, true)}}\");\n"));
                }
            }
            src.push_str(&format!("fn main() {{\n{calls}}}\n"));
            return BuildCase { label: "generated-guarded-match".into(), source: src, gc, builds: 4 };
        }
        if c.chance(1, 2) {
            let p = crate::progen::pgen::generate(c, crate::progen::pgen::Profile::Core);
            BuildCase { label: "generated".into(), source: crate::progen::ir::print_program(&p), gc, builds: 3 }
        } else {
            static CORPUS: std::sync::OnceLock<Vec<crate::c02::DiffCase>> = std::sync::OnceLock::new();
            let all = CORPUS.get_or_init(|| crate::c02::corpus_cases(false).0.into_iter().filter(|c| c.expect_status.is_none() || true).collect());
            let base = &all[c.below(all.len())];
            BuildCase { label: base.label.clone(), source: base.source.clone(), gc, builds: 3 }
        }
    }
    fn eval(&self, case: &BuildCase) -> Outcome {
        let h = hash64(&(&case.source, &case.gc));
        let scratch = Scratch::new("c15");
        let src = scratch.file("prog.dora");
        std::fs::write(&src, &case.source).unwrap();
        // build k times concurrently, each from its own working directory / output directory with different neighbours
        let k = case.builds;
        let tools = &self.tools;
        let results: Vec<Result<Vec<(String, String)>, String>> = std::thread::scope(|s| {
            let handles: Vec<_> = (0..k)
                .map(|i| {
                    let scratch = &scratch;
                    let src = &src;
                    let gc = case.gc.clone();
                    s.spawn(move || -> Result<Vec<(String, String)>, String> {
                        let wd = scratch.path.join(format!("wd{i}/nested{}", "x".repeat(i)));
                        let od = scratch.path.join(format!("out{i}"));
                        std::fs::create_dir_all(&wd).unwrap();
                        std::fs::create_dir_all(&od).unwrap();
                        for n in 0..i {
                            std::fs::write(od.join(format!("neighbour{n}.txt")), format!("{n}")).unwrap();
                        }
                        let run = |args: Vec<String>| {
                            let mut cmd = std::process::Command::new(tools.dora());
                            cmd.arg("compile").args(&args).current_dir(&wd).env_remove("DORA_FLAGS").env("TMPDIR", &od);
                            run_cmd(cmd, Duration::from_secs(240))
                        };
                        let mut out = vec![];
                        let gcarg: Vec<String> = gc.iter().map(|g| format!("--gc={g}")).collect();
                        // package
                        let pkg = od.join("p.dora-package");
                        let r = run(vec![src.display().to_string(), "-c".into(), "-o".into(), pkg.display().to_string()]);
                        if !r.ok() {
                            return Err(format!("front-end:{}", crate::c01::compile_failure_signature(&r.stderr_str())));
                        }
                        out.push(("package".to_string(), sha(&pkg).ok_or("no package")?));
                        for b in Backend::BOTH {
                            let base = od.join(format!("a-{}", b.name()));
                            let mut a = vec![src.display().to_string(), "-S".into(), "-o".into(), base.display().to_string()];
                            if b == Backend::Cannon {
                                a.push("--cannon".into());
                            }
                            a.extend(gcarg.clone());
                            let r = run(a);
                            if !r.ok() {
                                return Err(format!("asm-{}:{}", b.name(), crate::c01::compile_failure_signature(&r.stderr_str())));
                            }
                            let asm = base.with_extension("s");
                            out.push((format!("assembly-{}", b.name()), sha(&asm).ok_or("no asm")?));
                            if i == 0 && b == Backend::Cannon {
                                let text = std::fs::read_to_string(&asm).unwrap_or_default();
                                let (inst, thunks) = count_instantiations(&text);
                                out.push(("meta".into(), format!("{inst}:{thunks}")));
                            }
                            let exe = od.join(format!("e-{}", b.name()));
                            let mut a = vec![src.display().to_string(), "-o".into(), exe.display().to_string()];
                            if b == Backend::Cannon {
                                a.push("--cannon".into());
                            }
                            a.extend(gcarg.clone());
                            let r = run(a);
                            if !r.ok() {
                                return Err(format!("link-{}:{}", b.name(), crate::c01::compile_failure_signature(&r.stderr_str())));
                            }
                            out.push((format!("executable-{}", b.name()), sha(&exe).ok_or("no exe")?));
                        }
                        Ok(out)
                    })
                })
                .collect();
            handles.into_iter().map(|h| h.join().unwrap()).collect()
        });
        let mut first: Option<Vec<(String, String)>> = None;
        let mut meta = (0usize, 0usize);
        for (i, r) in results.into_iter().enumerate() {
            match r {
                Err(e) => {
                    if e.starts_with("front-end:error") {
                        return Outcome::pass(h, false).class("rejected-by-front-end(skipped)");
                    }
                    return Outcome { inconclusive: Some(format!("build {i} failed: {e}")), hash: h, ..Default::default() };
                }
                Ok(mut v) => {
                    if let Some(pos) = v.iter().position(|(k, _)| k == "meta") {
                        let m = v.remove(pos).1;
                        let mut it = m.split(':').map(|x| x.parse::<usize>().unwrap_or(0));
                        meta = (it.next().unwrap_or(0), it.next().unwrap_or(0));
                    }
                    match &first {
                        None => first = Some(v),
                        Some(f) => {
                            for ((ka, a), (_, b)) in f.iter().zip(v.iter()) {
                                if a != b {
                                    return Outcome::fail(h, format!("not-reproducible:{ka}"), format!("build 0 and build {i} of the same source with the same options differ in the {ka} ({a} vs {b}); collector {:?}", case.gc));
                                }
                            }
                        }
                    }
                }
            }
        }
        Outcome::pass(h, meta.0 >= 5 || meta.1 >= 1 || case.label == "generated-guarded-match")
            .class(format!("family:{}", case.label.split(':').next().unwrap_or("")))
            .class_if(meta.0 >= 5, ">=5-monomorphised-instantiations")
            .class_if(meta.1 >= 1, "has-trait-object-thunk")
            .class_if(case.gc.is_some(), "explicit-collector")
    }
    fn render(&self, case: &BuildCase) -> Value {
        json!({"label": case.label, "source": case.source, "gc": case.gc, "builds": case.builds})
    }
    fn from_rendered(&self, v: &Value) -> Option<BuildCase> {
        Some(BuildCase { label: v["label"].as_str().unwrap_or("replay").into(), source: v["source"].as_str()?.into(), gc: v["gc"].as_str().map(String::from), builds: v["builds"].as_u64().unwrap_or(3) as usize })
    }
}

pub fn main(mode: Mode) -> i32 {
    let p = Repro { tools: Tools::release() };
    match mode {
        Mode::Worker(_) => 2,
        Mode::Minimize(_, doc) => {
            let mut ctx = Ctx::new("C15", "quick");
            ctx.minimize_stored(&p, &doc, 100)
        }
        Mode::Replay(_, doc) => {
            let mut ctx = Ctx::new("C15", "quick");
            ctx.replay(&p, &doc)
        }
        Mode::Run(tier) => {
            let mut ctx = Ctx::new("C15", &tier);
            ctx.rule = "cases: programs of the repository's runnable corpus, of the typed generator, and generated programs full of order-sensitive lowering (matches over Int32/Int64/UInt8/Char/simple-enum scrutinees with guarded arms on several distinct values, guarded wildcards before literal arms, alternatives); each is built 3-4 times concurrently (and 16 such groups run in parallel), every build in a fresh process from its own working directory into its own output directory with a different set of neighbour files, as package (-c), assembly (-S, both code generators) and linked executable (both code generators), default or explicit collector; plus the bootstrap chain stage1 (baseline-built) -> stage2 -> stage3 of the optimizing compiler, in the release and in the debug tool build. oracle: byte identity of every artefact kind within a group; stage2 == stage3. non-trivial = program whose assembly contains >= 5 monomorphised instantiations or >= 1 trait-object thunk (ordering-sensitive tables), or a guarded-match program; distinct by (source, collector) hash".into();
            ctx.assumptions = vec!["same host, same toolchain; the source file keeps its path across the builds of a group".into()];
            // bootstrap fixed point, produced by ./check when it (re)bootstraps from the current tree
            for (name, tools) in [("release", Tools::release()), ("debug", Tools::debug())] {
                let fp = std::fs::read_to_string(tools.dir.join(".boots-fixedpoint")).unwrap_or_default();
                ctx.evaluations += 1;
                if tools.boots_failure().is_some() || fp.trim().is_empty() {
                    if name == "release" {
                        println!("INCONCLUSIVE property=C15 the optimizing compiler could not be bootstrapped from this tree ({name}): {}", truncate_str(&tools.boots_failure().unwrap_or_default(), 400));
                        return 2;
                    }
                    continue;
                }
                *ctx.classes.entry(format!("bootstrap/{name}-stage2-vs-stage3-compared")).or_insert(0) += 1;
                if fp.trim() != "same" {
                    ctx.report_failure("bootstrap", &Failure { key: format!("bootstrap-not-a-fixed-point:{name}"), msg: format!("stage2 and stage3 of the optimizing compiler differ ({name} tool build)") }, || json!({"rendered": {"bootstrap": name}}));
                }
            }
            ctx.run_regressions(&p);
            let n = ctx.n(60, 1500);
            ctx.run_search(&p, n, 2500, 0);
            ctx.require_class("rebuild/>=5-monomorphised-instantiations");
            ctx.finish()
        }
    }
}
