//! vcore — choice-sequence engine, proptest-driven search with shrinking,
//! evidence / replay / known-finding handling. See DESIGN.md §1.

use proptest::strategy::{Strategy, ValueTree};
use proptest::test_runner::{Config, RngAlgorithm, TestRng, TestRunner};
use rayon::prelude::*;
use serde_json::{Value, json};
use std::cell::RefCell;
use std::collections::{BTreeMap, HashSet};
use std::hash::{Hash, Hasher};
use std::panic::{AssertUnwindSafe, catch_unwind};
use std::path::{Path, PathBuf};
use std::sync::Mutex;
use std::sync::atomic::{AtomicU64, Ordering};
use std::time::Instant;

pub const VERIF_ROOT: &str = "/verif";

// ---------------------------------------------------------------------------
// Choice sequences

/// Decoder over a finite choice sequence. Exhausted => every choice is 0, and
/// generators are written so that 0 selects the simplest alternative.
pub struct Choices<'a> {
    data: &'a [u32],
    pos: usize,
}

impl<'a> Choices<'a> {
    pub fn new(data: &'a [u32]) -> Self {
        Choices { data, pos: 0 }
    }
    pub fn raw(&mut self) -> u32 {
        let v = self.data.get(self.pos).copied().unwrap_or(0);
        self.pos += 1;
        v
    }
    pub fn exhausted(&self) -> bool {
        self.pos >= self.data.len()
    }
    pub fn consumed(&self) -> usize {
        self.pos
    }
    /// Monotone scaling into 0..n (n >= 1): shrinking the raw choice shrinks the index.
    pub fn below(&mut self, n: usize) -> usize {
        if n <= 1 {
            // still consume, keeps decoding stable under edits of n
            self.raw();
            return 0;
        }
        ((self.raw() as u64 * n as u64) >> 32) as usize
    }
    pub fn range(&mut self, lo: i64, hi_incl: i64) -> i64 {
        debug_assert!(hi_incl >= lo);
        let n = (hi_incl - lo + 1) as u128;
        let r = self.raw() as u128;
        lo + ((r * n) >> 32) as i64
    }
    /// true with probability num/den; 0 => false.
    pub fn chance(&mut self, num: u32, den: u32) -> bool {
        let r = self.raw() as u64;
        // top `num/den` of the range is true so that 0 => false
        r >= (((den - num) as u64) << 32) / den as u64 && num > 0
    }
    pub fn pick<'b, T>(&mut self, xs: &'b [T]) -> &'b T {
        &xs[self.below(xs.len())]
    }
    pub fn pick_str(&mut self, xs: &[&'static str]) -> &'static str {
        xs[self.below(xs.len())]
    }
    /// Weighted index; first alternatives are "simplest".
    pub fn weighted(&mut self, ws: &[u32]) -> usize {
        let total: u64 = ws.iter().map(|&w| w as u64).sum();
        if total == 0 {
            self.raw();
            return 0;
        }
        let mut x = (self.raw() as u64 * total) >> 32;
        for (i, &w) in ws.iter().enumerate() {
            if x < w as u64 {
                return i;
            }
            x -= w as u64;
        }
        ws.len() - 1
    }
    pub fn u64(&mut self) -> u64 {
        ((self.raw() as u64) << 32) | self.raw() as u64
    }
}

pub fn hash64<T: Hash + ?Sized>(t: &T) -> u64 {
    #[allow(deprecated)]
    let mut h = std::hash::SipHasher::new();
    t.hash(&mut h);
    h.finish()
}

// ---------------------------------------------------------------------------
// Panic capture

thread_local! {
    static LAST_PANIC: RefCell<Option<PanicInfo>> = const { RefCell::new(None) };
    static QUIET: RefCell<bool> = const { RefCell::new(false) };
}

#[derive(Clone, Debug)]
pub struct PanicInfo {
    pub message: String,
    pub location: String,
    pub frame: String,
    pub backtrace: String,
}

impl PanicInfo {
    /// Signature without line numbers: innermost repo function + normalised message.
    pub fn key(&self) -> String {
        format!("panic@{}:{}", self.frame, normalise_msg(&self.message))
    }
}

pub fn normalise_msg(m: &str) -> String {
    let mut out = String::new();
    let mut in_num = false;
    for ch in m.chars().take(160) {
        if ch.is_ascii_digit() {
            if !in_num {
                out.push('#');
            }
            in_num = true;
        } else {
            in_num = false;
            out.push(if ch == '\n' { ' ' } else { ch });
        }
    }
    out
}

fn innermost_repo_frame(bt: &str) -> String {
    // Backtrace Display lines look like "  12: dora_parser::ast::Foo::bar" followed by "at path:line".
    let mut seen_panic = false;
    for line in bt.lines() {
        let l = line.trim();
        let name = match l.split_once(": ") {
            Some((idx, rest)) if idx.chars().all(|c| c.is_ascii_digit()) => rest,
            _ => continue,
        };
        if name.contains("rust_begin_unwind")
            || name.contains("core::panicking")
            || name.contains("std::panicking")
        {
            seen_panic = true;
            continue;
        }
        if !seen_panic {
            continue;
        }
        if name.starts_with("dora_") || name.starts_with("<dora_") {
            // strip hash suffix
            let n = match name.rfind("::h") {
                Some(i) if name.len() - i == 19 => &name[..i],
                _ => name,
            };
            return n.to_string();
        }
    }
    "?".to_string()
}

pub fn install_panic_hook() {
    std::panic::set_hook(Box::new(|info| {
        let message = if let Some(s) = info.payload().downcast_ref::<&str>() {
            s.to_string()
        } else if let Some(s) = info.payload().downcast_ref::<String>() {
            s.clone()
        } else {
            "<non-string panic>".to_string()
        };
        let location = info
            .location()
            .map(|l| format!("{}:{}", l.file(), l.line()))
            .unwrap_or_default();
        let bt = std::backtrace::Backtrace::force_capture().to_string();
        let frame = innermost_repo_frame(&bt);
        let quiet = QUIET.with(|q| *q.borrow());
        if !quiet {
            eprintln!("panic (uncaught context): {message} at {location}");
        }
        LAST_PANIC.with(|p| {
            *p.borrow_mut() = Some(PanicInfo {
                message,
                location,
                frame,
                backtrace: bt,
            })
        });
    }));
}

/// Run `f`, turning a panic into `Err(PanicInfo)`.
pub fn guarded<T>(f: impl FnOnce() -> T) -> Result<T, PanicInfo> {
    QUIET.with(|q| *q.borrow_mut() = true);
    LAST_PANIC.with(|p| *p.borrow_mut() = None);
    let r = catch_unwind(AssertUnwindSafe(f));
    QUIET.with(|q| *q.borrow_mut() = false);
    match r {
        Ok(v) => Ok(v),
        Err(_) => Err(LAST_PANIC.with(|p| p.borrow_mut().take()).unwrap_or(PanicInfo {
            message: "<unknown>".into(),
            location: String::new(),
            frame: "?".into(),
            backtrace: String::new(),
        })),
    }
}

// ---------------------------------------------------------------------------
// Outcomes

#[derive(Clone, Debug)]
pub struct Failure {
    /// signature used for known-finding matching (never contains line numbers)
    pub key: String,
    pub msg: String,
}

#[derive(Clone, Debug, Default)]
pub struct Outcome {
    pub fail: Option<Failure>,
    pub nontrivial: bool,
    pub classes: Vec<String>,
    /// content hash for distinctness
    pub hash: u64,
    /// harness-side trouble (timeout, tool failure): never a violation
    pub inconclusive: Option<String>,
}

impl Outcome {
    pub fn pass(hash: u64, nontrivial: bool) -> Outcome {
        Outcome {
            hash,
            nontrivial,
            ..Default::default()
        }
    }
    pub fn fail(hash: u64, key: impl Into<String>, msg: impl Into<String>) -> Outcome {
        Outcome {
            hash,
            nontrivial: true,
            fail: Some(Failure {
                key: key.into(),
                msg: msg.into(),
            }),
            ..Default::default()
        }
    }
    pub fn class(mut self, c: impl Into<String>) -> Outcome {
        self.classes.push(c.into());
        self
    }
    pub fn class_if(mut self, cond: bool, c: &str) -> Outcome {
        if cond {
            self.classes.push(c.to_string());
        }
        self
    }
}

/// A sub-check: generator + oracle.
pub trait Prop: Sync {
    type Case: Send + Sync;
    fn name(&self) -> &str;
    fn generate(&self, c: &mut Choices) -> Self::Case;
    fn eval(&self, case: &Self::Case) -> Outcome;
    fn render(&self, case: &Self::Case) -> Value;
    /// Rebuild a case from its rendering (so replay does not need the generator).
    fn from_rendered(&self, _v: &Value) -> Option<Self::Case> {
        None
    }
    /// Optional case-level minimisation applied after choice-sequence shrinking
    /// (e.g. delta debugging on a text). `fails` says whether a candidate still
    /// fails with the same key.
    fn minimize(&self, _case: &Self::Case, _fails: &dyn Fn(&Self::Case) -> bool) -> Option<Self::Case> {
        None
    }
    /// If true, the rendered case is parked in a crash slot while it is being
    /// evaluated, so that a hard crash of the process (stack overflow, abort)
    /// can be attributed to an input.
    fn crash_capture(&self) -> bool {
        false
    }
}

// ---------------------------------------------------------------------------
// Crash slots: in-flight cases dumped by a SIGABRT/SIGSEGV handler.

const NSLOTS: usize = 128;
static SLOT_PTR: [std::sync::atomic::AtomicPtr<u8>; NSLOTS] = [const { std::sync::atomic::AtomicPtr::new(std::ptr::null_mut()) }; NSLOTS];
static SLOT_LEN: [std::sync::atomic::AtomicUsize; NSLOTS] = [const { std::sync::atomic::AtomicUsize::new(0) }; NSLOTS];
static CRASH_FD: std::sync::atomic::AtomicI32 = std::sync::atomic::AtomicI32::new(-1);
static NEXT_SLOT: std::sync::atomic::AtomicUsize = std::sync::atomic::AtomicUsize::new(0);
thread_local! { static MY_SLOT: usize = NEXT_SLOT.fetch_add(1, Ordering::SeqCst) % NSLOTS; }

extern "C" fn crash_handler(_sig: libc::c_int) {
    let fd = CRASH_FD.load(Ordering::SeqCst);
    if fd >= 0 {
        for i in 0..NSLOTS {
            let p = SLOT_PTR[i].load(Ordering::SeqCst);
            let l = SLOT_LEN[i].load(Ordering::SeqCst);
            if !p.is_null() && l > 0 {
                unsafe {
                    libc::write(fd, p as *const libc::c_void, l);
                    libc::write(fd, b"\n".as_ptr() as *const libc::c_void, 1);
                }
            }
        }
    }
    unsafe { libc::_exit(70) };
}

/// Pre-open the dump file and install the handler. Exit status 70 = hard crash, in-flight cases dumped.
pub fn install_crash_dump(path: &Path) {
    let _ = std::fs::create_dir_all(path.parent().unwrap());
    let c = std::ffi::CString::new(path.to_str().unwrap()).unwrap();
    let fd = unsafe { libc::open(c.as_ptr(), libc::O_WRONLY | libc::O_CREAT | libc::O_TRUNC, 0o644) };
    CRASH_FD.store(fd, Ordering::SeqCst);
    unsafe {
        libc::signal(libc::SIGABRT, crash_handler as usize);
    }
}

fn slot_park(bytes: Vec<u8>) {
    let i = MY_SLOT.with(|s| *s);
    let b = bytes.into_boxed_slice();
    let l = b.len();
    let p = Box::into_raw(b) as *mut u8;
    SLOT_LEN[i].store(0, Ordering::SeqCst);
    let old = SLOT_PTR[i].swap(p, Ordering::SeqCst);
    SLOT_LEN[i].store(l, Ordering::SeqCst);
    let _ = old;
}

fn slot_clear() {
    let i = MY_SLOT.with(|s| *s);
    let l = SLOT_LEN[i].swap(0, Ordering::SeqCst);
    let p = SLOT_PTR[i].swap(std::ptr::null_mut(), Ordering::SeqCst);
    if !p.is_null() {
        unsafe { drop(Box::from_raw(std::ptr::slice_from_raw_parts_mut(p, l))) };
    }
}

/// ddmin over a text: lines, then whitespace-separated chunks, then chars.
pub fn ddmin_text(text: &str, fails: &dyn Fn(&str) -> bool, budget: usize) -> String {
    let mut cur = text.to_string();
    let mut evals = 0usize;
    for level in 0..3 {
        loop {
            let parts: Vec<&str> = match level {
                0 => cur.split_inclusive('\n').collect(),
                1 => split_keep_ws(&cur),
                _ => {
                    if cur.len() > 400 {
                        break;
                    }
                    cur.char_indices().map(|(i, ch)| &cur[i..i + ch.len_utf8()]).collect()
                }
            };
            let mut parts: Vec<String> = parts.into_iter().map(|s| s.to_string()).collect();
            let mut n = 2usize;
            let mut progressed = false;
            while parts.len() >= 2 && evals < budget {
                let chunk = (parts.len() + n - 1) / n;
                let mut removed = false;
                let mut i = 0;
                while i < parts.len() && evals < budget {
                    let end = (i + chunk).min(parts.len());
                    let cand: String = parts[..i].iter().chain(parts[end..].iter()).map(|s| s.as_str()).collect();
                    evals += 1;
                    if fails(&cand) {
                        parts.drain(i..end);
                        removed = true;
                        progressed = true;
                    } else {
                        i = end;
                    }
                }
                if removed {
                    n = n.saturating_sub(1).max(2);
                } else {
                    if chunk == 1 {
                        break;
                    }
                    n = (n * 2).min(parts.len());
                }
            }
            let next: String = parts.concat();
            let changed = next != cur;
            cur = next;
            if !changed || !progressed || evals >= budget {
                break;
            }
        }
    }
    cur
}

fn split_keep_ws(s: &str) -> Vec<&str> {
    let mut out = vec![];
    let mut start = 0;
    let mut prev_ws: Option<bool> = None;
    for (i, ch) in s.char_indices() {
        let ws = ch.is_whitespace();
        if let Some(p) = prev_ws {
            if p != ws || !ch.is_alphanumeric() {
                if i > start {
                    out.push(&s[start..i]);
                }
                start = i;
            }
        }
        prev_ws = Some(ws);
    }
    if start < s.len() {
        out.push(&s[start..]);
    }
    out
}

// ---------------------------------------------------------------------------
// Known findings

#[derive(Clone, Debug)]
pub struct KnownFinding {
    pub property: String,
    pub key: String,
    pub what: String,
    pub status: String,
    pub sub: String,
    pub reproducer: Value,
    /// the construct is excluded from the random search by construction, so the entry
    /// suppresses only its own reproducer; the same signature anywhere else is a violation
    pub only_reproducer: bool,
}

pub fn load_known_findings() -> Vec<KnownFinding> {
    let p = Path::new(VERIF_ROOT).join("known_findings.json");
    let Ok(s) = std::fs::read_to_string(&p) else {
        return vec![];
    };
    let v: Value = serde_json::from_str(&s).expect("known_findings.json is not valid JSON");
    let mut out = vec![];
    for e in v["findings"].as_array().cloned().unwrap_or_default() {
        out.push(KnownFinding {
            property: e["property"].as_str().unwrap_or("").to_string(),
            key: e["key"].as_str().unwrap_or("").to_string(),
            what: e["what"].as_str().unwrap_or("").to_string(),
            status: e["status"].as_str().unwrap_or("open").to_string(),
            sub: e["sub"].as_str().unwrap_or("").to_string(),
            reproducer: e["reproducer"].clone(),
            only_reproducer: e["only_reproducer"].as_bool().unwrap_or(false),
        });
    }
    out
}

// ---------------------------------------------------------------------------
// Context: accumulates evidence over several sub-searches of one property.

pub struct Ctx {
    pub property: String,
    pub tier: String,
    pub seed: u64,
    pub strict: bool,
    pub start: Instant,
    pub evaluations: u64,
    pub nontrivial: HashSet<u64>,
    pub classes: BTreeMap<String, u64>,
    pub samples: Vec<Value>,
    pub sample_cap: usize,
    pub violations: Vec<(String, PathBuf)>,
    pub known_hit: BTreeMap<String, u64>,
    pub known: Vec<KnownFinding>,
    pub inconclusive: Vec<String>,
    pub excluded: BTreeMap<String, u64>,
    pub rule: String,
    pub assumptions: Vec<String>,
    pub extra: BTreeMap<String, Value>,
    pub sub_stats: BTreeMap<String, Value>,
    pub in_reproducers: bool,
    /// counts taken over from parts written by other binaries of the same check (see `merge_part`)
    pub part_nontrivial: u64,
    pub part_violations: u64,
}

pub fn env_seed() -> u64 {
    std::env::var("VERIF_SEED")
        .ok()
        .and_then(|s| s.trim().parse::<i64>().ok())
        .map(|v| v as u64)
        .unwrap_or(1)
}

impl Ctx {
    pub fn new(property: &str, tier: &str) -> Ctx {
        install_panic_hook();
        Ctx {
            property: property.to_string(),
            tier: tier.to_string(),
            seed: env_seed(),
            strict: false,
            start: Instant::now(),
            evaluations: 0,
            nontrivial: HashSet::new(),
            classes: BTreeMap::new(),
            samples: vec![],
            sample_cap: 6,
            violations: vec![],
            known_hit: BTreeMap::new(),
            known: load_known_findings(),
            inconclusive: vec![],
            excluded: BTreeMap::new(),
            rule: String::new(),
            assumptions: vec![],
            extra: BTreeMap::new(),
            sub_stats: BTreeMap::new(),
            in_reproducers: false,
            part_nontrivial: 0,
            part_violations: 0,
        }
    }

    /// Directory where binaries that decide only a part of a property leave their evidence.
    pub fn parts_dir() -> PathBuf {
        Path::new(VERIF_ROOT).join("evidence").join("parts")
    }

    /// Redirect this context's evidence to the parts directory (for a binary that is not the last one of a check).
    pub fn write_as_part() {
        let d = Self::parts_dir();
        let _ = std::fs::create_dir_all(&d);
        // SAFETY: called at start-up, before any thread is spawned
        unsafe { std::env::set_var("VERIF_EVIDENCE_DIR", &d) };
    }

    /// Merge the evidence another binary wrote for the same property and tier in this run (the driver removes stale
    /// part files first). A missing or mismatching part makes the run inconclusive: the property was only partly explored.
    pub fn merge_part(&mut self, name: &str) {
        let f = Self::parts_dir().join(format!("{}.json", self.property));
        let v: Option<Value> = std::fs::read_to_string(&f).ok().and_then(|s| serde_json::from_str(&s).ok());
        let Some(v) = v else {
            self.inconclusive.push(format!("part '{name}' left no evidence ({})", f.display()));
            self.extra.insert("hard_inconclusive".into(), json!(format!("part {name} missing")));
            return;
        };
        if v["tier"].as_str() != Some(self.tier.as_str()) || v["seed"].as_i64() != Some(self.seed as i64) {
            self.inconclusive.push(format!("part '{name}' is from another run (tier/seed differ)"));
            self.extra.insert("hard_inconclusive".into(), json!(format!("part {name} stale")));
            return;
        }
        let cov = &v["coverage"];
        self.evaluations += cov["evaluations"].as_u64().unwrap_or(0);
        self.part_nontrivial += cov["distinct_nontrivial"].as_u64().unwrap_or(0);
        self.part_violations += v["violations"].as_u64().unwrap_or(0);
        if let Some(cl) = cov["classes"].as_object() {
            for (k, n) in cl {
                *self.classes.entry(format!("{name}:{k}")).or_insert(0) += n.as_u64().unwrap_or(0);
            }
        }
        if let Some(sm) = cov["samples"].as_array() {
            for s in sm.iter().take(3) {
                self.samples.push(json!({"part": name, "sample": s}));
            }
        }
        if let Some(a) = v["assumptions"].as_array() {
            for x in a {
                if let Some(x) = x.as_str() {
                    self.assumptions.push(format!("[{name}] {x}"));
                }
            }
        }
        if cov["inconclusive_cases"].as_u64().unwrap_or(0) > 0 {
            *self.classes.entry(format!("{name}:inconclusive")).or_insert(0) += cov["inconclusive_cases"].as_u64().unwrap_or(0);
        }
        let mut part = cov.clone();
        if let Some(o) = part.as_object_mut() {
            o.remove("samples");
            o.insert("wall_s".into(), v["wall_s"].clone());
        }
        self.extra.insert(format!("part_{name}"), part);
    }

    pub fn thorough(&self) -> bool {
        self.tier == "thorough"
    }

    /// quick/thorough count selector
    pub fn n(&self, quick: usize, thorough: usize) -> usize {
        let base = if self.thorough() { thorough } else { quick };
        // VERIF_SCALE lets a developer run a faster smoke pass; never used by registered commands
        match std::env::var("VERIF_SCALE").ok().and_then(|s| s.parse::<f64>().ok()) {
            Some(f) => ((base as f64 * f).ceil() as usize).max(1),
            None => base,
        }
    }

    fn known_open(&self, key: &str) -> Option<&KnownFinding> {
        if self.strict {
            return None;
        }
        self.known.iter().find(|k| {
            k.property == self.property && k.status == "open" && key_matches(&k.key, key) && (!k.only_reproducer || self.in_reproducers)
        })
    }

    fn absorb(&mut self, sub: &str, o: &Outcome, rendered: impl FnOnce() -> Value) {
        self.evaluations += 1;
        if let Some(r) = &o.inconclusive {
            if self.inconclusive.len() < 50 {
                self.inconclusive.push(format!("{sub}: {r}"));
            }
            *self.classes.entry(format!("{sub}/inconclusive")).or_insert(0) += 1;
            return;
        }
        if o.nontrivial {
            let fresh = self.nontrivial.insert(o.hash ^ hash64(sub));
            if fresh && self.samples.len() < self.sample_cap {
                // spread samples over sub-checks: at most 2 per sub
                let cnt = self
                    .samples
                    .iter()
                    .filter(|s| s["sub"].as_str() == Some(sub))
                    .count();
                if cnt < 2 {
                    self.samples.push(json!({"sub": sub, "case": truncate_value(rendered(), 1500)}));
                }
            }
        }
        for c in &o.classes {
            *self.classes.entry(format!("{sub}/{c}")).or_insert(0) += 1;
        }
    }

    pub fn record_violation(&mut self, sub: &str, key: &str, msg: &str, replay: Value) -> PathBuf {
        let dir = std::env::var("VERIF_VIOL_DIR").map(PathBuf::from).unwrap_or_else(|_| Path::new(VERIF_ROOT).join("violations"));
        let _ = std::fs::create_dir_all(&dir);
        let h = hash64(&(sub, key, replay.to_string()));
        let path = dir.join(format!("{}-{}-{:016x}.json", self.property, sub, h));
        let doc = json!({
            "property": self.property,
            "sub": sub,
            "key": key,
            "message": msg,
            "seed": self.seed,
            "tier": self.tier,
            "case": replay,
        });
        std::fs::write(&path, serde_json::to_string_pretty(&doc).unwrap()).expect("write replay");
        println!("VIOLATION property={} replay={}", self.property, path.display());
        println!("  sub-check: {sub}\n  key: {key}\n  {}", first_lines(msg, 12));
        self.violations.push((key.to_string(), path.clone()));
        path
    }

    /// Handle a failure: known finding => counted; otherwise a violation.
    /// Returns true if it was a (new) violation.
    pub fn report_failure(&mut self, sub: &str, f: &Failure, replay: impl FnOnce() -> Value) -> bool {
        if let Some(k) = self.known_open(&f.key) {
            let what = format!("{} [{}]", k.what, k.key);
            *self.known_hit.entry(what).or_insert(0) += 1;
            false
        } else {
            // one violation per distinct key per run
            if self.violations.iter().any(|(k, _)| k == &f.key) {
                return true;
            }
            self.record_violation(sub, &f.key, &f.msg, replay());
            true
        }
    }

    /// Enumerate a fixed list of cases (corpus files etc.) in parallel.
    pub fn run_enum<P: Prop>(&mut self, prop: &P, cases: Vec<P::Case>) {
        let sub = prop.name().to_string();
        let t0 = Instant::now();
        let outcomes: Vec<Outcome> = cases.par_iter().map(|c| eval_guarded(prop, c)).collect();
        let mut fails = 0u64;
        for (c, o) in cases.iter().zip(outcomes.iter()) {
            self.absorb(&sub, o, || prop.render(c));
            if let Some(f) = &o.fail {
                fails += 1;
                let key = f.key.clone();
                self.report_failure(&sub, f, || {
                    let still = |x: &P::Case| eval_guarded(prop, x).fail.map(|f2| f2.key == key).unwrap_or(false);
                    match prop.minimize(c, &still) {
                        Some(m) if still(&m) => json!({"rendered": prop.render(&m), "minimized_at_case_level": true, "original": truncate_value(prop.render(c), 400)}),
                        _ => json!({"rendered": prop.render(c)}),
                    }
                });
            }
        }
        self.sub_stats.insert(
            format!("{sub}#enumeration"),
            json!({"mode":"enumeration","cases":cases.len(),"failures":fails,"wall_s":t0.elapsed().as_secs_f64()}),
        );
    }

    /// proptest-driven random search over choice sequences, evaluated in
    /// parallel batches; first new failure is shrunk (bounded) and reported.
    pub fn run_search<P: Prop>(&mut self, prop: &P, cases: usize, max_choices: usize, shrink_budget: usize) {
        let shrink_budget = std::env::var("VERIF_SHRINK").ok().and_then(|s| s.parse().ok()).unwrap_or(shrink_budget);
        let sub = prop.name().to_string();
        let t0 = Instant::now();
        let mut seed_bytes = [0u8; 32];
        seed_bytes[..8].copy_from_slice(&self.seed.to_le_bytes());
        seed_bytes[8..16].copy_from_slice(&hash64(&(self.property.as_str(), sub.as_str())).to_le_bytes());
        let rng = TestRng::from_seed(RngAlgorithm::ChaCha, &seed_bytes);
        let config = Config {
            cases: cases as u32,
            failure_persistence: None,
            max_shrink_iters: shrink_budget as u32,
            ..Config::default()
        };
        let mut runner = TestRunner::new_with_rng(config, rng);
        let strategy = proptest::collection::vec(proptest::num::u32::ANY, 0..=max_choices);
        let batch = 256usize;
        let mut done = 0usize;
        let mut stopped = false;
        let mut shrunk_steps = 0usize;
        while done < cases && !stopped {
            let n = batch.min(cases - done);
            let mut trees = Vec::with_capacity(n);
            for _ in 0..n {
                trees.push(Some(strategy.new_tree(&mut runner).expect("new_tree")));
            }
            let seqs: Vec<Vec<u32>> = trees.iter().map(|t| t.as_ref().unwrap().current()).collect();
            let results: Vec<(Outcome, Option<Value>)> = seqs
                .par_iter()
                .map(|s| {
                    let case = match guarded(|| prop.generate(&mut Choices::new(s))) {
                        Ok(c) => c,
                        Err(p) => {
                            return (
                                Outcome {
                                    inconclusive: Some(format!("generator panicked: {} at {}", p.message, p.location)),
                                    ..Default::default()
                                },
                                None,
                            );
                        }
                    };
                    let o = eval_guarded(prop, &case);
                    let r = if o.nontrivial || o.fail.is_some() { Some(prop.render(&case)) } else { None };
                    (o, r)
                })
                .collect();
            for (i, (o, r)) in results.iter().enumerate() {
                self.absorb(&sub, o, || r.clone().unwrap_or(Value::Null));
                if let Some(f) = &o.fail {
                    if self.known_open(&f.key).is_some() {
                        self.report_failure(&sub, f, || Value::Null);
                        continue;
                    }
                    if self.violations.iter().any(|(k, _)| k == &f.key) {
                        continue;
                    }
                    // shrink this tree sequentially
                    let mut tree = trees[i].take().unwrap();
                    let key = f.key.clone();
                    let mut best = (seqs[i].clone(), f.clone());
                    let mut steps = 0usize;
                    if tree.simplify() {
                        loop {
                            if steps >= shrink_budget {
                                break;
                            }
                            steps += 1;
                            let s = tree.current();
                            let still = guarded(|| prop.generate(&mut Choices::new(&s)))
                                .ok()
                                .map(|c| eval_guarded(prop, &c))
                                .and_then(|o| o.fail)
                                .filter(|f2| f2.key == key);
                            match still {
                                Some(f2) => {
                                    best = (s, f2);
                                    if !tree.simplify() {
                                        break;
                                    }
                                }
                                None => {
                                    if !tree.complicate() {
                                        break;
                                    }
                                }
                            }
                        }
                    }
                    shrunk_steps = steps;
                    let mut case = prop.generate(&mut Choices::new(&best.0));
                    let mut msg = best.1.msg.clone();
                    let mut minimized = false;
                    let fails = |c: &P::Case| eval_guarded(prop, c).fail.map(|f2| f2.key == key).unwrap_or(false);
                    if let Some(m) = prop.minimize(&case, &fails) {
                        if let Some(f2) = eval_guarded(prop, &m).fail {
                            if f2.key == key {
                                case = m;
                                msg = f2.msg;
                                minimized = true;
                            }
                        }
                    }
                    let rendered = prop.render(&case);
                    self.record_violation(
                        &sub,
                        &best.1.key,
                        &msg,
                        json!({"choices": best.0, "rendered": rendered, "shrink_steps": steps, "minimized_at_case_level": minimized}),
                    );
                    // counting stops at first new failure (developer triage mode keeps going)
                    if std::env::var("VERIF_CONTINUE").is_err() {
                        stopped = true;
                        break;
                    }
                }
            }
            done += n;
        }
        self.sub_stats.insert(
            sub,
            json!({"mode":"proptest choice sequences","cases_requested":cases,"cases_run":done,"max_choices":max_choices,
                   "stopped_at_failure":stopped,"shrink_steps":shrunk_steps,"wall_s":t0.elapsed().as_secs_f64()}),
        );
    }

    /// Developer aid: minimise a stored failing choice sequence by chunk deletion / zeroing
    /// (keeps the failure key), then apply the case-level minimiser. Prints the result.
    pub fn minimize_stored<P: Prop>(&mut self, prop: &P, doc: &Value, budget: usize) -> i32 {
        self.strict = true;
        let Some(arr) = doc["case"].get("choices").and_then(|c| c.as_array()) else {
            println!("no choices in replay file");
            return 2;
        };
        let mut seq: Vec<u32> = arr.iter().map(|x| x.as_u64().unwrap_or(0) as u32).collect();
        let key_of = |s: &[u32]| -> Option<String> { guarded(|| prop.generate(&mut Choices::new(s))).ok().map(|c| eval_guarded(prop, &c)).and_then(|o| o.fail).map(|f| f.key) };
        let Some(key) = key_of(&seq) else {
            println!("stored case does not fail any more");
            return 0;
        };
        println!("minimising for key {key} ({} choices)", seq.len());
        let mut evals = 0usize;
        let mut chunk = (seq.len() / 2).max(1);
        while chunk >= 1 && evals < budget {
            let mut i = 0;
            let mut progressed = false;
            while i < seq.len() && evals < budget {
                let end = (i + chunk).min(seq.len());
                // try deletion
                let mut cand: Vec<u32> = seq[..i].iter().chain(seq[end..].iter()).copied().collect();
                evals += 1;
                if key_of(&cand).as_deref() == Some(key.as_str()) {
                    seq = cand;
                    progressed = true;
                    continue;
                }
                // try zeroing
                if seq[i..end].iter().any(|&x| x != 0) {
                    cand = seq.clone();
                    for x in &mut cand[i..end] {
                        *x = 0;
                    }
                    evals += 1;
                    if key_of(&cand).as_deref() == Some(key.as_str()) {
                        seq = cand;
                        progressed = true;
                    }
                }
                i = end;
            }
            if chunk == 1 && !progressed {
                break;
            }
            if !progressed || chunk > 1 {
                chunk /= 2;
            }
            if chunk == 0 {
                break;
            }
        }
        let case = prop.generate(&mut Choices::new(&seq));
        let o = eval_guarded(prop, &case);
        let rendered = prop.render(&case);
        println!("minimised to {} choices after {} evaluations", seq.len(), evals);
        if let Some(f) = o.fail {
            let path = self.record_violation(prop.name(), &f.key, &f.msg, json!({"choices": seq, "rendered": rendered, "minimized": true}));
            println!("written {}", path.display());
        }
        1
    }

    /// Replay one stored case in strict mode. Returns exit code.
    pub fn replay<P: Prop>(&mut self, prop: &P, doc: &Value) -> i32 {
        self.strict = true;
        let case_doc = &doc["case"];
        let case = if let Some(c) = case_doc.get("rendered").and_then(|r| prop.from_rendered(r)) {
            c
        } else if let Some(arr) = case_doc.get("choices").and_then(|c| c.as_array()) {
            let seq: Vec<u32> = arr.iter().map(|x| x.as_u64().unwrap_or(0) as u32).collect();
            prop.generate(&mut Choices::new(&seq))
        } else {
            println!("replay file has neither a re-buildable rendering nor choices");
            return 2;
        };
        let o = eval_guarded(prop, &case);
        self.absorb(prop.name(), &o, || prop.render(&case));
        if let Some(r) = &o.inconclusive {
            println!("INCONCLUSIVE property={} {}", self.property, r);
            return 2;
        }
        match o.fail {
            Some(f) => {
                println!("VIOLATION property={} replay=(replayed) key={}", self.property, f.key);
                println!("  {}", first_lines(&f.msg, 30));
                1
            }
            None => {
                println!("replay: property held on the stored case");
                0
            }
        }
    }

    /// Run the committed regression tier /verif/replays/<id>/*.json for this sub-check.
    pub fn run_regressions<P: Prop>(&mut self, prop: &P) {
        let dir = Path::new(VERIF_ROOT).join("replays").join(&self.property);
        let Ok(rd) = std::fs::read_dir(&dir) else { return };
        let mut files: Vec<PathBuf> = rd.filter_map(|e| e.ok()).map(|e| e.path()).filter(|p| p.extension().map(|e| e == "json").unwrap_or(false)).collect();
        files.sort();
        let mut n = 0;
        for f in files {
            let Ok(s) = std::fs::read_to_string(&f) else { continue };
            let Ok(doc) = serde_json::from_str::<Value>(&s) else { continue };
            if doc["sub"].as_str() != Some(prop.name()) {
                continue;
            }
            let case_doc = &doc["case"];
            let case = if let Some(c) = case_doc.get("rendered").and_then(|r| prop.from_rendered(r)) {
                c
            } else if let Some(arr) = case_doc.get("choices").and_then(|c| c.as_array()) {
                let seq: Vec<u32> = arr.iter().map(|x| x.as_u64().unwrap_or(0) as u32).collect();
                prop.generate(&mut Choices::new(&seq))
            } else {
                continue;
            };
            n += 1;
            let o = eval_guarded(prop, &case);
            self.absorb(prop.name(), &o, || prop.render(&case));
            *self.classes.entry(format!("{}/regression-replays", prop.name())).or_insert(0) += 1;
            if let Some(fl) = &o.fail {
                self.report_failure(prop.name(), fl, || json!({"rendered": prop.render(&case), "from_regression_file": f.display().to_string()}));
            }
        }
        let _ = n;
    }

    /// Re-run the stored reproducer of every open known finding of this sub-check, so that a
    /// finding is reported (KNOWN-FINDING line) exactly while it is still present, even when the
    /// random search excludes its construct by construction.
    pub fn run_known_reproducers<P: Prop>(&mut self, prop: &P) {
        let mine: Vec<KnownFinding> = self
            .known
            .iter()
            .filter(|k| k.property == self.property && k.status == "open" && k.sub == prop.name() && !k.reproducer.is_null())
            .cloned()
            .collect();
        let cases: Vec<(KnownFinding, P::Case)> = mine.into_iter().filter_map(|k| prop.from_rendered(&k.reproducer).map(|c| (k, c))).collect();
        let outcomes: Vec<Outcome> = cases.par_iter().map(|(_, c)| eval_guarded(prop, c)).collect();
        self.in_reproducers = true;
        for ((k, case), o) in cases.iter().zip(outcomes.iter()) {
            self.absorb(prop.name(), o, || prop.render(case));
            *self.classes.entry(format!("{}/known-finding-reproducers", prop.name())).or_insert(0) += 1;
            match &o.fail {
                Some(f) => {
                    self.report_failure(prop.name(), f, || json!({"rendered": prop.render(case), "from_known_finding": k.key}));
                }
                None => {
                    *self.classes.entry(format!("{}/known-finding-no-longer-reproduces", prop.name())).or_insert(0) += 1;
                }
            }
        }
        self.in_reproducers = false;
    }

    pub fn note_excluded(&mut self, what: &str, n: u64) {
        *self.excluded.entry(what.to_string()).or_insert(0) += n;
    }

    /// Fail (exit 2) if a class the property depends on is empty.
    pub fn require_class(&mut self, class: &str) {
        if self.classes.get(class).copied().unwrap_or(0) == 0 {
            self.inconclusive.push(format!("required class '{class}' is empty"));
            self.extra.insert("empty_required_class".into(), json!(class));
        }
    }

    /// Write evidence and return the exit code.
    pub fn finish(&mut self) -> i32 {
        let wall = self.start.elapsed().as_secs_f64();
        for (what, n) in &self.known_hit {
            println!("KNOWN-FINDING: property={} {} (hit {} times)", self.property, what, n);
        }
        // cases the harness could not even generate or judge because code panicked underneath it (typically repository
        // code called by a generator): the run explored less than it claims — inconclusive, never silently green
        let harness_panics = self.inconclusive.iter().filter(|m| m.contains("generator panicked:") || m.contains("harness panic:")).count();
        if harness_panics > 0 && self.violations.is_empty() {
            self.extra.insert("hard_inconclusive".into(), json!(format!("{harness_panics} cases could not be generated/judged because of a panic below the harness")));
        }
        let hard_inconclusive = self.extra.contains_key("empty_required_class") || self.extra.contains_key("hard_inconclusive");
        let mut coverage = json!({
            "evaluations": self.evaluations,
            "distinct_nontrivial": self.nontrivial.len() as u64 + self.part_nontrivial,
            "rule": self.rule,
            "samples": self.samples,
            "classes": self.classes,
            "sub_checks": self.sub_stats,
            "known_findings_hit": self.known_hit,
            "excluded_by_construction": self.excluded,
            "inconclusive_cases": self.inconclusive.len(),
            "inconclusive_examples": self.inconclusive.iter().take(5).collect::<Vec<_>>(),
            "exhaustive": false,
        });
        for (k, v) in &self.extra {
            coverage[k] = v.clone();
        }
        let ev = json!({
            "property_id": self.property,
            "tier": self.tier,
            "seed": self.seed as i64,
            "level": "exploration",
            "coverage": coverage,
            "assumptions": self.assumptions,
            "wall_s": wall,
            "violations": self.violations.len() as u64 + self.part_violations,
        });
        let dir = std::env::var("VERIF_EVIDENCE_DIR").map(PathBuf::from).unwrap_or_else(|_| Path::new(VERIF_ROOT).join("evidence"));
        let _ = std::fs::create_dir_all(&dir);
        let tmp = dir.join(format!("{}.json.tmp", self.property));
        let fin = dir.join(format!("{}.json", self.property));
        std::fs::write(&tmp, serde_json::to_string_pretty(&ev).unwrap()).expect("write evidence");
        std::fs::rename(&tmp, &fin).expect("rename evidence");
        println!(
            "property={} tier={} seed={} evaluations={} distinct_nontrivial={} violations={} inconclusive={} wall={:.1}s",
            self.property,
            self.tier,
            self.seed,
            self.evaluations,
            self.nontrivial.len() as u64 + self.part_nontrivial,
            self.violations.len() as u64 + self.part_violations,
            self.inconclusive.len(),
            wall
        );
        if !self.violations.is_empty() {
            1
        } else if hard_inconclusive {
            for r in self.inconclusive.iter().take(5) {
                println!("INCONCLUSIVE property={} {}", self.property, r);
            }
            2
        } else {
            0
        }
    }
}

fn key_matches(pattern: &str, key: &str) -> bool {
    // exact, or prefix when the pattern ends with '*'
    if let Some(p) = pattern.strip_suffix('*') {
        key.starts_with(p)
    } else {
        pattern == key
    }
}

pub fn eval_guarded<P: Prop>(prop: &P, case: &P::Case) -> Outcome {
    let slot = watchdog_enter(prop.name());
    let capture = prop.crash_capture() && CRASH_FD.load(Ordering::Relaxed) >= 0;
    if capture {
        slot_park(json!({"sub": prop.name(), "rendered": prop.render(case)}).to_string().into_bytes());
    }
    let r = guarded(|| prop.eval(case));
    if capture {
        slot_clear();
    }
    watchdog_leave(slot);
    match r {
        Ok(o) => o,
        Err(p) => Outcome {
            // a panic of the *oracle/harness* itself (repo panics are caught inside eval)
            inconclusive: Some(format!("harness panic: {} at {}", p.message, p.location)),
            ..Default::default()
        },
    }
}

pub fn first_lines(s: &str, n: usize) -> String {
    s.lines().take(n).collect::<Vec<_>>().join("\n  ")
}

pub fn truncate_str(s: &str, n: usize) -> String {
    if s.len() <= n {
        return s.to_string();
    }
    let mut end = n;
    while !s.is_char_boundary(end) {
        end -= 1;
    }
    format!("{}…[{} bytes total]", &s[..end], s.len())
}

pub fn truncate_value(v: Value, n: usize) -> Value {
    match v {
        Value::String(s) => Value::String(truncate_str(&s, n)),
        Value::Object(m) => Value::Object(m.into_iter().map(|(k, v)| (k, truncate_value(v, n))).collect()),
        Value::Array(a) => {
            let len = a.len();
            let mut out: Vec<Value> = a.into_iter().take(40).map(|v| truncate_value(v, n)).collect();
            if len > 40 {
                out.push(json!(format!("…[{len} items total]")));
            }
            Value::Array(out)
        }
        o => o,
    }
}

// ---------------------------------------------------------------------------
// Watchdog: a case running longer than the limit makes the whole run inconclusive
// (exit 2) — never a violation.

static WD_LIMIT_S: AtomicU64 = AtomicU64::new(0);
static WD_SLOTS: Mutex<Vec<Option<(Instant, String)>>> = Mutex::new(Vec::new());

pub fn start_watchdog(limit_s: u64, property: &str) {
    WD_LIMIT_S.store(limit_s, Ordering::SeqCst);
    let property = property.to_string();
    std::thread::spawn(move || {
        loop {
            std::thread::sleep(std::time::Duration::from_secs(2));
            let lim = WD_LIMIT_S.load(Ordering::SeqCst);
            if lim == 0 {
                continue;
            }
            let slots = WD_SLOTS.lock().unwrap();
            for s in slots.iter().flatten() {
                if s.0.elapsed().as_secs() > lim {
                    println!("INCONCLUSIVE property={} HANG-SUSPECT: a case of sub-check {} ran for more than {}s", property, s.1, lim);
                    std::process::exit(2);
                }
            }
        }
    });
}

fn watchdog_enter(name: &str) -> usize {
    if WD_LIMIT_S.load(Ordering::Relaxed) == 0 {
        return usize::MAX;
    }
    let mut slots = WD_SLOTS.lock().unwrap();
    let entry = Some((Instant::now(), name.to_string()));
    if let Some(i) = slots.iter().position(|s| s.is_none()) {
        slots[i] = entry;
        i
    } else {
        slots.push(entry);
        slots.len() - 1
    }
}

fn watchdog_leave(slot: usize) {
    if slot == usize::MAX {
        return;
    }
    WD_SLOTS.lock().unwrap()[slot] = None;
}

// ---------------------------------------------------------------------------
// CLI helper shared by all binaries: `<bin> quick|thorough|--replay <file>`

pub enum Mode {
    Run(String),
    Replay(PathBuf, Value),
    Worker(String),
    Minimize(PathBuf, Value),
}

pub fn parse_mode_from(args: &[String]) -> Mode {
    match args.get(0).map(|s| s.as_str()) {
        Some("quick") => Mode::Run("quick".into()),
        Some("thorough") => Mode::Run("thorough".into()),
        Some("--minimize") => {
            let p = PathBuf::from(args.get(1).expect("--minimize <file>"));
            let s = std::fs::read_to_string(&p).expect("read replay file");
            Mode::Minimize(p, serde_json::from_str(&s).expect("replay JSON"))
        }
        Some("--worker") => Mode::Worker(args.get(1).cloned().unwrap_or_default()),
        Some("--replay") => {
            let p = PathBuf::from(args.get(1).expect("--replay <file>"));
            let s = std::fs::read_to_string(&p).expect("read replay file");
            Mode::Replay(p, serde_json::from_str(&s).expect("replay JSON"))
        }
        _ => {
            eprintln!("usage: vh <property> quick|thorough|--replay <file>");
            std::process::exit(2);
        }
    }
}

/// Collect repository source files (*.dora) from the working tree.
pub fn repo_dora_files() -> Vec<PathBuf> {
    let mut out = vec![];
    for top in ["pkgs", "test", "bench"] {
        walk(&Path::new("/repo").join(top), &mut out);
    }
    out.sort();
    out
}

fn walk(dir: &Path, out: &mut Vec<PathBuf>) {
    let Ok(rd) = std::fs::read_dir(dir) else { return };
    let mut entries: Vec<_> = rd.filter_map(|e| e.ok()).collect();
    entries.sort_by_key(|e| e.path());
    for e in entries {
        let p = e.path();
        if p.is_dir() {
            walk(&p, out);
        } else if p.extension().map(|x| x == "dora").unwrap_or(false) {
            out.push(p);
        }
    }
}
