//! C05 — only well-typed programs are compiled, and all of them are.

use crate::progen::{ir, ir::*, pgen, walk};
use crate::runner::*;
use crate::vcore::*;
use dora_frontend::sema::{Sema, SemaCreationParams};
use serde_json::{Value, json};
use std::time::Duration;

pub const FAULT_CLASSES: &[&str] = &[
    "type-mismatch", "wrong-arg-count", "unknown-name", "inaccessible-name", "immutable-assign", "missing-return",
    "unsatisfied-bound", "type-arg-count", "non-exhaustive-match", "missing-trait-method",
];

#[derive(Clone, Debug)]
pub struct TypeCase {
    pub source: String,
    /// None = well-typed by construction; Some(class) = exactly one static rule broken
    pub fault: Option<String>,
    pub depth: usize,
    pub variant: String,
}

fn count_blocks(p: &mut Program) -> usize {
    let mut n = 0;
    walk::for_each_block(p, &mut |_, _| n += 1);
    n
}

/// insert statements into the k-th block at a position chosen by `pos` (0..=len); returns depth
fn insert_at(p: &mut Program, k: usize, pos_choice: usize, stmts: Vec<Stmt>) -> usize {
    let mut i = 0;
    let mut depth = 0;
    let mut st = Some(stmts);
    walk::for_each_block(p, &mut |b, d| {
        if i == k {
            if let Some(stmts) = st.take() {
                let pos = pos_choice % (b.stmts.len() + 1);
                for (j, s) in stmts.into_iter().enumerate() {
                    b.stmts.insert(pos + j, s);
                }
                depth = d;
            }
        }
        i += 1;
    });
    depth
}

pub fn inject_fault(c: &mut Choices, p: &mut Program) -> (String, usize, String) {
    let class = FAULT_CLASSES[c.below(FAULT_CLASSES.len())];
    let id = 900 + c.below(90);
    let nblocks = count_blocks(p);
    let target = c.below(nblocks);
    let pos = c.below(64);
    let raw = |s: String| Stmt::Raw(s);
    let mut variant = String::new();
    let stmts: Vec<Stmt> = match class {
        "type-mismatch" => {
            let v = c.below(11);
            variant = ["let-int-from-bool", "let-bool-from-string", "argument", "condition", "let-string-from-int", "let-int64-from-int32", "return", "argument-tuple-arity", "argument-lambda-arity", "argument-generic-element", "field-initialiser"][v].into();
            match v {
                7 => {
                    p.raw_items.push(format!("fn zzt{id}(t: (Int64, Int64)): Int64 {{ t.0 }}"));
                    vec![raw(format!("zzt{id}((1, 2, 3));"))]
                }
                8 => {
                    p.raw_items.push(format!("fn zzl{id}(f: (Int64): Int64): Int64 {{ f(1) }}"));
                    vec![raw(format!("let zq{id}: (Int64, Int64): Int64 = |a: Int64, b: Int64|: Int64 {{ a + b }};")), raw(format!("zzl{id}(zq{id});"))]
                }
                9 => vec![raw(format!("let zq{id} = Vec[(Int64, Bool)]::new();")), raw(format!("zq{id}.push((1, true, 2));"))],
                10 => {
                    p.raw_items.push(format!("struct ZzF{id} {{ a: Int64, b: Bool }}"));
                    vec![raw(format!("let zq{id} = ZzF{id}(a = true, b = true);"))]
                }
                0 => vec![raw(format!("let zq{id}: Int64 = true;"))],
                1 => vec![raw(format!("let zq{id}: Bool = \"s\";"))],
                2 => vec![raw("tr(true);".into())],
                3 => vec![raw("if 5 { }".into())],
                4 => vec![raw(format!("let zq{id}: String = 1;"))],
                5 => vec![raw(format!("let zq{id}: Int64 = 5i32;"))],
                _ => {
                    p.raw_items.push(format!("fn zzr{id}(): Int64 {{ true }}"));
                    vec![]
                }
            }
        }
        "wrong-arg-count" => {
            let v = c.below(3);
            variant = ["too-few", "too-many", "constructor"][v].into();
            match v {
                0 => vec![raw("tr();".into())],
                1 => vec![raw("tr(1, 2);".into())],
                _ => vec![raw(format!("let zq{id}: Option[Int64] = Some[Int64](1, 2);"))],
            }
        }
        "unknown-name" => {
            let v = c.below(4);
            variant = ["variable", "function", "type", "method"][v].into();
            match v {
                0 => vec![raw(format!("let zq{id}: Int64 = zz_undefined{id};"))],
                1 => vec![raw(format!("zz_undefined_fn{id}(1);"))],
                2 => vec![raw(format!("let zq{id}: ZzUnknownType{id} = 1;"))],
                _ => vec![raw(format!("let zq{id}: Int64 = tr(1).zz_no_such_method{id}();"))],
            }
        }
        "inaccessible-name" => {
            p.raw_items.push(format!("mod zzm{id} {{ fn hidden(): Int64 {{ 1 }} pub fn shown(): Int64 {{ hidden() }} pub class ZzC {{ secret: Int64 }} pub fn mk(): ZzC {{ ZzC(secret = 1) }} }}"));
            let v = c.below(2);
            variant = ["private-function", "private-field"][v].into();
            match v {
                0 => vec![raw(format!("let zq{id}: Int64 = zzm{id}::hidden();"))],
                _ => vec![raw(format!("let zq{id}: Int64 = zzm{id}::mk().secret;"))],
            }
        }
        "immutable-assign" => {
            let v = c.below(2);
            variant = ["local", "struct-field-of-immutable-local"][v].into();
            match v {
                0 => vec![raw(format!("let zq{id}: Int64 = 1;")), raw(format!("zq{id} = 2;"))],
                _ => {
                    p.raw_items.push(format!("struct ZzS{id} {{ f: Int64 }}"));
                    vec![raw(format!("let zq{id}: ZzS{id} = ZzS{id}(f = 1);")), raw(format!("zq{id}.f = 2;"))]
                }
            }
        }
        "missing-return" => {
            // prefer an existing function with a non-unit return type: drop its tail expression
            let cands: Vec<usize> = (0..p.fns.len()).filter(|&i| p.fns[i].ret != Ty::Unit && p.fns[i].body.tail.is_some()).collect();
            if !cands.is_empty() && c.chance(2, 3) {
                let f = cands[c.below(cands.len())];
                p.fns[f].body.tail = None;
                // keep the body non-diverging: remove unconditional endings (none are generated) — add a harmless let
                p.fns[f].body.stmts.push(raw(format!("let zq{id}: Int64 = 1;")));
                variant = "existing-function".into();
            } else {
                p.raw_items.push(format!("fn zzr{id}(a: Int64): Int64 {{ let b: Int64 = a; }}"));
                variant = "new-function".into();
            }
            vec![]
        }
        "unsatisfied-bound" => {
            p.raw_items.push(format!("trait ZzT{id} {{ fn zt(): Int64; }}\nfn zzb{id}[T: ZzT{id}](x: T): Int64 {{ x.zt() }}"));
            variant = "generic-call".into();
            vec![raw(format!("let zq{id}: Int64 = zzb{id}[Bool](true);"))]
        }
        "type-arg-count" => {
            let v = c.below(3);
            variant = ["class-too-many", "option-too-many", "function-not-generic"][v].into();
            match v {
                0 => vec![raw(format!("let zq{id} = Vec[Int64, Bool]::new();"))],
                1 => vec![raw(format!("let zq{id}: Option[Int64, Int64] = None[Int64];"))],
                _ => vec![raw("tr[Int64](1);".into())],
            }
        }
        "non-exhaustive-match" => {
            let enums: Vec<usize> = (0..p.enums.len()).filter(|&e| p.enums[e].variants.len() >= 2).collect();
            if !enums.is_empty() && c.chance(1, 2) {
                let e = enums[c.below(enums.len())];
                let en = p.enums[e].clone();
                let missing = c.below(en.variants.len());
                let mut arms = String::new();
                for (vi, (vn, ts)) in en.variants.iter().enumerate() {
                    if vi == missing {
                        continue;
                    }
                    let pat = if ts.is_empty() { format!("{}::{}", en.name, vn) } else { format!("{}::{}({})", en.name, vn, vec!["_"; ts.len()].join(", ")) };
                    arms.push_str(&format!("{pat} => {vi}, "));
                }
                let (v0, t0) = &en.variants[0];
                if t0.is_empty() {
                    let ctor = format!("{}::{}", en.name, v0);
                    variant = "user-enum".into();
                    vec![raw(format!("let zq{id}: Int64 = match {ctor} {{ {arms} }};"))]
                } else {
                    let (t, v) = simple_match_text(c, id);
                    variant = v.into();
                    vec![raw(t)]
                }
            } else {
                let (t, v) = simple_match_text(c, id);
                variant = v.into();
                vec![raw(t)]
            }
        }
        _ => {
            // missing trait method: from an existing impl if possible
            let cands: Vec<(usize, usize)> = p.impls.iter().enumerate().flat_map(|(i, im)| im.methods.iter().enumerate().filter(|(mi, m)| m.is_some() && !p.traits[im.trait_id].has_default[*mi]).map(move |(mi, _)| (i, mi)).collect::<Vec<_>>()).collect();
            if !cands.is_empty() && c.chance(2, 3) {
                let (i, mi) = cands[c.below(cands.len())];
                p.impls[i].methods[mi] = None;
                variant = "existing-impl".into();
            } else {
                p.raw_items.push(format!("trait ZzU{id} {{ fn a(): Int64; fn b(): Int64; }}\nclass ZzK{id} {{ v: Int64 }}\nimpl ZzU{id} for ZzK{id} {{ fn a(): Int64 {{ 1 }} }}"));
                variant = "new-impl".into();
            }
            vec![]
        }
    };
    // half of the statement-level faults are moved into an expression position: the faulty statements become the
    // body of a block expression that sits in a guard, a condition, an argument, a string template, a lambda, an
    // index, a tuple element, a scrutinee … (the analyses have to reach every expression position)
    let stmts = if !stmts.is_empty() && c.chance(1, 2) {
        let body: String = stmts.iter().map(|s| if let Stmt::Raw(t) = s { t.clone() } else { String::new() }).collect::<Vec<_>>().join(" ");
        let (text, site) = match c.below(11) {
            0 => (format!("match 1 {{ 1 if {{ {body} true }} => (), _ => () }}"), "match-guard"),
            1 => (format!("if {{ {body} true }} {{ }}"), "if-condition"),
            2 => (format!("while {{ {body} false }} {{ }}"), "while-condition"),
            3 => (format!("tr({{ {body} 1 }});"), "call-argument"),
            4 => (format!("let zw{id}: String = \"a${{ {{ {body} 1 }} }}b\";"), "string-template"),
            5 => (format!("let zw{id}: (): Int64 = ||: Int64 {{ {body} 1 }};"), "lambda-body"),
            6 => (format!("let zw{id} = Array[Int64]::new(1, 2); zw{id}({{ {body} 0 }});"), "array-index"),
            7 => (format!("let zw{id}: (Int64, Int64) = (1, {{ {body} 2 }});"), "tuple-element"),
            8 => (format!("match {{ {body} 1 }} {{ _ => () }}"), "match-scrutinee"),
            9 => (format!("for zi{id} in std::range(0, {{ {body} 1 }}) {{ }}"), "for-iterable"),
            _ => (format!("match 2 {{ 1 => (), _ if {{ {body} false }} => (), _ => () }}"), "wildcard-guard"),
        };
        variant = format!("{variant}@{site}");
        vec![Stmt::Raw(text)]
    } else {
        stmts
    };
    let depth = if stmts.is_empty() { 0 } else { insert_at(p, target, pos, stmts) };
    (class.to_string(), depth, variant)
}

fn simple_match_text(c: &mut Choices, id: usize) -> (String, &'static str) {
    match c.below(4) {
        0 => (format!("let zq{id}: Int64 = match Some[Int64](1) {{ Some(x) => x }};"), "option-missing-none"),
        1 => (format!("let zq{id}: Int64 = match true {{ true => 1 }};"), "bool-missing-false"),
        2 => (format!("let zq{id}: Int64 = match (true, false) {{ (true, _) => 1, (false, true) => 2 }};"), "tuple-missing-combination"),
        _ => (format!("let zq{id}: Int64 = match tr(3) {{ 1 => 1, 2 => 2, x if x > 5 => 3 }};"), "int-guard-does-not-cover"),
    }
}

pub struct FrontEndReport {
    pub accepted: bool,
    pub errors: Vec<String>,
}

/// In-process front end the way the driver runs it: check_program, then (if accepted) emit_program,
/// which runs the bytecode verifier.
pub fn front_end(text: &str) -> Result<FrontEndReport, (String, String)> {
    let t = text.to_string();
    let r = guarded(move || {
        let params = SemaCreationParams::new().set_program_content(t);
        let mut sa = Sema::new(params);
        let ok = dora_frontend::check_program(&mut sa);
        let errors: Vec<String> = sa.diag.borrow().errors().iter().map(|e| e.desc.message.to_string()).collect();
        if ok {
            let _prog = dora_frontend::emit_program(sa);
        }
        FrontEndReport { accepted: ok, errors }
    });
    r.map_err(|p| (p.key(), format!("front end / bytecode emission / verifier panicked: {} at {}\n{}", p.message, p.location, crate::c06::trim_bt(&p.backtrace))))
}

pub struct Typing {
    pub tools: Tools,
    /// also push every n-th case through the real driver (0 = never)
    pub driver_every: u64,
}

impl Prop for Typing {
    type Case = TypeCase;
    fn name(&self) -> &str {
        "typing"
    }
    fn generate(&self, c: &mut Choices) -> TypeCase {
        let negative = c.chance(2, 3);
        let mut p = pgen::generate(c, pgen::Profile::Core);
        if negative {
            let (class, depth, variant) = inject_fault(c, &mut p);
            TypeCase { source: ir::print_program(&p), fault: Some(class), depth, variant }
        } else {
            TypeCase { source: ir::print_program(&p), fault: None, depth: 0, variant: String::new() }
        }
    }
    fn eval(&self, case: &TypeCase) -> Outcome {
        let h = hash64(&case.source);
        let rep = match front_end(&case.source) {
            Ok(r) => r,
            Err((k, m)) => return Outcome::fail(h, format!("internal-error:{k}"), m),
        };
        let through_driver = self.driver_every > 0 && h % self.driver_every == 0;
        match &case.fault {
            None => {
                if !rep.accepted {
                    return Outcome::fail(h, format!("well-typed-rejected:{}", normalise_msg(rep.errors.first().map(|s| s.as_str()).unwrap_or("?"))), format!("a program that is well typed by construction was rejected: {:?}", rep.errors.iter().take(3).collect::<Vec<_>>()));
                }
                if through_driver {
                    let scratch = Scratch::new("c05");
                    let src = scratch.file("prog.dora");
                    std::fs::write(&src, &case.source).unwrap();
                    for b in Backend::BOTH {
                        let out = scratch.file(&format!("a-{}", b.name()));
                        let mut extra = vec!["-S".to_string()];
                        if b == Backend::Cannon {
                            extra.clear();
                            extra.push("-S".into());
                        }
                        let cr = compile(&self.tools, &src, &out, b, &CompileOpts { gc: None, extra }, Duration::from_secs(180));
                        if cr.timed_out {
                            return Outcome { inconclusive: Some("compile timed out".into()), hash: h, ..Default::default() };
                        }
                        if !cr.ok() {
                            let err = cr.stderr_str();
                            return Outcome::fail(h, format!("codegen-internal-error:{}:{}", b.name(), crate::c01::compile_failure_signature(&err)), format!("{} code generator failed on a well-typed program\n{}", b.name(), truncate_str(&crate::c01::strip_warnings(&err), 2000)));
                        }
                    }
                }
                Outcome::pass(h, true).class("positive").class_if(through_driver, "positive-through-driver-both-generators")
            }
            Some(class) => {
                if rep.accepted {
                    return Outcome::fail(h, format!("ill-typed-accepted:{class}:{}", case.variant), format!("a program with exactly one injected `{class}` fault ({}) was accepted without an error diagnostic", case.variant));
                }
                if through_driver {
                    let scratch = Scratch::new("c05");
                    let src = scratch.file("prog.dora");
                    std::fs::write(&src, &case.source).unwrap();
                    let pkg = scratch.file("out.dora-package");
                    let mut cmd = std::process::Command::new(self.tools.dora());
                    cmd.arg("compile").arg("-c").arg(&src).arg("-o").arg(&pkg).env_remove("DORA_FLAGS").current_dir(&scratch.path);
                    let r = run_cmd(cmd, Duration::from_secs(120));
                    if r.status == Some(0) || pkg.exists() {
                        return Outcome::fail(h, format!("ill-typed-emitted:{class}"), format!("`dora compile -c` exit status {:?}, package written: {}", r.status, pkg.exists()));
                    }
                    if r.signal.is_some() || r.stderr_str().contains("panicked at") {
                        return Outcome::fail(h, format!("driver-crash:{}", crate::c01::compile_failure_signature(&r.stderr_str())), format!("driver crashed instead of reporting the error: {}", truncate_str(&r.stderr_str(), 1500)));
                    }
                }
                Outcome::pass(h, case.depth >= 2)
                    .class("negative")
                    .class(format!("fault:{class}"))
                    .class(format!("fault:{class}/{}", case.variant))
                    .class_if(case.depth >= 2, "negative-nested>=2")
                    .class_if(through_driver, "negative-through-driver")
            }
        }
    }
    fn render(&self, case: &TypeCase) -> Value {
        json!({"source": case.source, "fault": case.fault, "depth": case.depth, "variant": case.variant})
    }
    fn from_rendered(&self, v: &Value) -> Option<TypeCase> {
        Some(TypeCase { source: v["source"].as_str()?.into(), fault: v["fault"].as_str().map(String::from), depth: v["depth"].as_u64().unwrap_or(0) as usize, variant: v["variant"].as_str().unwrap_or("").into() })
    }
}

pub fn main(mode: Mode) -> i32 {
    let p = Typing { tools: Tools::release(), driver_every: 12 };
    let iso = crate::isolate::IsolatedProp {
        inner: &p,
        pool: crate::isolate::Pool::new("C05", "typing", 300),
        crash_key: Box::new(|_case: &TypeCase, _sig, stderr: &str| format!("crash:{}", if stderr.contains("overflowed its stack") { "stack-overflow" } else { "abort" })),
    };
    match mode {
        Mode::Worker(_) => crate::isolate::worker_loop(&p),
        Mode::Minimize(_, doc) => {
            let mut ctx = Ctx::new("C05", "quick");
            ctx.minimize_stored(&iso, &doc, 300)
        }
        Mode::Replay(_, doc) => {
            let mut ctx = Ctx::new("C05", "quick");
            ctx.replay(&iso, &doc)
        }
        Mode::Run(tier) => {
            let mut ctx = Ctx::new("C05", &tier);
            if !p.tools.has_boots() {
                println!("INCONCLUSIVE property=C05 the optimizing compiler could not be bootstrapped from this tree");
                return 2;
            }
            ctx.rule = "cases: programs of the typed generator of C01 (well typed by construction: positive cases) and single-fault mutants of them (negative cases): exactly one static rule of one of 10 classes is broken at a random block of the program (main, function, method, impl, lambda, loop, branch and match-arm bodies; generic functions included) — type mismatch (let/argument/condition/return), wrong argument count, unknown name (variable/function/type/method), inaccessible name (private function / private field of a module), assignment to an immutable binding or to a field of an immutable struct, missing return value (existing or new function), unsatisfied trait bound, wrong type-argument count, non-exhaustive match (user enum / Option / Bool / tuple / guarded ints), missing trait method (existing or new impl). oracle: positive -> check_program reports no error, emit_program (which runs the bytecode verifier) completes, and for a sample both code generators compile it; negative -> at least one error diagnostic, and for a sample `dora compile -c` exits non-zero without writing a package and without crashing. non-trivial = positive case, or negative case whose fault site is nested >= 2 block levels deep; distinct by source hash".into();
            ctx.assumptions = vec!["fault statements are self-contained so that inference cannot absorb them".into()];
            ctx.run_regressions(&iso);
            ctx.run_known_reproducers(&iso);
            let n = ctx.n(1500, 30000);
            ctx.run_search(&iso, n, 2600, 60);
            for c in FAULT_CLASSES {
                ctx.require_class(&format!("typing/fault:{c}"));
            }
            ctx.require_class("typing/positive");
            ctx.require_class("typing/negative-nested>=2");
            ctx.finish()
        }
    }
}
