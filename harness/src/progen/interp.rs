//! Reference interpreter for RefDora, written from the language rules stated
//! in property C01 (never from the compiler's code).

use super::ir::*;
use std::cell::RefCell;
use std::collections::HashMap;
use std::rc::Rc;

#[derive(Clone, Debug)]
pub enum Val {
    Unit,
    Bool(bool),
    U8(u8),
    Char(char),
    I32(i32),
    I64(i64),
    F32(f32),
    F64(f64),
    Str(Rc<String>),
    Tuple(Vec<Val>),
    Struct(usize, Vec<Val>),
    Enum(usize, usize, Vec<Val>),
    Opt(Option<Box<Val>>),
    Obj(Rc<ObjData>),
    Arr(Rc<RefCell<Vec<Val>>>),
    Vect(Rc<RefCell<Vec<Val>>>),
    Fun(Rc<Closure>),
    /// trait object: inner value (class ref or boxed struct copy)
    Dyn(Rc<Val>),
}

#[derive(Debug)]
pub struct ObjData {
    pub class: usize, // usize::MAX = Bx
    pub fields: RefCell<Vec<Val>>,
}

pub struct Closure {
    pub params: Vec<String>,
    pub body: Block,
    pub env: Env,
}

impl std::fmt::Debug for Closure {
    fn fmt(&self, f: &mut std::fmt::Formatter<'_>) -> std::fmt::Result {
        write!(f, "<closure>")
    }
}

type Cell = Rc<RefCell<Val>>;

#[derive(Clone, Default)]
pub struct Env {
    vars: Vec<(String, Cell)>,
}

impl Env {
    fn get(&self, n: &str) -> Cell {
        for (k, c) in self.vars.iter().rev() {
            if k == n {
                return c.clone();
            }
        }
        panic!("interp: unbound variable {n}");
    }
    fn bind(&mut self, n: &str, v: Val) {
        self.vars.push((n.to_string(), Rc::new(RefCell::new(v))));
    }
}

#[derive(Clone, Debug, PartialEq)]
pub enum Stop {
    /// trap status (101..110)
    Trap(i32),
    /// fatal_error / get_or_panic on None …: status 1
    Fatal(String),
    Exit(i32),
    Break,
    Continue,
    Return(Val2),
    StepLimit,
}

/// Val is not PartialEq (closures); wrap for Stop
#[derive(Clone, Debug)]
pub struct Val2(pub Val);
impl PartialEq for Val2 {
    fn eq(&self, _: &Self) -> bool {
        true
    }
}

pub struct Interp<'a> {
    pub p: &'a Program,
    pub out: String,
    pub steps: u64,
    pub max_steps: u64,
    pub globals: Vec<Cell>,
    pub stats: HashMap<&'static str, u64>,
}

#[derive(Clone, Debug, PartialEq)]
pub struct Expected {
    pub stdout: String,
    /// exit status
    pub status: i32,
    /// first stderr line for traps / fatal
    pub message: Option<String>,
    pub kind: &'static str, // "exit" | "trap" | "fatal"
}

pub fn trap_message(code: i32) -> &'static str {
    match code {
        101 => "division by 0",
        102 => "assert failed",
        103 => "array index out of bounds",
        104 => "nil check failed",
        105 => "cast failed",
        106 => "out of memory",
        107 => "stack overflow",
        108 => "illegal state",
        109 => "overflow",
        110 => "shift amount out of bounds",
        _ => "?",
    }
}

type R = Result<Val, Stop>;

pub fn fmt_f64(v: f64) -> String {
    format!("{}", v)
}
pub fn fmt_f32(v: f32) -> String {
    format!("{}", v)
}

impl<'a> Interp<'a> {
    pub fn new(p: &'a Program, max_steps: u64) -> Self {
        Interp { p, out: String::new(), steps: 0, max_steps, globals: vec![], stats: HashMap::new() }
    }

    fn tick(&mut self) -> Result<(), Stop> {
        self.steps += 1;
        if self.steps > self.max_steps || self.out.len() > 200_000 { Err(Stop::StepLimit) } else { Ok(()) }
    }

    fn stat(&mut self, k: &'static str) {
        *self.stats.entry(k).or_insert(0) += 1;
    }

    /// Run the program; None if the step limit was exceeded.
    pub fn run(mut self) -> (Option<Expected>, HashMap<&'static str, u64>) {
        // globals are initialised before main, in declaration order
        for g in &self.p.globals {
            let mut env = Env::default();
            match self.expr(&g.init, &mut env) {
                Ok(v) => self.globals.push(Rc::new(RefCell::new(v))),
                Err(s) => {
                    let e = self.finish(Err(s));
                    return (e, self.stats);
                }
            }
        }
        let mut env = Env::default();
        let main = self.p.main.clone();
        let r = self.block(&main, &mut env);
        let e = self.finish(r);
        (e, self.stats)
    }

    fn finish(&mut self, r: R) -> Option<Expected> {
        let out = std::mem::take(&mut self.out);
        match r {
            Ok(v) | Err(Stop::Return(Val2(v))) => {
                let status = if self.p.main_returns_i32 {
                    match v {
                        Val::I32(x) => x & 0xff,
                        _ => 0,
                    }
                } else {
                    0
                };
                Some(Expected { stdout: out, status, message: None, kind: "exit" })
            }
            Err(Stop::Trap(c)) => Some(Expected { stdout: out, status: c, message: Some(trap_message(c).to_string()), kind: "trap" }),
            Err(Stop::Fatal(m)) => Some(Expected { stdout: out, status: 1, message: Some(m), kind: "fatal" }),
            Err(Stop::Exit(c)) => Some(Expected { stdout: out, status: c & 0xff, message: None, kind: "exit" }),
            Err(Stop::StepLimit) => None,
            Err(Stop::Break) | Err(Stop::Continue) => panic!("interp: break/continue escaped"),
        }
    }

    pub fn to_display(&self, v: &Val) -> String {
        match v {
            Val::Unit => "()".into(),
            Val::Bool(b) => b.to_string(),
            Val::U8(x) => x.to_string(),
            Val::Char(c) => c.to_string(),
            Val::I32(x) => x.to_string(),
            Val::I64(x) => x.to_string(),
            Val::F32(x) => fmt_f32(*x),
            Val::F64(x) => fmt_f64(*x),
            Val::Str(s) => s.to_string(),
            _ => panic!("interp: to_display on composite"),
        }
    }

    fn block(&mut self, b: &Block, env: &mut Env) -> R {
        let mark = env.vars.len();
        let r = self.block_inner(b, env);
        env.vars.truncate(mark);
        r
    }

    fn block_inner(&mut self, b: &Block, env: &mut Env) -> R {
        for s in &b.stmts {
            self.stmt(s, env)?;
        }
        match &b.tail {
            Some(e) => self.expr(e, env),
            None => Ok(Val::Unit),
        }
    }

    fn int_bin(&mut self, op: BinOp, a: &Val, b: &Val) -> R {
        macro_rules! arith {
            ($x:expr, $y:expr, $wrap:path, $t:ty) => {{
                let (x, y): ($t, $t) = ($x, $y);
                let r = match op {
                    BinOp::Add => x.checked_add(y).ok_or(Stop::Trap(109))?,
                    BinOp::Sub => x.checked_sub(y).ok_or(Stop::Trap(109))?,
                    BinOp::Mul => x.checked_mul(y).ok_or(Stop::Trap(109))?,
                    BinOp::Div => {
                        if y == 0 {
                            return Err(Stop::Trap(101));
                        }
                        x.checked_div(y).ok_or(Stop::Trap(109))?
                    }
                    BinOp::Mod => {
                        if y == 0 {
                            return Err(Stop::Trap(101));
                        }
                        x.checked_rem(y).ok_or(Stop::Trap(109))?
                    }
                    BinOp::BitOr => x | y,
                    BinOp::BitAnd => x & y,
                    BinOp::BitXor => x ^ y,
                    _ => unreachable!(),
                };
                Ok($wrap(r))
            }};
        }
        match (a, b) {
            (Val::I64(x), Val::I64(y)) => arith!(*x, *y, Val::I64, i64),
            (Val::I32(x), Val::I32(y)) => arith!(*x, *y, Val::I32, i32),
            _ => panic!("interp: int_bin on {a:?} {b:?}"),
        }
    }

    fn shift(&mut self, op: BinOp, a: &Val, b: &Val) -> R {
        let amt = match b {
            Val::I32(x) => *x,
            _ => panic!("interp: shift amount"),
        };
        match a {
            Val::I64(x) => {
                if !(0..64).contains(&amt) {
                    return Err(Stop::Trap(110));
                }
                Ok(Val::I64(match op {
                    BinOp::Shl => x.wrapping_shl(amt as u32),
                    BinOp::Sar => x >> amt,
                    BinOp::Shr => ((*x as u64) >> amt) as i64,
                    _ => unreachable!(),
                }))
            }
            Val::I32(x) => {
                if !(0..32).contains(&amt) {
                    return Err(Stop::Trap(110));
                }
                Ok(Val::I32(match op {
                    BinOp::Shl => x.wrapping_shl(amt as u32),
                    BinOp::Sar => x >> amt,
                    BinOp::Shr => ((*x as u32) >> amt) as i32,
                    _ => unreachable!(),
                }))
            }
            _ => panic!("interp: shift on {a:?}"),
        }
    }

    fn cmp(&self, op: BinOp, a: &Val, b: &Val) -> bool {
        use std::cmp::Ordering::*;
        let ord = match (a, b) {
            (Val::I64(x), Val::I64(y)) => x.partial_cmp(y),
            (Val::I32(x), Val::I32(y)) => x.partial_cmp(y),
            (Val::U8(x), Val::U8(y)) => x.partial_cmp(y),
            (Val::Char(x), Val::Char(y)) => x.partial_cmp(y),
            (Val::F64(x), Val::F64(y)) => x.partial_cmp(y),
            (Val::F32(x), Val::F32(y)) => x.partial_cmp(y),
            (Val::Bool(x), Val::Bool(y)) => x.partial_cmp(y),
            (Val::Str(x), Val::Str(y)) => x.partial_cmp(y),
            _ => panic!("interp: cmp on {a:?} {b:?}"),
        };
        match op {
            BinOp::Eq => ord == Some(Equal),
            BinOp::Ne => ord != Some(Equal),
            BinOp::Lt => ord == Some(Less),
            BinOp::Le => matches!(ord, Some(Less) | Some(Equal)),
            BinOp::Gt => ord == Some(Greater),
            BinOp::Ge => matches!(ord, Some(Greater) | Some(Equal)),
            _ => unreachable!(),
        }
    }

    fn same(a: &Val, b: &Val) -> bool {
        match (a, b) {
            (Val::Obj(x), Val::Obj(y)) => Rc::ptr_eq(x, y),
            (Val::Arr(x), Val::Arr(y)) => Rc::ptr_eq(x, y),
            (Val::Vect(x), Val::Vect(y)) => Rc::ptr_eq(x, y),
            (Val::Fun(x), Val::Fun(y)) => Rc::ptr_eq(x, y),
            _ => panic!("interp: === on {a:?}"),
        }
    }

    fn bin(&mut self, op: BinOp, a: &Expr, b: &Expr, env: &mut Env) -> R {
        match op {
            BinOp::And => {
                let l = self.expr(a, env)?;
                if let Val::Bool(false) = l {
                    return Ok(Val::Bool(false));
                }
                return self.expr(b, env);
            }
            BinOp::Or => {
                let l = self.expr(a, env)?;
                if let Val::Bool(true) = l {
                    return Ok(Val::Bool(true));
                }
                return self.expr(b, env);
            }
            _ => {}
        }
        // strict left-to-right
        let l = self.expr(a, env)?;
        let r = self.expr(b, env)?;
        self.bin_vals(op, &l, &r)
    }

    fn bin_vals(&mut self, op: BinOp, l: &Val, r: &Val) -> R {
        match op {
            BinOp::Add | BinOp::Sub | BinOp::Mul | BinOp::Div | BinOp::Mod => match (l, r) {
                (Val::F64(x), Val::F64(y)) => Ok(Val::F64(match op {
                    BinOp::Add => x + y,
                    BinOp::Sub => x - y,
                    BinOp::Mul => x * y,
                    BinOp::Div => x / y,
                    _ => panic!("interp: float mod"),
                })),
                (Val::F32(x), Val::F32(y)) => Ok(Val::F32(match op {
                    BinOp::Add => x + y,
                    BinOp::Sub => x - y,
                    BinOp::Mul => x * y,
                    BinOp::Div => x / y,
                    _ => panic!("interp: float mod"),
                })),
                _ => {
                    self.stat("checked-arith");
                    let r = self.int_bin(op, l, r);
                    if r.is_err() {
                        self.stat("trapping-op");
                    }
                    r
                }
            },
            BinOp::BitOr | BinOp::BitAnd | BinOp::BitXor => match (l, r) {
                (Val::Bool(x), Val::Bool(y)) => Ok(Val::Bool(match op {
                    BinOp::BitOr => x | y,
                    BinOp::BitAnd => x & y,
                    _ => x ^ y,
                })),
                _ => self.int_bin(op, l, r),
            },
            BinOp::Shl | BinOp::Sar | BinOp::Shr => {
                let r = self.shift(op, l, r);
                if r.is_err() {
                    self.stat("trapping-op");
                }
                r
            }
            BinOp::Eq | BinOp::Ne | BinOp::Lt | BinOp::Le | BinOp::Gt | BinOp::Ge => Ok(Val::Bool(self.cmp(op, l, r))),
            BinOp::Same => Ok(Val::Bool(Self::same(l, r))),
            BinOp::NotSame => Ok(Val::Bool(!Self::same(l, r))),
            BinOp::And | BinOp::Or => unreachable!(),
        }
    }

    fn intrinsic(&mut self, name: &str, recv: Val, args: Vec<Val>) -> R {
        let a0 = args.first().cloned();
        Ok(match (name, &recv) {
            ("wrapping_add", Val::I64(x)) => Val::I64(x.wrapping_add(i64v(&a0))),
            ("wrapping_sub", Val::I64(x)) => Val::I64(x.wrapping_sub(i64v(&a0))),
            ("wrapping_mul", Val::I64(x)) => Val::I64(x.wrapping_mul(i64v(&a0))),
            ("wrapping_neg", Val::I64(x)) => Val::I64(x.wrapping_neg()),
            ("wrapping_add", Val::I32(x)) => Val::I32(x.wrapping_add(i32v(&a0))),
            ("wrapping_sub", Val::I32(x)) => Val::I32(x.wrapping_sub(i32v(&a0))),
            ("wrapping_mul", Val::I32(x)) => Val::I32(x.wrapping_mul(i32v(&a0))),
            ("wrapping_neg", Val::I32(x)) => Val::I32(x.wrapping_neg()),
            ("overflowing_add", Val::I64(x)) => {
                let (r, o) = x.overflowing_add(i64v(&a0));
                Val::Tuple(vec![Val::I64(r), Val::Bool(o)])
            }
            ("overflowing_sub", Val::I64(x)) => {
                let (r, o) = x.overflowing_sub(i64v(&a0));
                Val::Tuple(vec![Val::I64(r), Val::Bool(o)])
            }
            ("overflowing_mul", Val::I64(x)) => {
                let (r, o) = x.overflowing_mul(i64v(&a0));
                Val::Tuple(vec![Val::I64(r), Val::Bool(o)])
            }
            ("overflowing_add", Val::I32(x)) => {
                let (r, o) = x.overflowing_add(i32v(&a0));
                Val::Tuple(vec![Val::I32(r), Val::Bool(o)])
            }
            ("overflowing_sub", Val::I32(x)) => {
                let (r, o) = x.overflowing_sub(i32v(&a0));
                Val::Tuple(vec![Val::I32(r), Val::Bool(o)])
            }
            ("overflowing_mul", Val::I32(x)) => {
                let (r, o) = x.overflowing_mul(i32v(&a0));
                Val::Tuple(vec![Val::I32(r), Val::Bool(o)])
            }
            ("to_int64", Val::I32(x)) => Val::I64(*x as i64),
            ("to_int64", Val::U8(x)) => Val::I64(*x as i64),
            ("to_int32", Val::I64(x)) => Val::I32(*x as i32),
            ("to_int32", Val::U8(x)) => Val::I32(*x as i32),
            ("to_uint8", Val::I64(x)) => Val::U8(*x as u8),
            ("to_uint8", Val::I32(x)) => Val::U8(*x as u8),
            ("to_float64", Val::I64(x)) => Val::F64(*x as f64),
            ("to_float64", Val::I32(x)) => Val::F64(*x as f64),
            ("to_float64", Val::F32(x)) => Val::F64(*x as f64),
            ("to_float32", Val::I64(x)) => Val::F32(*x as f32),
            ("to_float32", Val::I32(x)) => Val::F32(*x as f32),
            ("to_float32", Val::F64(x)) => Val::F32(*x as f32),
            ("abs", Val::F64(x)) => Val::F64(x.abs()),
            ("sqrt", Val::F64(x)) => Val::F64(x.sqrt()),
            ("size", Val::Str(s)) => Val::I64(s.len() as i64),
            _ => panic!("interp: unknown intrinsic {name} on {recv:?}"),
        })
    }

    fn call_fn(&mut self, f: &FnDef, this: Option<Val>, args: Vec<Val>) -> R {
        self.tick()?;
        let mut env = Env::default();
        if let Some(t) = this {
            env.bind("self", t);
        }
        for ((n, _), v) in f.params.iter().zip(args.into_iter()) {
            env.bind(n, v);
        }
        match self.block(&f.body, &mut env) {
            Err(Stop::Return(Val2(v))) => Ok(v),
            other => other,
        }
    }

    /// find the method implementing trait `t`'s method `m` for the dynamic value `recv`
    fn trait_dispatch(&mut self, recv: &Val, t: usize, m: usize, args: Vec<Val>) -> R {
        let inner = match recv {
            Val::Dyn(v) => (**v).clone(),
            v => v.clone(),
        };
        let for_ty = match &inner {
            Val::Struct(s, _) => Ty::Struct(*s),
            Val::Obj(o) => Ty::Class(o.class),
            Val::I64(_) => Ty::I64,
            Val::I32(_) => Ty::I32,
            Val::Bool(_) => Ty::Bool,
            v => panic!("interp: trait dispatch on {v:?}"),
        };
        let p = self.p;
        let im = p.impls.iter().find(|i| i.trait_id == t && i.for_ty == for_ty).unwrap_or_else(|| panic!("interp: no impl of trait {t} for {for_ty:?}"));
        let def = match &im.methods[m] {
            Some(d) => d,
            None => &p.traits[t].methods[m],
        };
        self.stat("trait-dispatch");
        self.call_fn(def, Some(inner), args)
    }

    fn args(&mut self, es: &[Expr], env: &mut Env) -> Result<Vec<Val>, Stop> {
        let mut v = Vec::with_capacity(es.len());
        for e in es {
            v.push(self.expr(e, env)?);
        }
        Ok(v)
    }

    fn index_check(len: usize, idx: &Val) -> Result<usize, Stop> {
        let i = match idx {
            Val::I64(i) => *i,
            _ => panic!("interp: index type"),
        };
        if i < 0 || i as u64 >= len as u64 { Err(Stop::Trap(103)) } else { Ok(i as usize) }
    }

    fn match_pat(&self, p: &Pat, v: &Val, binds: &mut Vec<(String, Val)>) -> bool {
        match (p, v) {
            (Pat::Wild, _) => true,
            (Pat::Bind(n), v) => {
                binds.push((n.clone(), v.clone()));
                true
            }
            (Pat::LitI64(a), Val::I64(b)) => a == b,
            (Pat::LitI32(a), Val::I32(b)) => a == b,
            (Pat::LitBool(a), Val::Bool(b)) => a == b,
            (Pat::Tuple(ps), Val::Tuple(vs)) => ps.iter().zip(vs.iter()).all(|(p, v)| self.match_pat(p, v, binds)),
            (Pat::Variant(_, var, ps), Val::Enum(_, v2, vs)) => var == v2 && ps.iter().zip(vs.iter()).all(|(p, v)| self.match_pat(p, v, binds)),
            (Pat::Some(p), Val::Opt(Some(v))) => self.match_pat(p, v, binds),
            (Pat::Some(_), Val::Opt(None)) => false,
            (Pat::None, Val::Opt(o)) => o.is_none(),
            _ => panic!("interp: pattern {p:?} against {v:?}"),
        }
    }

    pub fn expr(&mut self, e: &Expr, env: &mut Env) -> R {
        self.tick()?;
        match e {
            Expr::Lit(l) => Ok(match l {
                Lit::Unit => Val::Unit,
                Lit::Bool(b) => Val::Bool(*b),
                Lit::U8(v) => Val::U8(*v),
                Lit::Char(c) => Val::Char(*c),
                Lit::I32(v) => Val::I32(*v),
                Lit::I64(v) => Val::I64(*v),
                Lit::F32(v) => Val::F32(*v),
                Lit::F64(v) => Val::F64(*v),
                Lit::Str(s) => Val::Str(Rc::new(s.clone())),
            }),
            Expr::Var(n) => Ok(env.get(n).borrow().clone()),
            Expr::Global(i) => Ok(self.globals[*i].borrow().clone()),
            Expr::Bin(op, a, b) => self.bin(*op, a, b, env),
            Expr::Neg(a) => match self.expr(a, env)? {
                Val::I64(x) => x.checked_neg().map(Val::I64).ok_or(Stop::Trap(109)),
                Val::I32(x) => x.checked_neg().map(Val::I32).ok_or(Stop::Trap(109)),
                Val::F64(x) => Ok(Val::F64(-x)),
                Val::F32(x) => Ok(Val::F32(-x)),
                v => panic!("interp: neg {v:?}"),
            },
            Expr::Not(a) => match self.expr(a, env)? {
                Val::Bool(b) => Ok(Val::Bool(!b)),
                Val::I64(x) => Ok(Val::I64(!x)),
                Val::I32(x) => Ok(Val::I32(!x)),
                v => panic!("interp: not {v:?}"),
            },
            Expr::Intrinsic(name, r, args) => {
                let recv = self.expr(r, env)?;
                let a = self.args(args, env)?;
                self.intrinsic(name, recv, a)
            }
            Expr::Call(f, _targs, args) if *f == usize::MAX => {
                let a = self.args(args, env)?;
                let k = match &a[0] {
                    Val::I64(k) => *k,
                    v => panic!("interp: tr arg {v:?}"),
                };
                self.out.push_str(&format!("t{k}\n"));
                self.stat("trace");
                Ok(Val::I64(k))
            }
            Expr::Call(f, _targs, args) => {
                let a = self.args(args, env)?;
                let def = &self.p.fns[*f];
                if !def.tparams.is_empty() {
                    self.stat("generic-call");
                }
                self.call_fn(def, None, a)
            }
            Expr::Method(r, owner, m, args) => {
                let recv = self.expr(r, env)?;
                let a = self.args(args, env)?;
                let p = self.p;
                let def = match owner {
                    Ty::Struct(s) => &p.structs[*s].methods[*m],
                    Ty::Class(c) => &p.classes[*c].methods[*m],
                    _ => panic!("interp: method owner"),
                };
                self.call_fn(def, Some(recv), a)
            }
            Expr::TraitCall(r, t, m, args) => {
                let recv = self.expr(r, env)?;
                let a = self.args(args, env)?;
                self.trait_dispatch(&recv, *t, *m, a)
            }
            Expr::Tuple(es) => Ok(Val::Tuple(self.args(es, env)?)),
            Expr::TupleGet(a, i) => match self.expr(a, env)? {
                Val::Tuple(vs) => Ok(vs[*i].clone()),
                v => panic!("interp: tuple get on {v:?}"),
            },
            Expr::StructNew(s, es) => Ok(Val::Struct(*s, self.args(es, env)?)),
            Expr::ClassNew(c, es) => {
                let f = self.args(es, env)?;
                Ok(Val::Obj(Rc::new(ObjData { class: *c, fields: RefCell::new(f) })))
            }
            Expr::BoxNew(_, e) => {
                let v = self.expr(e, env)?;
                Ok(Val::Obj(Rc::new(ObjData { class: usize::MAX, fields: RefCell::new(vec![v]) })))
            }
            Expr::Field(a, _owner, i) => match self.expr(a, env)? {
                Val::Struct(_, fs) => Ok(fs[*i].clone()),
                Val::Obj(o) => Ok(o.fields.borrow()[*i].clone()),
                v => panic!("interp: field of {v:?}"),
            },
            Expr::EnumNew(en, v, es) => Ok(Val::Enum(*en, *v, self.args(es, env)?)),
            Expr::ArrayNew(_, es) => Ok(Val::Arr(Rc::new(RefCell::new(self.args(es, env)?)))),
            Expr::ArrayFill(_, n, v) => {
                let n = self.expr(n, env)?;
                let v = self.expr(v, env)?;
                let n = match n {
                    Val::I64(n) => n,
                    _ => panic!("interp: fill len"),
                };
                assert!((0..=10_000).contains(&n), "interp: generator must keep Array::fill lengths sane");
                Ok(Val::Arr(Rc::new(RefCell::new(vec![v; n as usize]))))
            }
            Expr::Index(a, i) => {
                let a = self.expr(a, env)?;
                let i = self.expr(i, env)?;
                match a {
                    Val::Arr(v) => {
                        let v = v.borrow();
                        let k = Self::index_check(v.len(), &i).inspect_err(|_| self.stat("trapping-op"))?;
                        Ok(v[k].clone())
                    }
                    Val::Vect(v) => {
                        let v = v.borrow();
                        // Vec index out of range: fatal_error("index out of bounds for vector") => status 1
                        match Self::index_check(v.len(), &i) {
                            Ok(k) => Ok(v[k].clone()),
                            Err(_) => Err(Stop::Fatal("index out of bounds for vector".into())),
                        }
                    }
                    v => panic!("interp: index on {v:?}"),
                }
            }
            Expr::Len(a) => match self.expr(a, env)? {
                Val::Arr(v) | Val::Vect(v) => Ok(Val::I64(v.borrow().len() as i64)),
                Val::Str(s) => Ok(Val::I64(s.len() as i64)),
                v => panic!("interp: len on {v:?}"),
            },
            Expr::VecNew(_) => Ok(Val::Vect(Rc::new(RefCell::new(vec![])))),
            Expr::Some(_, e) => Ok(Val::Opt(Some(Box::new(self.expr(e, env)?)))),
            Expr::None(_) => Ok(Val::Opt(None)),
            Expr::Unwrap(e) => match self.expr(e, env)? {
                Val::Opt(Some(v)) => Ok(*v),
                Val::Opt(None) => Err(Stop::Fatal("cannot unwrap None.".into())),
                v => panic!("interp: unwrap {v:?}"),
            },
            Expr::IsSome(e) => match self.expr(e, env)? {
                Val::Opt(o) => Ok(Val::Bool(o.is_some())),
                v => panic!("interp: is_some {v:?}"),
            },
            Expr::If(c, t, f) => match self.expr(c, env)? {
                Val::Bool(true) => self.block(t, env),
                Val::Bool(false) => self.block(f, env),
                v => panic!("interp: if cond {v:?}"),
            },
            Expr::Match(s, arms) => {
                let v = self.expr(s, env)?;
                self.stat("match");
                for a in arms {
                    let mut binds = vec![];
                    if self.match_pat(&a.pat, &v, &mut binds) {
                        let mark = env.vars.len();
                        for (n, bv) in binds {
                            env.bind(&n, bv);
                        }
                        if let Some(g) = &a.guard {
                            match self.expr(g, env) {
                                Ok(Val::Bool(true)) => {}
                                Ok(Val::Bool(false)) => {
                                    env.vars.truncate(mark);
                                    continue;
                                }
                                Ok(v) => panic!("interp: guard {v:?}"),
                                Err(s) => {
                                    env.vars.truncate(mark);
                                    return Err(s);
                                }
                            }
                        }
                        let r = self.expr(&a.body, env);
                        env.vars.truncate(mark);
                        return r;
                    }
                }
                panic!("interp: non-exhaustive match generated");
            }
            Expr::Block(b) => self.block(b, env),
            Expr::Lambda(ps, _ret, body) => {
                self.stat("closure-created");
                Ok(Val::Fun(Rc::new(Closure { params: ps.iter().map(|p| p.0.clone()).collect(), body: (**body).clone(), env: env.clone() })))
            }
            Expr::CallValue(f, args) => {
                let fv = self.expr(f, env)?;
                let a = self.args(args, env)?;
                match fv {
                    Val::Fun(c) => {
                        self.tick()?;
                        self.stat("closure-call");
                        let mut cenv = c.env.clone();
                        for (n, v) in c.params.iter().zip(a.into_iter()) {
                            cenv.bind(n, v);
                        }
                        match self.block(&c.body, &mut cenv) {
                            Err(Stop::Return(Val2(v))) => Ok(v),
                            other => other,
                        }
                    }
                    v => panic!("interp: call of {v:?}"),
                }
            }
            Expr::AsDyn(e, _t) => {
                let v = self.expr(e, env)?;
                Ok(Val::Dyn(Rc::new(v)))
            }
            Expr::Template(parts) => {
                let mut s = String::new();
                for p in parts {
                    match p {
                        TemplatePart::Text(t) => s.push_str(t),
                        TemplatePart::Expr(e) => {
                            let v = self.expr(e, env)?;
                            s.push_str(&self.to_display(&v));
                        }
                    }
                }
                Ok(Val::Str(Rc::new(s)))
            }
            Expr::ToString(e) => {
                let v = self.expr(e, env)?;
                Ok(Val::Str(Rc::new(self.to_display(&v))))
            }
        }
    }

    fn assign_path(target: &mut Val, path: &[(Ty, usize)], v: Val) {
        if path.is_empty() {
            *target = v;
            return;
        }
        let (_, i) = &path[0];
        match target {
            Val::Struct(_, fs) => Self::assign_path(&mut fs[*i], &path[1..], v),
            Val::Tuple(fs) => Self::assign_path(&mut fs[*i], &path[1..], v),
            Val::Obj(o) => {
                let mut f = o.fields.borrow_mut();
                Self::assign_path(&mut f[*i], &path[1..], v)
            }
            t => panic!("interp: assign path into {t:?}"),
        }
    }

    fn read_path(target: &Val, path: &[(Ty, usize)]) -> Val {
        if path.is_empty() {
            return target.clone();
        }
        let (_, i) = &path[0];
        match target {
            Val::Struct(_, fs) | Val::Tuple(fs) => Self::read_path(&fs[*i], &path[1..]),
            Val::Obj(o) => Self::read_path(&o.fields.borrow()[*i], &path[1..]),
            t => panic!("interp: read path into {t:?}"),
        }
    }

    /// Evaluate the location once, then (optionally) read, compute, and store.
    fn store(&mut self, l: &LValue, rhs: &Expr, op: Option<BinOp>, env: &mut Env) -> Result<(), Stop> {
        match l {
            LValue::Var(n) => {
                let cell = env.get(n);
                let nv = match op {
                    None => self.expr(rhs, env)?,
                    Some(op) => {
                        let old = cell.borrow().clone();
                        let r = self.expr(rhs, env)?;
                        self.bin_vals(op, &old, &r)?
                    }
                };
                *cell.borrow_mut() = nv;
            }
            LValue::Global(i) => {
                let cell = self.globals[*i].clone();
                let nv = match op {
                    None => self.expr(rhs, env)?,
                    Some(op) => {
                        let old = cell.borrow().clone();
                        let r = self.expr(rhs, env)?;
                        self.bin_vals(op, &old, &r)?
                    }
                };
                *cell.borrow_mut() = nv;
                self.stat("global-store");
            }
            LValue::VarField(n, path) => {
                let cell = env.get(n);
                let nv = match op {
                    None => self.expr(rhs, env)?,
                    Some(op) => {
                        let old = Self::read_path(&cell.borrow(), path);
                        let r = self.expr(rhs, env)?;
                        self.bin_vals(op, &old, &r)?
                    }
                };
                Self::assign_path(&mut cell.borrow_mut(), path, nv);
                self.stat("field-store");
            }
            LValue::Field(obj, _owner, i) => {
                let o = self.expr(obj, env)?;
                let o = match o {
                    Val::Obj(o) => o,
                    v => panic!("interp: field store on {v:?}"),
                };
                let nv = match op {
                    None => self.expr(rhs, env)?,
                    Some(op) => {
                        let old = o.fields.borrow()[*i].clone();
                        let r = self.expr(rhs, env)?;
                        self.bin_vals(op, &old, &r)?
                    }
                };
                o.fields.borrow_mut()[*i] = nv;
                self.stat("field-store");
            }
            LValue::Index(a, idx) => {
                // array, then index, then right-hand side; bounds are checked when the element is accessed
                let a = self.expr(a, env)?;
                let i = self.expr(idx, env)?;
                let arr = match a {
                    Val::Arr(v) => v,
                    v => panic!("interp: index store on {v:?}"),
                };
                match op {
                    None => {
                        let r = self.expr(rhs, env)?;
                        let len = arr.borrow().len();
                        let k = Self::index_check(len, &i)?;
                        arr.borrow_mut()[k] = r;
                    }
                    Some(op) => {
                        let len = arr.borrow().len();
                        let k = Self::index_check(len, &i)?;
                        let old = arr.borrow()[k].clone();
                        let r = self.expr(rhs, env)?;
                        let nv = self.bin_vals(op, &old, &r)?;
                        let len = arr.borrow().len();
                        let k = Self::index_check(len, &i)?;
                        arr.borrow_mut()[k] = nv;
                    }
                }
                self.stat("array-store");
            }
        }
        Ok(())
    }

    fn stmt(&mut self, s: &Stmt, env: &mut Env) -> Result<(), Stop> {
        self.tick()?;
        match s {
            Stmt::Let(n, _m, _t, e) => {
                let v = self.expr(e, env)?;
                env.bind(n, v);
            }
            Stmt::Assign(l, e) => self.store(l, e, None, env)?,
            Stmt::Compound(l, op, e) => {
                self.stat("compound-assign");
                self.store(l, e, Some(*op), env)?
            }
            Stmt::Expr(e) => {
                self.expr(e, env)?;
            }
            Stmt::Print(e) => {
                let v = self.expr(e, env)?;
                let s = self.to_display(&v);
                self.out.push_str(&s);
                self.out.push('\n');
            }
            Stmt::PrintNoNl(e) => {
                let v = self.expr(e, env)?;
                let s = self.to_display(&v);
                self.out.push_str(&s);
            }
            Stmt::While(c, b) => loop {
                match self.expr(c, env)? {
                    Val::Bool(true) => {}
                    Val::Bool(false) => break,
                    v => panic!("interp: while cond {v:?}"),
                }
                match self.block(b, env) {
                    Ok(_) => {}
                    Err(Stop::Break) => break,
                    Err(Stop::Continue) => continue,
                    Err(s) => return Err(s),
                }
            },
            Stmt::ForRange(v, lo, hi, b) => {
                let lo = self.expr(lo, env)?;
                let hi = self.expr(hi, env)?;
                let (lo, hi) = match (lo, hi) {
                    (Val::I64(a), Val::I64(b)) => (a, b),
                    _ => panic!("interp: range bounds"),
                };
                let mut i = lo;
                while i < hi {
                    let mark = env.vars.len();
                    env.bind(v, Val::I64(i));
                    let r = self.block(b, env);
                    env.vars.truncate(mark);
                    match r {
                        Ok(_) | Err(Stop::Continue) => {}
                        Err(Stop::Break) => break,
                        Err(s) => return Err(s),
                    }
                    i += 1;
                }
            }
            Stmt::ForIn(v, c, b) => {
                let coll = self.expr(c, env)?;
                let rc = match coll {
                    Val::Arr(a) | Val::Vect(a) => a,
                    x => panic!("interp: for-in over {x:?}"),
                };
                let mut i = 0usize;
                // the iterator fixes its end when it is created (std VecIter / ArrayIter)
                let end = rc.borrow().len();
                loop {
                    let item = {
                        let b = rc.borrow();
                        if i >= end {
                            break;
                        }
                        b[i].clone()
                    };
                    let mark = env.vars.len();
                    env.bind(v, item);
                    let r = self.block(b, env);
                    env.vars.truncate(mark);
                    match r {
                        Ok(_) | Err(Stop::Continue) => {}
                        Err(Stop::Break) => break,
                        Err(s) => return Err(s),
                    }
                    i += 1;
                }
            }
            Stmt::If(c, t, f) => match self.expr(c, env)? {
                Val::Bool(true) => {
                    self.block(t, env)?;
                }
                Val::Bool(false) => {
                    if let Some(f) = f {
                        self.block(f, env)?;
                    }
                }
                v => panic!("interp: if cond {v:?}"),
            },
            Stmt::Break => return Err(Stop::Break),
            Stmt::Continue => return Err(Stop::Continue),
            Stmt::Return(e) => {
                let v = match e {
                    Some(e) => self.expr(e, env)?,
                    None => Val::Unit,
                };
                return Err(Stop::Return(Val2(v)));
            }
            Stmt::Push(v, e) => {
                let vec = self.expr(v, env)?;
                let x = self.expr(e, env)?;
                match vec {
                    Val::Vect(v) => v.borrow_mut().push(x),
                    o => panic!("interp: push on {o:?}"),
                }
                self.stat("vec-push");
            }
            Stmt::Assert(e) => match self.expr(e, env)? {
                Val::Bool(true) => {}
                Val::Bool(false) => {
                    self.stat("trapping-op");
                    return Err(Stop::Trap(102));
                }
                v => panic!("interp: assert {v:?}"),
            },
            Stmt::MutCall(var, s, m, args) => {
                let a = self.args(args, env)?;
                let cell = env.get(var);
                let def = &self.p.structs[*s].methods[*m];
                // mutating method: `self` is the variable itself
                self.tick()?;
                let mut menv = Env::default();
                menv.vars.push(("self".to_string(), cell));
                for ((n, _), v) in def.params.iter().zip(a.into_iter()) {
                    menv.bind(n, v);
                }
                self.stat("mutating-method");
                match self.block(&def.body, &mut menv) {
                    Ok(_) | Err(Stop::Return(_)) => {}
                    Err(s) => return Err(s),
                }
            }
            Stmt::Exit(e) => match self.expr(e, env)? {
                Val::I32(c) => return Err(Stop::Exit(c)),
                v => panic!("interp: exit {v:?}"),
            },
            Stmt::Fatal(m) => return Err(Stop::Fatal(m.clone())),
            Stmt::Raw(t) if t.starts_with("std::force_") => {
                self.stat("forced-collection");
            }
            Stmt::Raw(_) => panic!("interp: raw statement"),
        }
        Ok(())
    }
}

fn i64v(v: &Option<Val>) -> i64 {
    match v {
        Some(Val::I64(x)) => *x,
        _ => panic!("interp: expected Int64 arg"),
    }
}
fn i32v(v: &Option<Val>) -> i32 {
    match v {
        Some(Val::I32(x)) => *x,
        _ => panic!("interp: expected Int32 arg"),
    }
}
