//! Typed program generator for RefDora: well-typed and terminating by construction.

use super::ir::*;
use crate::vcore::Choices;

#[derive(Clone, Debug)]
struct Var {
    name: String,
    ty: Ty,
    mutable: bool,
    /// known array length (for mostly-in-bounds indices)
    len: Option<usize>,
    /// defined outside the current lambda (captured)
    level: usize,
}

#[derive(Clone, Copy, Debug, PartialEq, Eq)]
pub enum Profile {
    Core,
    /// allocation heavy (C03)
    Alloc,
}

pub static EXCLUDED_GENERIC_FIELD_COMPOUND: std::sync::atomic::AtomicU64 = std::sync::atomic::AtomicU64::new(0);
pub static EXCLUDED_BLOCK_TAIL_LOCAL: std::sync::atomic::AtomicU64 = std::sync::atomic::AtomicU64::new(0);

pub struct Gen<'a, 'b> {
    c: &'a mut Choices<'b>,
    pub p: Program,
    vars: Vec<Var>,
    next_id: usize,
    depth: usize,
    max_depth: usize,
    /// how many functions are callable (only lower indices => no recursion)
    callable_fns: usize,
    in_fn_ret: Option<Ty>,
    in_loop: bool,
    lambda_level: usize,
    /// type parameters in scope: bound trait
    tparams: Vec<Option<usize>>,
    /// generating a method body of this owner (self available)
    self_ty: Option<Ty>,
    self_mutable: bool,
    budget: i64,
    pub profile: Profile,
    no_calls: usize,
    /// C02 'wide' mode: constructs whose result the language does not pin down are allowed
    pub wide: bool,
}

const SMALL_I64: &[i64] = &[0, 1, 2, 3, 5, 7, 10, -1, -2, 13, 100, 255, 256, 1000];
const EDGE_I64: &[i64] = &[
    i64::MAX,
    i64::MIN,
    i64::MAX - 1,
    i64::MIN + 1,
    2147483647,
    2147483648,
    -2147483648,
    -2147483649,
    4294967296,
    1 << 62,
    -(1 << 62),
    3037000500,
    63,
    64,
    65,
];
const SMALL_I32: &[i32] = &[0, 1, 2, 3, 5, 7, 10, -1, -2, 13, 100, 255, 1000];
const EDGE_I32: &[i32] = &[i32::MAX, i32::MIN, i32::MAX - 1, i32::MIN + 1, 46341, 65536, -65536, 31, 32, 33, 1 << 30];

impl<'a, 'b> Gen<'a, 'b> {
    pub fn new(c: &'a mut Choices<'b>, profile: Profile) -> Self {
        Gen {
            c,
            p: Program::default(),
            vars: vec![],
            next_id: 0,
            depth: 0,
            max_depth: 4,
            callable_fns: 0,
            in_fn_ret: None,
            in_loop: false,
            lambda_level: 0,
            tparams: vec![],
            self_ty: None,
            self_mutable: false,
            budget: 600,
            profile,
            no_calls: 0,
            wide: false,
        }
    }

    fn fresh(&mut self, prefix: &str) -> String {
        self.next_id += 1;
        format!("{prefix}{}", self.next_id)
    }

    fn feat(&mut self, f: &'static str) {
        self.p.features.insert(f);
    }

    // ---------------- types ----------------

    fn scalar_ty(&mut self) -> Ty {
        match self.c.weighted(&[8, 5, 3, 2, 2, 2, 1, 2]) {
            0 => Ty::I64,
            1 => Ty::I32,
            2 => Ty::Bool,
            3 => Ty::F64,
            4 => Ty::Str,
            5 => Ty::U8,
            6 => Ty::F32,
            _ => Ty::Char,
        }
    }

    fn any_ty(&mut self, depth: usize) -> Ty {
        if depth >= 2 {
            return self.scalar_ty();
        }
        let ns = self.p.structs.len();
        let nc = self.p.classes.len();
        let ne = self.p.enums.len();
        let k = self.c.weighted(&[10, 2, if ns > 0 { 3 } else { 0 }, if nc > 0 { 3 } else { 0 }, if ne > 0 { 3 } else { 0 }, 2, 1, 2, 1]);
        match k {
            0 => self.scalar_ty(),
            1 => {
                let n = 1 + self.c.below(3);
                Ty::Tuple((0..n).map(|_| self.any_ty(depth + 1)).collect())
            }
            2 => Ty::Struct(self.c.below(ns)),
            3 => Ty::Class(self.c.below(nc)),
            4 => Ty::Enum(self.c.below(ne)),
            5 => Ty::Array(Box::new(self.elem_ty())),
            6 => Ty::Vec(Box::new(self.elem_ty())),
            7 => Ty::Opt(Box::new(self.any_ty(depth + 1))),
            _ => {
                self.feat("generic-class");
                Ty::BoxOf(Box::new(self.scalar_ty()))
            }
        }
    }

    fn elem_ty(&mut self) -> Ty {
        let ns = self.p.structs.len();
        let nc = self.p.classes.len();
        match self.c.weighted(&[6, 2, if ns > 0 { 2 } else { 0 }, if nc > 0 { 2 } else { 0 }, 1]) {
            0 => Ty::I64,
            1 => self.scalar_ty(),
            2 => Ty::Struct(self.c.below(ns)),
            3 => Ty::Class(self.c.below(nc)),
            _ => Ty::Tuple(vec![Ty::I64, Ty::Bool]),
        }
    }

    // ---------------- literals ----------------

    fn lit(&mut self, t: &Ty) -> Expr {
        Expr::Lit(match t {
            Ty::Unit => Lit::Unit,
            Ty::Bool => Lit::Bool(self.c.below(2) == 1),
            Ty::U8 => Lit::U8(*self.c.pick(&[0u8, 1, 2, 7, 127, 128, 200, 255])),
            Ty::Char => Lit::Char(*self.c.pick(&['a', 'b', 'Z', '0', 'x'])),
            Ty::I32 => Lit::I32(if self.c.chance(1, 8) { *self.c.pick(EDGE_I32) } else { *self.c.pick(SMALL_I32) }),
            Ty::I64 => Lit::I64(if self.c.chance(1, 8) { *self.c.pick(EDGE_I64) } else { *self.c.pick(SMALL_I64) }),
            Ty::F32 => Lit::F32(*self.c.pick(&[0.0f32, 1.0, 0.5, 2.5, -1.5, 100.25, 3.0, 0.125])),
            Ty::F64 => Lit::F64(*self.c.pick(&[0.0f64, 1.0, 0.5, 2.5, -1.5, 100.25, 3.0, 0.1, 1234567.0, 0.0001])),
            Ty::Str => Lit::Str(self.c.pick_str(&["a", "", "xy", "hello", "Zz9", "q w"]).to_string()),
            _ => panic!("lit of {t:?}"),
        })
    }

    /// simplest value of a type (no choices beyond what nested lits take)
    fn simple(&mut self, t: &Ty) -> Expr {
        match t {
            Ty::Unit | Ty::Bool | Ty::U8 | Ty::Char | Ty::I32 | Ty::I64 | Ty::F32 | Ty::F64 | Ty::Str => self.lit(t),
            Ty::Tuple(ts) => Expr::Tuple(ts.iter().map(|t| self.simple(t)).collect()),
            Ty::Struct(s) => {
                let fts: Vec<Ty> = self.p.structs[*s].fields.iter().map(|f| f.1.clone()).collect();
                Expr::StructNew(*s, fts.iter().map(|t| self.simple(t)).collect())
            }
            Ty::Class(s) => {
                let fts: Vec<Ty> = self.p.classes[*s].fields.iter().map(|f| f.1.clone()).collect();
                Expr::ClassNew(*s, fts.iter().map(|t| self.simple(t)).collect())
            }
            Ty::Enum(e) => {
                let v = self.c.below(self.p.enums[*e].variants.len());
                let ts = self.p.enums[*e].variants[v].1.clone();
                Expr::EnumNew(*e, v, ts.iter().map(|t| self.simple(t)).collect())
            }
            Ty::Array(t) => {
                let n = 1 + self.c.below(4);
                Expr::ArrayNew((**t).clone(), (0..n).map(|_| self.simple(t)).collect())
            }
            Ty::Vec(t) => Expr::VecNew((**t).clone()),
            Ty::Opt(t) => {
                if self.c.chance(1, 2) {
                    Expr::Some((**t).clone(), Box::new(self.simple(t)))
                } else {
                    Expr::None((**t).clone())
                }
            }
            Ty::Fun(ps, r) => {
                let params: Vec<(String, Ty)> = ps.iter().map(|t| (self.fresh("a"), t.clone())).collect();
                let tail = self.simple(r);
                Expr::Lambda(params, (**r).clone(), Box::new(Block { stmts: vec![], tail: if **r == Ty::Unit { None } else { Some(tail) } }))
            }
            Ty::Dyn(t) => {
                let cands: Vec<Ty> = self.p.impls.iter().filter(|i| i.trait_id == *t && matches!(i.for_ty, Ty::Class(_))).map(|i| i.for_ty.clone()).collect();
                let ft = cands[self.c.below(cands.len())].clone();
                Expr::AsDyn(Box::new(self.simple(&ft)), *t)
            }
            Ty::BoxOf(t) => {
                self.feat("generic-class");
                Expr::BoxNew((**t).clone(), Box::new(self.simple(t)))
            }
            Ty::Param(_) => {
                let vs = self.vars_of(t);
                Expr::Var(self.vars[vs[0]].name.clone())
            }
        }
    }

    // ---------------- expressions ----------------

    fn vars_of(&self, t: &Ty) -> Vec<usize> {
        (0..self.vars.len()).filter(|&i| &self.vars[i].ty == t).collect()
    }

    /// (expression, type) pairs reachable by one projection from a variable
    fn projections(&mut self, want: &Ty) -> Vec<Expr> {
        let mut out = vec![];
        for v in &self.vars {
            match &v.ty {
                Ty::Tuple(ts) => {
                    for (i, t) in ts.iter().enumerate() {
                        if t == want {
                            out.push(Expr::TupleGet(Box::new(Expr::Var(v.name.clone())), i));
                        }
                    }
                }
                Ty::Struct(s) => {
                    for (i, f) in self.p.structs[*s].fields.iter().enumerate() {
                        if &f.1 == want {
                            out.push(Expr::Field(Box::new(Expr::Var(v.name.clone())), v.ty.clone(), i));
                        }
                    }
                }
                Ty::Class(s) => {
                    for (i, f) in self.p.classes[*s].fields.iter().enumerate() {
                        if &f.1 == want {
                            out.push(Expr::Field(Box::new(Expr::Var(v.name.clone())), v.ty.clone(), i));
                        }
                    }
                }
                Ty::BoxOf(t) if &**t == want => {
                    out.push(Expr::Field(Box::new(Expr::Var(v.name.clone())), v.ty.clone(), 0));
                }
                Ty::Array(t) | Ty::Vec(t) if want == &Ty::I64 && false => {
                    let _ = t;
                }
                _ => {}
            }
        }
        if let Some(st) = self.self_ty.clone() {
            let fields: Vec<(usize, Ty)> = match &st {
                Ty::Struct(s) => self.p.structs[*s].fields.iter().enumerate().map(|(i, f)| (i, f.1.clone())).collect(),
                Ty::Class(s) => self.p.classes[*s].fields.iter().enumerate().map(|(i, f)| (i, f.1.clone())).collect(),
                _ => vec![],
            };
            for (i, t) in fields {
                if &t == want {
                    out.push(Expr::Field(Box::new(Expr::Var("self".into())), st.clone(), i));
                }
            }
        }
        out
    }

    fn int_expr(&mut self, t: &Ty) -> Expr {
        // integer producer beyond leaf
        let k = self.c.weighted(&[10, 2, 2, 2, 2, 1, 2, 2]);
        match k {
            0 => {
                let op = *self.c.pick(&[BinOp::Add, BinOp::Sub, BinOp::Mul, BinOp::Add, BinOp::Sub, BinOp::Div, BinOp::Mod, BinOp::BitAnd, BinOp::BitOr, BinOp::BitXor]);
                let a = self.expr(t);
                let b = if matches!(op, BinOp::Div | BinOp::Mod) && !self.c.chance(1, 5) {
                    // mostly a non-zero literal divisor
                    let v = *self.c.pick(&[1i64, 2, 3, 7, -1, -3, 10]);
                    Expr::Lit(if *t == Ty::I64 { Lit::I64(v) } else { Lit::I32(v as i32) })
                } else {
                    self.expr(t)
                };
                Expr::Bin(op, Box::new(a), Box::new(b))
            }
            1 => Expr::Neg(Box::new(self.expr(t))),
            2 => {
                let op = *self.c.pick(&[BinOp::Shl, BinOp::Sar, BinOp::Shr]);
                let a = self.expr(t);
                let amt = if self.c.chance(1, 6) {
                    self.expr(&Ty::I32)
                } else {
                    Expr::Lit(Lit::I32(*self.c.pick(&[0i32, 1, 3, 8, 31, 5])))
                };
                Expr::Bin(op, Box::new(a), Box::new(amt))
            }
            3 => {
                let name = *self.c.pick(&["wrapping_add", "wrapping_sub", "wrapping_mul"]);
                let a = self.expr(t);
                let b = self.expr(t);
                self.feat("wrapping");
                Expr::Intrinsic(name, Box::new(a), vec![b])
            }
            4 if self.wide && self.c.chance(1, 2) => {
                // float -> int: out-of-range results are not pinned down by the language
                let src = if self.c.chance(1, 2) { Ty::F64 } else { Ty::F32 };
                Expr::Intrinsic(if *t == Ty::I64 { "to_int64" } else { "to_int32" }, Box::new(self.expr(&src)), vec![])
            }
            4 => {
                // conversion from another type
                if *t == Ty::I64 {
                    match self.c.below(3) {
                        0 => Expr::Intrinsic("to_int64", Box::new(self.expr(&Ty::I32)), vec![]),
                        1 => Expr::Intrinsic("to_int64", Box::new(self.expr(&Ty::U8)), vec![]),
                        _ => Expr::Len(Box::new(self.expr(&Ty::Str))),
                    }
                } else {
                    match self.c.below(2) {
                        0 => Expr::Intrinsic("to_int32", Box::new(self.expr(&Ty::I64)), vec![]),
                        _ => Expr::Intrinsic("to_int32", Box::new(self.expr(&Ty::U8)), vec![]),
                    }
                }
            }
            5 => {
                let name = *self.c.pick(&["overflowing_add", "overflowing_sub", "overflowing_mul"]);
                let a = self.expr(t);
                let b = self.expr(t);
                self.feat("wrapping");
                Expr::TupleGet(Box::new(Expr::Intrinsic(name, Box::new(a), vec![b])), 0)
            }
            6 => Expr::Not(Box::new(self.expr(t))),
            _ => {
                if *t == Ty::I64 {
                    // side-effecting trace call
                    self.feat("trace");
                    Expr::Call(usize::MAX, vec![], vec![Expr::Lit(Lit::I64(self.c.below(10) as i64))])
                } else {
                    self.lit(t)
                }
            }
        }
    }

    fn bool_expr(&mut self) -> Expr {
        match self.c.weighted(&[8, 3, 2, 1, 1, 1]) {
            0 => {
                let t = match self.c.weighted(&[6, 3, 1, 1, 1, 1]) {
                    0 => Ty::I64,
                    1 => Ty::I32,
                    2 => Ty::F64,
                    3 => Ty::U8,
                    4 => Ty::Char,
                    _ => Ty::Str,
                };
                let op = if t == Ty::Str { *self.c.pick(&[BinOp::Eq, BinOp::Ne]) } else { *self.c.pick(&[BinOp::Eq, BinOp::Ne, BinOp::Lt, BinOp::Le, BinOp::Gt, BinOp::Ge]) };
                let a = self.expr(&t);
                let b = self.expr(&t);
                Expr::Bin(op, Box::new(a), Box::new(b))
            }
            1 => {
                let op = *self.c.pick(&[BinOp::And, BinOp::Or]);
                let a = self.expr(&Ty::Bool);
                let b = self.expr(&Ty::Bool);
                Expr::Bin(op, Box::new(a), Box::new(b))
            }
            2 => Expr::Not(Box::new(self.expr(&Ty::Bool))),
            3 => {
                // identity of references
                let cands: Vec<usize> = (0..self.vars.len()).filter(|&i| matches!(self.vars[i].ty, Ty::Class(_) | Ty::Array(_))).collect();
                if cands.len() >= 1 {
                    let a = cands[self.c.below(cands.len())];
                    let same_ty: Vec<usize> = cands.iter().copied().filter(|&j| self.vars[j].ty == self.vars[a].ty).collect();
                    let b = same_ty[self.c.below(same_ty.len())];
                    self.feat("identity");
                    let op = *self.c.pick(&[BinOp::Same, BinOp::NotSame]);
                    Expr::Bin(op, Box::new(Expr::Var(self.vars[a].name.clone())), Box::new(Expr::Var(self.vars[b].name.clone())))
                } else {
                    self.lit(&Ty::Bool)
                }
            }
            4 => {
                let t = self.scalar_ty();
                Expr::IsSome(Box::new(self.expr(&Ty::Opt(Box::new(t)))))
            }
            _ => {
                let op = *self.c.pick(&[BinOp::Eq, BinOp::Ne]);
                let a = self.expr(&Ty::Bool);
                let b = self.expr(&Ty::Bool);
                Expr::Bin(op, Box::new(a), Box::new(b))
            }
        }
    }

    fn float_expr(&mut self, t: &Ty) -> Expr {
        match self.c.weighted(&[6, 1, 2]) {
            0 => {
                let op = *self.c.pick(&[BinOp::Add, BinOp::Sub, BinOp::Mul, BinOp::Div]);
                let a = self.expr(t);
                let b = self.expr(t);
                Expr::Bin(op, Box::new(a), Box::new(b))
            }
            1 => Expr::Neg(Box::new(self.expr(t))),
            _ => {
                let src = if self.c.chance(1, 2) { Ty::I64 } else { Ty::I32 };
                let name = if *t == Ty::F64 { "to_float64" } else { "to_float32" };
                Expr::Intrinsic(name, Box::new(self.expr(&src)), vec![])
            }
        }
    }

    fn template(&mut self) -> Expr {
        let n = 1 + self.c.below(3);
        let mut parts = vec![];
        for i in 0..n {
            if i > 0 || self.c.chance(1, 2) {
                parts.push(TemplatePart::Text(self.c.pick_str(&[" ", "x=", ",", "-", "v"]).to_string()));
            }
            let t = self.scalar_ty();
            parts.push(TemplatePart::Expr(self.expr(&t)));
        }
        Expr::Template(parts)
    }

    /// calls (free functions, methods, trait calls, lambdas) producing `t`
    fn call_producing(&mut self, t: &Ty) -> Option<Expr> {
        if self.no_calls > 0 {
            return None;
        }
        let mut cands: Vec<(u8, usize, usize)> = vec![]; // kind, a, b
        for f in 0..self.callable_fns {
            let d = &self.p.fns[f];
            if &d.ret == t && d.tparams.is_empty() {
                cands.push((0, f, 0));
            }
            // generic: the return type mentions T0 and unifies with t
            if d.tparams.len() == 1 && contains_param(&d.ret) {
                if let Some(x) = unify(&d.ret, t) {
                    if self.can_instantiate(d.tparams[0], &x) && !contains_param(&x) {
                        cands.push((1, f, 0));
                    }
                }
            }
            if &d.ret == t && !d.tparams.is_empty() && !contains_param(t) {
                cands.push((2, f, 0));
            }
        }
        for (vi, v) in self.vars.iter().enumerate() {
            match &v.ty {
                Ty::Struct(s) => {
                    for (mi, m) in self.p.structs[*s].methods.iter().enumerate() {
                        if !m.mutating && &m.ret == t {
                            cands.push((3, vi, mi));
                        }
                    }
                }
                Ty::Class(s) => {
                    for (mi, m) in self.p.classes[*s].methods.iter().enumerate() {
                        if &m.ret == t {
                            cands.push((3, vi, mi));
                        }
                    }
                }
                Ty::Fun(_, r) if &**r == t => cands.push((4, vi, 0)),
                Ty::Dyn(tr) => {
                    for (mi, m) in self.p.traits[*tr].methods.iter().enumerate() {
                        if &m.ret == t {
                            cands.push((5, vi, mi));
                        }
                    }
                }
                Ty::Param(k) => {
                    if let Some(Some(tr)) = self.tparams.get(*k) {
                        for (mi, m) in self.p.traits[*tr].methods.iter().enumerate() {
                            if &m.ret == t {
                                cands.push((5, vi, mi));
                            }
                        }
                    }
                }
                Ty::BoxOf(inner) if &**inner == t => cands.push((6, vi, 0)),
                _ => {}
            }
            // static trait dispatch on a concrete implementor
            if matches!(v.ty, Ty::Struct(_) | Ty::Class(_)) {
                for im in self.p.impls.iter() {
                    if im.for_ty == v.ty {
                        for (mi, m) in self.p.traits[im.trait_id].methods.iter().enumerate() {
                            if &m.ret == t {
                                cands.push((7, vi, im.trait_id * 100 + mi));
                            }
                        }
                    }
                }
            }
        }
        if cands.is_empty() {
            return None;
        }
        let (kind, a, b) = cands[self.c.below(cands.len())];
        Some(match kind {
            0 => {
                let ps: Vec<Ty> = self.p.fns[a].params.iter().map(|p| p.1.clone()).collect();
                let args = ps.iter().map(|t| self.expr(t)).collect();
                Expr::Call(a, vec![], args)
            }
            1 | 2 => {
                // instantiate T0 (and only T0) — with `t` for kind 1, with a suitable type for kind 2
                let bound = self.p.fns[a].tparams[0];
                let targ = if kind == 1 { unify(&self.p.fns[a].ret, t).unwrap() } else { self.pick_instance(bound) };
                let ps: Vec<Ty> = self.p.fns[a].params.iter().map(|p| subst(&p.1, &targ)).collect();
                let args = ps.iter().map(|t| self.expr(t)).collect();
                self.feat("generic-fn");
                Expr::Call(a, vec![targ], args)
            }
            3 => {
                let owner = self.vars[a].ty.clone();
                let ps: Vec<Ty> = match &owner {
                    Ty::Struct(s) => self.p.structs[*s].methods[b].params.iter().map(|p| p.1.clone()).collect(),
                    Ty::Class(s) => self.p.classes[*s].methods[b].params.iter().map(|p| p.1.clone()).collect(),
                    _ => unreachable!(),
                };
                let recv = Expr::Var(self.vars[a].name.clone());
                let args = ps.iter().map(|t| self.expr(t)).collect();
                self.feat("method");
                Expr::Method(Box::new(recv), owner, b, args)
            }
            4 => {
                let ps = match &self.vars[a].ty {
                    Ty::Fun(ps, _) => ps.clone(),
                    _ => unreachable!(),
                };
                let recv = Expr::Var(self.vars[a].name.clone());
                let args = ps.iter().map(|t| self.expr(t)).collect();
                self.feat("lambda-call");
                Expr::CallValue(Box::new(recv), args)
            }
            5 => {
                let tr = match &self.vars[a].ty {
                    Ty::Dyn(tr) => *tr,
                    Ty::Param(k) => self.tparams[*k].unwrap(),
                    _ => unreachable!(),
                };
                let ps: Vec<Ty> = self.p.traits[tr].methods[b].params.iter().map(|p| p.1.clone()).collect();
                let recv = Expr::Var(self.vars[a].name.clone());
                let args = ps.iter().map(|t| self.expr(t)).collect();
                self.feat(if matches!(self.vars[a].ty, Ty::Dyn(_)) { "trait-object-call" } else { "bound-call" });
                Expr::TraitCall(Box::new(recv), tr, b, args)
            }
            6 => {
                self.feat("generic-class");
                Expr::Field(Box::new(Expr::Var(self.vars[a].name.clone())), self.vars[a].ty.clone(), 0)
            }
            _ => {
                let tr = b / 100;
                let mi = b % 100;
                let ps: Vec<Ty> = self.p.traits[tr].methods[mi].params.iter().map(|p| p.1.clone()).collect();
                let recv = Expr::Var(self.vars[a].name.clone());
                let args = ps.iter().map(|t| self.expr(t)).collect();
                self.feat("trait-static-call");
                Expr::TraitCall(Box::new(recv), tr, mi, args)
            }
        })
    }

    fn can_instantiate(&self, bound: Option<usize>, t: &Ty) -> bool {
        if matches!(t, Ty::Param(_)) {
            return false;
        }
        match bound {
            None => true,
            Some(tr) => self.p.impls.iter().any(|i| i.trait_id == tr && &i.for_ty == t),
        }
    }

    fn pick_instance(&mut self, bound: Option<usize>) -> Ty {
        match bound {
            None => {
                let t = self.any_ty(1);
                if contains_param(&t) { Ty::I64 } else { t }
            }
            Some(tr) => {
                let c: Vec<Ty> = self.p.impls.iter().filter(|i| i.trait_id == tr).map(|i| i.for_ty.clone()).collect();
                c[self.c.below(c.len())].clone()
            }
        }
    }

    pub fn expr(&mut self, t: &Ty) -> Expr {
        self.budget -= 1;
        if self.depth >= self.max_depth || self.budget <= 0 {
            return self.leaf(t);
        }
        self.depth += 1;
        let r = self.expr_inner(t);
        self.depth -= 1;
        r
    }

    fn leaf(&mut self, t: &Ty) -> Expr {
        let vs = self.vars_of(t);
        let projs = if vs.is_empty() { self.projections(t) } else { vec![] };
        let globals: Vec<usize> = (0..self.p.globals.len()).filter(|&i| &self.p.globals[i].ty == t).collect();
        let k = self.c.weighted(&[if vs.is_empty() { 0 } else { 6 }, 4, if projs.is_empty() { 0 } else { 3 }, if globals.is_empty() { 0 } else { 2 }]);
        match k {
            0 => Expr::Var(self.vars[vs[self.c.below(vs.len())]].name.clone()),
            2 => projs[self.c.below(projs.len())].clone(),
            3 => Expr::Global(globals[self.c.below(globals.len())]),
            _ => {
                if matches!(t, Ty::Param(_)) {
                    // must come from a variable of that type; generic functions always have one
                    let vs = self.vars_of(t);
                    return Expr::Var(self.vars[vs[0]].name.clone());
                }
                self.simple(t)
            }
        }
    }

    fn expr_inner(&mut self, t: &Ty) -> Expr {
        // generic alternatives for every type
        let k = self.c.weighted(&[6, 8, 2, 1, 1, 1, 3]);
        match k {
            0 => self.leaf(t),
            2 => {
                if let Some(e) = self.call_producing(t) {
                    return e;
                }
                self.leaf(t)
            }
            3 if !matches!(t, Ty::Param(_)) => {
                let c = self.expr(&Ty::Bool);
                let a = self.expr(t);
                let b = self.expr(t);
                Expr::If(Box::new(c), Box::new(Block { stmts: vec![], tail: Some(a) }), Box::new(Block { stmts: vec![], tail: Some(b) }))
            }
            4 if !matches!(t, Ty::Param(_)) => self.match_expr(t),
            5 => {
                // block expression with a local
                let mark = self.vars.len();
                let lt = self.scalar_ty();
                let init = self.expr(&lt);
                let name = self.fresh("b");
                self.vars.push(Var { name: name.clone(), ty: lt.clone(), mutable: false, len: None, level: self.lambda_level });
                let mut tail = self.expr(t);
                // Known finding (C05 block-tail-local): `{ let b = e; b }` in operand position crashes the
                // bytecode generator (register freed with the block scope). Excluded by construction.
                if tail_is_local(&tail, &name) {
                    EXCLUDED_BLOCK_TAIL_LOCAL.fetch_add(1, std::sync::atomic::Ordering::Relaxed);
                    tail = self.simple(t);
                }
                self.vars.truncate(mark);
                Expr::Block(Box::new(Block { stmts: vec![Stmt::Let(name, false, lt, init)], tail: Some(tail) }))
            }
            6 => {
                // index / projection producers
                let arrs: Vec<usize> = (0..self.vars.len()).filter(|&i| matches!(&self.vars[i].ty, Ty::Array(e) | Ty::Vec(e) if &**e == t)).collect();
                if !arrs.is_empty() && self.c.chance(2, 3) {
                    let a = arrs[self.c.below(arrs.len())];
                    let idx = self.index_for(a);
                    self.feat("index");
                    return Expr::Index(Box::new(Expr::Var(self.vars[a].name.clone())), Box::new(idx));
                }
                let opts: Vec<usize> = (0..self.vars.len()).filter(|&i| matches!(&self.vars[i].ty, Ty::Opt(e) if &**e == t)).collect();
                if !opts.is_empty() && self.c.chance(1, 3) {
                    let o = opts[self.c.below(opts.len())];
                    return Expr::Unwrap(Box::new(Expr::Var(self.vars[o].name.clone())));
                }
                let projs = self.projections(t);
                if !projs.is_empty() {
                    return projs[self.c.below(projs.len())].clone();
                }
                self.leaf(t)
            }
            _ => match t {
                Ty::I64 | Ty::I32 => self.int_expr(t),
                Ty::Bool => self.bool_expr(),
                Ty::F64 | Ty::F32 => self.float_expr(t),
                Ty::Str => {
                    if self.c.chance(1, 2) {
                        self.template()
                    } else {
                        let st = self.scalar_ty();
                        Expr::ToString(Box::new(self.expr(&st)))
                    }
                }
                Ty::U8 => {
                    if self.c.chance(1, 2) {
                        let src = if self.c.chance(1, 2) { Ty::I64 } else { Ty::I32 };
                        Expr::Intrinsic("to_uint8", Box::new(self.expr(&src)), vec![])
                    } else {
                        self.leaf(t)
                    }
                }
                Ty::Char | Ty::Unit => self.leaf(t),
                Ty::Tuple(ts) => Expr::Tuple(ts.iter().map(|t| self.expr(t)).collect()),
                Ty::Struct(s) => {
                    let fts: Vec<Ty> = self.p.structs[*s].fields.iter().map(|f| f.1.clone()).collect();
                    Expr::StructNew(*s, fts.iter().map(|t| self.expr(t)).collect())
                }
                Ty::Class(s) => {
                    let fts: Vec<Ty> = self.p.classes[*s].fields.iter().map(|f| f.1.clone()).collect();
                    Expr::ClassNew(*s, fts.iter().map(|t| self.expr(t)).collect())
                }
                Ty::Enum(e) => {
                    let v = self.c.below(self.p.enums[*e].variants.len());
                    let ts = self.p.enums[*e].variants[v].1.clone();
                    Expr::EnumNew(*e, v, ts.iter().map(|t| self.expr(t)).collect())
                }
                Ty::Array(e) => {
                    if self.c.chance(1, 4) {
                        let n = Expr::Lit(Lit::I64(self.c.below(6) as i64));
                        Expr::ArrayFill((**e).clone(), Box::new(n), Box::new(self.expr(e)))
                    } else {
                        let n = 1 + self.c.below(5);
                        Expr::ArrayNew((**e).clone(), (0..n).map(|_| self.expr(e)).collect())
                    }
                }
                Ty::Vec(e) => Expr::VecNew((**e).clone()),
                Ty::Opt(e) => {
                    if self.c.chance(2, 3) {
                        Expr::Some((**e).clone(), Box::new(self.expr(e)))
                    } else {
                        Expr::None((**e).clone())
                    }
                }
                Ty::Fun(ps, r) => self.lambda(ps, r),
                Ty::Dyn(_) | Ty::BoxOf(_) => self.simple(t),
                Ty::Param(_) => self.leaf(t),
            },
        }
    }

    fn index_for(&mut self, var: usize) -> Expr {
        let len = self.vars[var].len;
        match (len, self.c.weighted(&[8, 1, 1])) {
            (Some(n), 0) if n > 0 => Expr::Lit(Lit::I64(self.c.below(n) as i64)),
            (_, 1) => self.expr(&Ty::I64),
            (_, 2) => {
                // i % len : in bounds whenever len > 0 and i >= 0
                let a = Expr::Lit(Lit::I64(self.c.below(20) as i64));
                Expr::Bin(BinOp::Mod, Box::new(a), Box::new(Expr::Len(Box::new(Expr::Var(self.vars[var].name.clone())))))
            }
            _ => Expr::Lit(Lit::I64(0)),
        }
    }

    fn lambda(&mut self, ps: &[Ty], r: &Ty) -> Expr {
        let params: Vec<(String, Ty)> = ps.iter().map(|t| (self.fresh("a"), t.clone())).collect();
        let mark = self.vars.len();
        let saved_loop = std::mem::replace(&mut self.in_loop, false);
        let saved_ret = self.in_fn_ret.take();
        // language rule: a lambda cannot capture `self` of a value type (struct method)
        let saved_self = if matches!(self.self_ty, Some(Ty::Struct(_))) { self.self_ty.take() } else { None };
        let saved_self_mut = self.self_mutable;
        if saved_self.is_some() {
            self.self_mutable = false;
        }
        self.lambda_level += 1;
        for (n, t) in &params {
            self.vars.push(Var { name: n.clone(), ty: t.clone(), mutable: false, len: None, level: self.lambda_level });
        }
        let mut stmts = vec![];
        // mutate a captured variable with some probability
        let caps: Vec<usize> = (0..mark).filter(|&i| self.vars[i].mutable && matches!(self.vars[i].ty, Ty::I64 | Ty::I32)).collect();
        if !caps.is_empty() && self.c.chance(2, 3) {
            let v = caps[self.c.below(caps.len())];
            let t = self.vars[v].ty.clone();
            let rhs = self.expr(&t);
            let name = self.vars[v].name.clone();
            let op = *self.c.pick(&[BinOp::Add, BinOp::Sub, BinOp::BitXor]);
            stmts.push(Stmt::Assign(LValue::Var(name.clone()), Expr::Bin(op, Box::new(Expr::Var(name)), Box::new(rhs))));
            self.feat("closure-mutates-capture");
        }
        let n = self.c.below(2);
        for _ in 0..n {
            if let Some(s) = self.stmt() {
                stmts.push(s);
            }
        }
        let tail = if *r == Ty::Unit { None } else { Some(self.expr(r)) };
        self.lambda_level -= 1;
        self.vars.truncate(mark);
        self.in_loop = saved_loop;
        self.in_fn_ret = saved_ret;
        if saved_self.is_some() {
            self.self_ty = saved_self;
            self.self_mutable = saved_self_mut;
        }
        self.feat("lambda");
        Expr::Lambda(params, r.clone(), Box::new(Block { stmts, tail }))
    }

    fn match_expr(&mut self, t: &Ty) -> Expr {
        // scrutinee: enum / option / tuple(bool,int) / int
        let ne = self.p.enums.len();
        let k = self.c.weighted(&[if ne > 0 { 5 } else { 0 }, 3, 2, 2]);
        let mark = self.vars.len();
        let r = match k {
            0 => {
                let e = self.c.below(ne);
                let scrut = self.expr(&Ty::Enum(e));
                let nv = self.p.enums[e].variants.len();
                let mut arms = vec![];
                // optionally a guarded arm first, then one arm per variant (maybe wildcard at the end)
                let use_wild = self.c.chance(1, 4);
                let upto = if use_wild { self.c.below(nv) } else { nv };
                for v in 0..upto {
                    let ts = self.p.enums[e].variants[v].1.clone();
                    if !ts.is_empty() && self.c.chance(1, 4) {
                        // guarded duplicate before the plain arm
                        let (pat, binds) = self.payload_pat(&ts);
                        let m2 = self.vars.len();
                        for (n, bt) in &binds {
                            self.vars.push(Var { name: n.clone(), ty: bt.clone(), mutable: false, len: None, level: self.lambda_level });
                        }
                        let g = self.expr(&Ty::Bool);
                        let body = self.expr(t);
                        self.vars.truncate(m2);
                        arms.push(Arm { pat: Pat::Variant(e, v, pat), guard: Some(g), body });
                        self.feat("match-guard");
                    }
                    let (pat, binds) = self.payload_pat(&ts);
                    let m2 = self.vars.len();
                    for (n, bt) in &binds {
                        self.vars.push(Var { name: n.clone(), ty: bt.clone(), mutable: false, len: None, level: self.lambda_level });
                    }
                    let body = self.expr(t);
                    self.vars.truncate(m2);
                    arms.push(Arm { pat: Pat::Variant(e, v, pat), guard: None, body });
                }
                if use_wild {
                    arms.push(Arm { pat: Pat::Wild, guard: None, body: self.expr(t) });
                }
                self.feat("enum-match");
                Expr::Match(Box::new(scrut), arms)
            }
            1 => {
                let inner = self.scalar_ty();
                let scrut = self.expr(&Ty::Opt(Box::new(inner.clone())));
                let name = self.fresh("m");
                self.vars.push(Var { name: name.clone(), ty: inner, mutable: false, len: None, level: self.lambda_level });
                let some_body = self.expr(t);
                self.vars.truncate(mark);
                let none_body = self.expr(t);
                let mut arms = vec![Arm { pat: Pat::Some(Box::new(Pat::Bind(name))), guard: None, body: some_body }, Arm { pat: Pat::None, guard: None, body: none_body }];
                if self.c.chance(1, 2) {
                    arms.reverse();
                }
                self.feat("option-match");
                Expr::Match(Box::new(scrut), arms)
            }
            2 => {
                let scrut = self.expr(&Ty::Tuple(vec![Ty::Bool, Ty::I64]));
                let name = self.fresh("m");
                let mut arms = vec![];
                arms.push(Arm { pat: Pat::Tuple(vec![Pat::LitBool(true), Pat::LitI64(self.c.below(3) as i64)]), guard: None, body: self.expr(t) });
                self.vars.push(Var { name: name.clone(), ty: Ty::I64, mutable: false, len: None, level: self.lambda_level });
                let b = self.expr(t);
                self.vars.truncate(mark);
                arms.push(Arm { pat: Pat::Tuple(vec![Pat::LitBool(true), Pat::Bind(name)]), guard: None, body: b });
                arms.push(Arm { pat: Pat::Tuple(vec![Pat::LitBool(false), Pat::Wild]), guard: None, body: self.expr(t) });
                self.feat("tuple-match");
                Expr::Match(Box::new(scrut), arms)
            }
            _ => {
                let it = if self.c.chance(1, 2) { Ty::I64 } else { Ty::I32 };
                let scrut = self.expr(&it);
                let n = 1 + self.c.below(3);
                let mut used = vec![];
                let mut arms = vec![];
                for _ in 0..n {
                    let v = *self.c.pick(&[0i64, 1, 2, 3, -1, 7, 100]);
                    if used.contains(&v) {
                        continue;
                    }
                    used.push(v);
                    let pat = if it == Ty::I64 { Pat::LitI64(v) } else { Pat::LitI32(v as i32) };
                    arms.push(Arm { pat, guard: None, body: self.expr(t) });
                }
                arms.push(Arm { pat: Pat::Wild, guard: None, body: self.expr(t) });
                self.feat("int-match");
                Expr::Match(Box::new(scrut), arms)
            }
        };
        self.vars.truncate(mark);
        r
    }

    fn payload_pat(&mut self, ts: &[Ty]) -> (Vec<Pat>, Vec<(String, Ty)>) {
        let mut pats = vec![];
        let mut binds = vec![];
        for t in ts {
            if self.c.chance(3, 4) {
                let n = self.fresh("m");
                binds.push((n.clone(), t.clone()));
                pats.push(Pat::Bind(n));
            } else {
                pats.push(Pat::Wild);
            }
        }
        (pats, binds)
    }

    // ---------------- statements ----------------

    fn printable(&mut self) -> Option<Expr> {
        // a scalar expression built from variables, to make divergence observable
        let mut cands: Vec<Expr> = vec![];
        for v in self.vars.iter().rev().take(12) {
            if v.ty.is_scalar() {
                cands.push(Expr::Var(v.name.clone()));
            }
            match &v.ty {
                Ty::Array(_) | Ty::Vec(_) => cands.push(Expr::Len(Box::new(Expr::Var(v.name.clone())))),
                _ => {}
            }
        }
        for t in [Ty::I64, Ty::I32, Ty::Bool, Ty::Str, Ty::F64] {
            for e in self.projections(&t).into_iter().take(4) {
                cands.push(e);
            }
        }
        if cands.is_empty() {
            return None;
        }
        Some(cands[self.c.below(cands.len())].clone())
    }

    fn block(&mut self, max: usize) -> Block {
        let mark = self.vars.len();
        let n = self.c.below(max + 1);
        let mut stmts = vec![];
        for _ in 0..n {
            if let Some(s) = self.stmt() {
                // nothing follows an unconditional `return;` (see fn_body)
                let ends = matches!(s, Stmt::Return(None));
                stmts.push(s);
                if ends {
                    break;
                }
            }
        }
        self.vars.truncate(mark);
        Block { stmts, tail: None }
    }

    fn assignable(&mut self) -> Option<(LValue, Ty)> {
        let mut cands: Vec<(LValue, Ty)> = vec![];
        for v in &self.vars {
            if v.mutable && !matches!(v.ty, Ty::Param(_)) {
                cands.push((LValue::Var(v.name.clone()), v.ty.clone()));
                match &v.ty {
                    Ty::Struct(s) => {
                        for (i, f) in self.p.structs[*s].fields.iter().enumerate() {
                            cands.push((LValue::VarField(v.name.clone(), vec![(v.ty.clone(), i)]), f.1.clone()));
                        }
                    }
                    _ => {}
                }
            }
            match &v.ty {
                Ty::Class(s) => {
                    for (i, f) in self.p.classes[*s].fields.iter().enumerate() {
                        cands.push((LValue::Field(Box::new(Expr::Var(v.name.clone())), v.ty.clone(), i), f.1.clone()));
                        if let Ty::Struct(s2) = &f.1 {
                            for (j, f2) in self.p.structs[*s2].fields.iter().enumerate() {
                                cands.push((LValue::VarField(v.name.clone(), vec![(v.ty.clone(), i), (f.1.clone(), j)]), f2.1.clone()));
                            }
                        }
                    }
                }
                Ty::BoxOf(t) => cands.push((LValue::Field(Box::new(Expr::Var(v.name.clone())), v.ty.clone(), 0), (**t).clone())),
                Ty::Array(t) => {
                    cands.push((LValue::Index(Box::new(Expr::Var(v.name.clone())), Box::new(Expr::Lit(Lit::I64(0)))), (**t).clone()));
                }
                _ => {}
            }
        }
        for (i, g) in self.p.globals.iter().enumerate() {
            if g.mutable {
                cands.push((LValue::Global(i), g.ty.clone()));
            }
        }
        if self.self_mutable {
            if let Some(st) = self.self_ty.clone() {
                let fields: Vec<(usize, Ty)> = match &st {
                    Ty::Struct(s) => self.p.structs[*s].fields.iter().enumerate().map(|(i, f)| (i, f.1.clone())).collect(),
                    Ty::Class(s) => self.p.classes[*s].fields.iter().enumerate().map(|(i, f)| (i, f.1.clone())).collect(),
                    _ => vec![],
                };
                for (i, t) in fields {
                    cands.push((LValue::VarField("self".into(), vec![(st.clone(), i)]), t));
                }
            }
        }
        if cands.is_empty() {
            return None;
        }
        let k = self.c.below(cands.len());
        let (mut lv, t) = cands.swap_remove(k);
        // real index for arrays
        if let LValue::Index(a, _) = &lv {
            if let Expr::Var(n) = &**a {
                let vi = self.vars.iter().position(|v| &v.name == n).unwrap();
                let idx = self.index_for(vi);
                lv = LValue::Index(a.clone(), Box::new(idx));
            }
        }
        Some((lv, t))
    }

    pub fn stmt(&mut self) -> Option<Stmt> {
        self.budget -= 1;
        if self.budget <= 0 {
            return None;
        }
        let nested_ok = self.depth < 3;
        let k = self.c.weighted(&[
            10,                               // let
            8,                                // print
            6,                                // assign
            4,                                // compound assign
            if nested_ok { 3 } else { 0 },    // if
            if nested_ok { 2 } else { 0 },    // while
            if nested_ok { 3 } else { 0 },    // for range
            if nested_ok { 2 } else { 0 },    // for in
            4,                                // push
            2,                                // expr stmt (call)
            1,                                // assert
            5,                                // mutating call
            if self.in_loop { 2 } else { 0 }, // break/continue
            if self.in_fn_ret.is_some() && self.lambda_level == 0 { 1 } else { 0 }, // return
            8,                                // observe the result of a call (lambda, method, trait, generic)
            if self.profile == Profile::Alloc { 6 } else { 0 }, // forced collection
            if self.profile == Profile::Alloc && nested_ok { 6 } else { 0 }, // churn loop
        ]);
        match k {
            0 => {
                let t = self.any_ty(0);
                let t = if contains_param(&t) { Ty::I64 } else { t };
                // lambdas now and then
                let t = if self.c.chance(1, 10) {
                    let np = self.c.below(3);
                    Ty::Fun((0..np).map(|_| self.scalar_ty()).collect(), Box::new(self.scalar_ty()))
                } else if !self.p.traits.is_empty() && self.c.chance(1, 12) {
                    let tr = self.c.below(self.p.traits.len());
                    if self.p.impls.iter().any(|i| i.trait_id == tr && matches!(i.for_ty, Ty::Class(_))) { Ty::Dyn(tr) } else { t }
                } else {
                    t
                };
                let e = self.expr(&t);
                let len = match &e {
                    Expr::ArrayNew(_, es) => Some(es.len()),
                    Expr::ArrayFill(_, n, _) => match &**n {
                        Expr::Lit(Lit::I64(n)) => Some(*n as usize),
                        _ => None,
                    },
                    _ => None,
                };
                let name = self.fresh("v");
                let mutable = self.c.chance(1, 2);
                self.vars.push(Var { name: name.clone(), ty: t.clone(), mutable, len, level: self.lambda_level });
                Some(Stmt::Let(name, mutable, t, e))
            }
            1 => {
                let e = match self.printable() {
                    Some(e) if self.c.chance(3, 4) => e,
                    _ => {
                        let t = self.scalar_ty();
                        self.expr(&t)
                    }
                };
                // through a template or to_string
                if self.c.chance(1, 2) {
                    Some(Stmt::Print(Expr::Template(vec![TemplatePart::Text("p=".into()), TemplatePart::Expr(e)])))
                } else {
                    Some(Stmt::Print(Expr::ToString(Box::new(e))))
                }
            }
            2 => {
                let (lv, t) = self.assignable()?;
                let e = self.expr(&t);
                if !matches!(lv, LValue::Var(_)) {
                    self.feat("non-local-store");
                }
                Some(Stmt::Assign(lv, e))
            }
            3 => {
                let (lv, t) = self.assignable()?;
                if !t.is_int() {
                    let e = self.expr(&t);
                    return Some(Stmt::Assign(lv, e));
                }
                if matches!(&lv, LValue::Field(_, Ty::BoxOf(_), _)) {
                    // Known finding (C05 generic-field-compound-assign): `b.v -= 1` on a field of a
                    // generic class crashes bytecode emission. Excluded by construction.
                    EXCLUDED_GENERIC_FIELD_COMPOUND.fetch_add(1, std::sync::atomic::Ordering::Relaxed);
                    let e = self.expr(&t);
                    return Some(Stmt::Assign(lv, e));
                }
                let op = *self.c.pick(&[BinOp::Add, BinOp::Sub, BinOp::Mul, BinOp::BitXor, BinOp::BitOr, BinOp::BitAnd]);
                // The language does not pin down whether the target of `x op= e` is read before or
                // after `e` (the implementation reads it after): `e` must not be able to modify the
                // target, so it contains no calls other than the pure trace helper.
                if !self.wide {
                    self.no_calls += 1;
                }
                let e = self.expr(&t);
                if !self.wide {
                    self.no_calls -= 1;
                }
                if !matches!(lv, LValue::Var(_)) {
                    self.feat("compound-non-local");
                }
                Some(Stmt::Compound(lv, op, e))
            }
            4 => {
                let c = self.expr(&Ty::Bool);
                self.depth += 1;
                let t = self.block(3);
                let f = if self.c.chance(1, 2) { Some(self.block(3)) } else { None };
                self.depth -= 1;
                Some(Stmt::If(c, t, f))
            }
            5 => {
                // counted while loop: let mut i = 0; while i < N { body; i = i + 1; }
                let i = self.fresh("w");
                let n = 1 + self.c.below(6) as i64;
                let wmark = self.vars.len();
                self.vars.push(Var { name: i.clone(), ty: Ty::I64, mutable: false, len: None, level: self.lambda_level });
                let saved = std::mem::replace(&mut self.in_loop, false); // no break/continue: the increment must run
                self.depth += 1;
                let mut body = self.block(3);
                self.depth -= 1;
                self.in_loop = saved;
                body.stmts.push(Stmt::Assign(LValue::Var(i.clone()), Expr::Bin(BinOp::Add, Box::new(Expr::Var(i.clone())), Box::new(Expr::Lit(Lit::I64(1))))));
                let cond = Expr::Bin(BinOp::Lt, Box::new(Expr::Var(i.clone())), Box::new(Expr::Lit(Lit::I64(n))));
                // emitted as two statements wrapped in an if-true block to keep one Stmt
                let blk = Block { stmts: vec![Stmt::Let(i.clone(), true, Ty::I64, Expr::Lit(Lit::I64(0))), Stmt::While(cond, body)], tail: None };
                self.vars.truncate(wmark);
                self.feat("while");
                Some(Stmt::If(Expr::Lit(Lit::Bool(true)), blk, None))
            }
            6 => {
                let v = self.fresh("i");
                let lo = self.c.below(3) as i64;
                let hi = lo + self.c.below(6) as i64;
                let mark = self.vars.len();
                self.vars.push(Var { name: v.clone(), ty: Ty::I64, mutable: false, len: None, level: self.lambda_level });
                let saved = std::mem::replace(&mut self.in_loop, self.lambda_level == 0 || true);
                self.depth += 1;
                let body = self.block(3);
                self.depth -= 1;
                self.in_loop = saved;
                self.vars.truncate(mark);
                self.feat("for-range");
                Some(Stmt::ForRange(v, Expr::Lit(Lit::I64(lo)), Expr::Lit(Lit::I64(hi)), body))
            }
            7 => {
                let colls: Vec<usize> = (0..self.vars.len()).filter(|&i| matches!(self.vars[i].ty, Ty::Array(_) | Ty::Vec(_))).collect();
                if colls.is_empty() {
                    return None;
                }
                let ci = colls[self.c.below(colls.len())];
                let et = match &self.vars[ci].ty {
                    Ty::Array(t) | Ty::Vec(t) => (**t).clone(),
                    _ => unreachable!(),
                };
                let cname = self.vars[ci].name.clone();
                let is_vec = matches!(self.vars[ci].ty, Ty::Vec(_));
                let v = self.fresh("e");
                let mark = self.vars.len();
                let _ = is_vec;
                let hidden_ty: Option<Ty> = None;
                self.vars.push(Var { name: v.clone(), ty: et, mutable: false, len: None, level: self.lambda_level });
                let saved = std::mem::replace(&mut self.in_loop, true);
                self.depth += 1;
                let body = self.block(3);
                self.depth -= 1;
                self.in_loop = saved;
                self.vars.truncate(mark);
                if let Some(t) = hidden_ty {
                    self.vars[ci].ty = t;
                }
                self.feat("for-in");
                Some(Stmt::ForIn(v, Expr::Var(cname), body))
            }
            8 => {
                let vecs: Vec<usize> = (0..self.vars.len()).filter(|&i| matches!(self.vars[i].ty, Ty::Vec(_))).collect();
                if vecs.is_empty() {
                    return None;
                }
                let vi = vecs[self.c.below(vecs.len())];
                let et = match &self.vars[vi].ty {
                    Ty::Vec(t) => (**t).clone(),
                    _ => unreachable!(),
                };
                let name = self.vars[vi].name.clone();
                let e = self.expr(&et);
                self.feat("vec-push");
                Some(Stmt::Push(Expr::Var(name), e))
            }
            9 => {
                let t = self.scalar_ty();
                let e = self.call_producing(&t).or_else(|| self.call_producing(&Ty::Unit))?;
                Some(Stmt::Expr(e))
            }
            10 => {
                let e = if self.c.chance(3, 4) {
                    // an assertion that holds: x == x on a pure variable
                    let vs = self.vars_of(&Ty::I64);
                    if vs.is_empty() {
                        Expr::Lit(Lit::Bool(true))
                    } else {
                        let n = self.vars[vs[self.c.below(vs.len())]].name.clone();
                        Expr::Bin(BinOp::Eq, Box::new(Expr::Var(n.clone())), Box::new(Expr::Var(n)))
                    }
                } else {
                    self.expr(&Ty::Bool)
                };
                Some(Stmt::Assert(e))
            }
            11 => {
                let cands: Vec<(usize, usize, usize)> = self
                    .vars
                    .iter()
                    .enumerate()
                    .filter(|(_, v)| v.mutable && v.level == self.lambda_level)
                    .filter_map(|(i, v)| match &v.ty {
                        Ty::Struct(s) => Some((i, *s)),
                        _ => None,
                    })
                    .flat_map(|(i, s)| self.p.structs[s].methods.iter().enumerate().filter(|(_, m)| m.mutating).map(move |(mi, _)| (i, s, mi)).collect::<Vec<_>>())
                    .collect();
                if cands.is_empty() {
                    return None;
                }
                let (vi, s, mi) = cands[self.c.below(cands.len())];
                let ps: Vec<Ty> = self.p.structs[s].methods[mi].params.iter().map(|p| p.1.clone()).collect();
                let args = ps.iter().map(|t| self.expr(t)).collect();
                self.feat("mutating-method");
                Some(Stmt::MutCall(self.vars[vi].name.clone(), s, mi, args))
            }
            12 => Some(if self.c.chance(1, 2) { Stmt::Break } else { Stmt::Continue }),
            15 => Some(Stmt::Raw(if self.c.chance(1, 2) { "std::force_collect();".into() } else { "std::force_minor_collect();".into() })),
            16 => {
                // churn: allocate garbage and (sometimes) survivors that old objects point to
                let n = *self.c.pick(&[50i64, 200, 1000]);
                let v = self.fresh("i");
                let mark = self.vars.len();
                self.vars.push(Var { name: v.clone(), ty: Ty::I64, mutable: false, len: None, level: self.lambda_level });
                self.depth += 1;
                let saved = std::mem::replace(&mut self.in_loop, true);
                let mut body = Block::default();
                // one allocation of a reference-bearing value per iteration
                let t = match self.c.below(4) {
                    0 if !self.p.classes.is_empty() => Ty::Class(self.c.below(self.p.classes.len())),
                    1 => Ty::Array(Box::new(Ty::I64)),
                    2 => Ty::Tuple(vec![Ty::Str, Ty::I64]),
                    _ => Ty::Str,
                };
                let e = self.expr(&t);
                let name = self.fresh("v");
                body.stmts.push(Stmt::Let(name.clone(), false, t.clone(), e));
                self.vars.push(Var { name, ty: t, mutable: false, len: None, level: self.lambda_level });
                if let Some(s) = self.stmt() {
                    // keep loop bodies free of prints that scale with n
                    if !matches!(s, Stmt::Print(_) | Stmt::PrintNoNl(_)) {
                        body.stmts.push(s);
                    }
                }
                self.in_loop = saved;
                self.depth -= 1;
                self.vars.truncate(mark);
                self.feat("churn-loop");
                Some(Stmt::ForRange(v, Expr::Lit(Lit::I64(0)), Expr::Lit(Lit::I64(n)), body))
            }
            14 => {
                let order = [Ty::I64, Ty::I32, Ty::Bool, Ty::Str, Ty::F64, Ty::Char, Ty::U8, Ty::F32];
                let start = self.c.below(order.len());
                for k in 0..order.len() {
                    let t = &order[(start + k) % order.len()];
                    if let Some(e) = self.call_producing(t) {
                        return Some(Stmt::Print(Expr::Template(vec![TemplatePart::Text("c=".into()), TemplatePart::Expr(e)])));
                    }
                }
                None
            }
            _ => {
                let t = self.in_fn_ret.clone().unwrap();
                if t == Ty::Unit {
                    Some(Stmt::Return(None))
                } else {
                    let e = self.expr(&t);
                    // conditional early return
                    let c = self.expr(&Ty::Bool);
                    Some(Stmt::If(c, Block { stmts: vec![Stmt::Return(Some(e))], tail: None }, None))
                }
            }
        }
    }

    // ---------------- items ----------------

    fn fn_body(&mut self, params: &[(String, Ty)], ret: &Ty, max_stmts: usize) -> Block {
        let saved_vars = std::mem::take(&mut self.vars);
        let saved_ret = self.in_fn_ret.replace(ret.clone());
        let saved_loop = std::mem::replace(&mut self.in_loop, false);
        let saved_depth = std::mem::replace(&mut self.depth, 1);
        let saved_level = std::mem::replace(&mut self.lambda_level, 0);
        for (n, t) in params {
            self.vars.push(Var { name: n.clone(), ty: t.clone(), mutable: false, len: None, level: 0 });
        }
        let n = self.c.below(max_stmts + 1);
        let mut stmts = vec![];
        for _ in 0..n {
            if let Some(s) = self.stmt() {
                // Known finding C05 (verifier assertion `instruction_offsets.contains(target)`): a loop that is the
                // last thing of a body after an unconditional `return;` makes the bytecode generator bind the loop's
                // end label behind the last instruction. Excluded by construction: nothing follows `return;`.
                let ends = matches!(s, Stmt::Return(None));
                stmts.push(s);
                if ends {
                    break;
                }
            }
        }
        let tail = if *ret == Ty::Unit { None } else { Some(self.expr(ret)) };
        self.vars = saved_vars;
        self.in_fn_ret = saved_ret;
        self.in_loop = saved_loop;
        self.depth = saved_depth;
        self.lambda_level = saved_level;
        Block { stmts, tail }
    }

    fn gen_types(&mut self) {
        let ne = self.c.below(4);
        for i in 0..ne {
            let nv = 1 + self.c.below(4);
            let mut variants = vec![];
            for v in 0..nv {
                let np = self.c.weighted(&[3, 3, 2]);
                // payloads: scalars, a tuple, earlier enums, options of scalars / earlier enums (layout-relevant:
                // an enum with one payload-free and one single-payload variant may be represented as a nullable pointer)
                let ts = (0..np)
                    .map(|_| match self.c.weighted(&[9, 3, if i > 0 { 2 } else { 0 }, 2, if i > 0 { 1 } else { 0 }]) {
                        0 => self.scalar_ty(),
                        1 => Ty::Tuple(vec![Ty::I64, Ty::Bool]),
                        2 => Ty::Enum(self.c.below(i)),
                        3 => Ty::Opt(Box::new(self.scalar_ty())),
                        _ => Ty::Opt(Box::new(Ty::Enum(self.c.below(i)))),
                    })
                    .collect();
                variants.push((format!("V{v}"), ts));
            }
            self.p.enums.push(EnumDef { name: format!("E{i}"), variants });
        }
        let ns = self.c.below(3);
        for i in 0..ns {
            let nf = 1 + self.c.below(4);
            let fields = (0..nf)
                .map(|f| {
                    let t = match self.c.weighted(&[6, 2, if i > 0 { 1 } else { 0 }, if self.p.enums.is_empty() { 0 } else { 1 }]) {
                        0 => self.scalar_ty(),
                        1 => Ty::Tuple(vec![Ty::I64, Ty::I32]),
                        2 => Ty::Struct(self.c.below(i)),
                        _ => Ty::Enum(self.c.below(self.p.enums.len())),
                    };
                    (format!("f{f}"), t)
                })
                .collect();
            self.p.structs.push(StructDef { name: format!("S{i}"), fields, methods: vec![] });
        }
        let nc = self.c.below(3);
        for i in 0..nc {
            let nf = 1 + self.c.below(4);
            let fields = (0..nf)
                .map(|f| {
                    let t = match self.c.weighted(&[6, 2, if ns > 0 { 2 } else { 0 }, if i > 0 { 1 } else { 0 }, 1]) {
                        0 => self.scalar_ty(),
                        1 => Ty::Tuple(vec![Ty::I64, Ty::Bool]),
                        2 => Ty::Struct(self.c.below(ns)),
                        3 => Ty::Class(self.c.below(i)),
                        _ => Ty::Array(Box::new(Ty::I64)),
                    };
                    (format!("f{f}"), t)
                })
                .collect();
            self.p.classes.push(StructDef { name: format!("K{i}"), fields, methods: vec![] });
        }
    }

    fn gen_methods(&mut self) {
        for s in 0..self.p.structs.len() {
            let nm = self.c.below(3);
            for m in 0..nm {
                let mutating = self.c.chance(1, 2);
                let np = self.c.below(3);
                let params: Vec<(String, Ty)> = (0..np).map(|_| (self.fresh("p"), self.scalar_ty())).collect();
                let ret = if mutating { Ty::Unit } else { self.scalar_ty() };
                self.self_ty = Some(Ty::Struct(s));
                self.self_mutable = mutating;
                let mut body = self.fn_body(&params, &ret, 2);
                if mutating {
                    // make sure it mutates something
                    let fi = self.c.below(self.p.structs[s].fields.len());
                    let ft = self.p.structs[s].fields[fi].1.clone();
                    let saved = std::mem::take(&mut self.vars);
                    for (n, t) in &params {
                        self.vars.push(Var { name: n.clone(), ty: t.clone(), mutable: false, len: None, level: 0 });
                    }
                    let e = self.expr(&ft);
                    self.vars = saved;
                    body.stmts.push(Stmt::Assign(LValue::VarField("self".into(), vec![(Ty::Struct(s), fi)]), e));
                }
                self.self_ty = None;
                self.self_mutable = false;
                self.p.structs[s].methods.push(FnDef { name: format!("m{m}"), tparams: vec![], params, ret, body, mutating });
            }
        }
        for c in 0..self.p.classes.len() {
            let nm = self.c.below(3);
            for m in 0..nm {
                let np = self.c.below(3);
                let params: Vec<(String, Ty)> = (0..np).map(|_| (self.fresh("p"), self.scalar_ty())).collect();
                let ret = if self.c.chance(1, 3) { Ty::Unit } else { self.scalar_ty() };
                self.self_ty = Some(Ty::Class(c));
                self.self_mutable = true;
                let body = self.fn_body(&params, &ret, 3);
                self.self_ty = None;
                self.self_mutable = false;
                self.p.classes[c].methods.push(FnDef { name: format!("m{m}"), tparams: vec![], params, ret, body, mutating: false });
            }
        }
    }

    fn gen_traits(&mut self) {
        if self.p.structs.is_empty() && self.p.classes.is_empty() {
            return;
        }
        if !self.c.chance(2, 3) {
            return;
        }
        let tid = self.p.traits.len();
        let nm = 1 + self.c.below(2);
        let mut methods = vec![];
        let mut has_default = vec![];
        for m in 0..nm {
            let params = vec![(self.fresh("p"), Ty::I64)];
            let ret = if self.c.chance(3, 4) { Ty::I64 } else { self.scalar_ty() };
            methods.push(FnDef { name: format!("t{m}"), tparams: vec![], params, ret, body: Block::default(), mutating: false });
            has_default.push(false);
        }
        // a default method calling the first required method
        if self.c.chance(1, 2) {
            let pn = self.fresh("p");
            let call = Expr::TraitCall(Box::new(Expr::Var("self".into())), tid, 0, vec![Expr::Var(pn.clone())]);
            let ret = methods[0].ret.clone();
            let body = if ret == Ty::I64 {
                Block { stmts: vec![], tail: Some(Expr::Bin(BinOp::Add, Box::new(call), Box::new(Expr::Call(usize::MAX, vec![], vec![Expr::Lit(Lit::I64(1))])))) }
            } else {
                Block { stmts: vec![], tail: Some(call) }
            };
            methods.push(FnDef { name: "td".into(), tparams: vec![], params: vec![(pn, Ty::I64)], ret, body, mutating: false });
            has_default.push(true);
            self.feat("trait-default-method");
        }
        self.p.traits.push(TraitDef { name: format!("Tr{tid}"), methods, has_default });
        // impls
        let mut targets: Vec<Ty> = (0..self.p.structs.len()).map(Ty::Struct).chain((0..self.p.classes.len()).map(Ty::Class)).collect();
        let keep = 1 + self.c.below(targets.len());
        targets.truncate(keep);
        for for_ty in targets {
            let mut ims = vec![];
            for mi in 0..self.p.traits[tid].methods.len() {
                if self.p.traits[tid].has_default[mi] && self.c.chance(2, 3) {
                    ims.push(None);
                    continue;
                }
                let sig = self.p.traits[tid].methods[mi].clone();
                let params: Vec<(String, Ty)> = sig.params.iter().map(|(_, t)| (self.fresh("p"), t.clone())).collect();
                self.self_ty = Some(for_ty.clone());
                self.self_mutable = matches!(for_ty, Ty::Class(_));
                let body = self.fn_body(&params, &sig.ret, 2);
                self.self_ty = None;
                self.self_mutable = false;
                ims.push(Some(FnDef { name: sig.name.clone(), tparams: vec![], params, ret: sig.ret.clone(), body, mutating: false }));
            }
            self.p.impls.push(ImplDef { trait_id: tid, for_ty, methods: ims });
        }
        self.feat("trait");
    }

    fn gen_globals(&mut self) {
        let n = self.c.below(3);
        for i in 0..n {
            let ty = match self.c.weighted(&[6, 2, 1]) {
                0 => self.scalar_ty(),
                1 => Ty::Tuple(vec![Ty::I64, Ty::Bool]),
                _ => Ty::Array(Box::new(Ty::I64)),
            };
            let init = self.simple(&ty);
            let mutable = self.c.chance(2, 3);
            self.p.globals.push(GlobalDef { name: format!("G{i}"), ty, init, mutable });
            self.feat("global");
        }
    }

    fn gen_fns(&mut self) {
        let n = self.c.below(5);
        for i in 0..n {
            let generic = self.c.weighted(&[6, 2, if self.p.traits.is_empty() { 0 } else { 3 }]);
            let (tparams, mut params, ret): (Vec<Option<usize>>, Vec<(String, Ty)>, Ty) = match generic {
                0 => {
                    let np = self.c.below(4);
                    let params = (0..np)
                        .map(|_| {
                            let t = self.any_ty(1);
                            (self.fresh("p"), t)
                        })
                        .collect();
                    let ret = if self.c.chance(1, 5) { Ty::Unit } else { self.any_ty(1) };
                    (vec![], params, ret)
                }
                1 => {
                    // unbounded generic: values of T can only be moved around
                    let shape = self.c.below(3);
                    let params = vec![(self.fresh("p"), Ty::Param(0)), (self.fresh("p"), if shape == 1 { Ty::Param(0) } else { Ty::I64 })];
                    let ret = match shape {
                        0 => Ty::Param(0),
                        1 => Ty::Tuple(vec![Ty::Param(0), Ty::Param(0)]),
                        _ => Ty::Opt(Box::new(Ty::Param(0))),
                    };
                    self.feat("generic-fn-def");
                    (vec![None], params, ret)
                }
                _ => {
                    let tr = self.c.below(self.p.traits.len());
                    let params = vec![(self.fresh("p"), Ty::Param(0)), (self.fresh("p"), Ty::I64)];
                    let ret = if self.c.chance(3, 4) { Ty::I64 } else { self.scalar_ty() };
                    self.feat("generic-fn-def");
                    self.feat("bounded-generic");
                    (vec![Some(tr)], params, ret)
                }
            };
            if params.len() > 1 && self.c.chance(1, 6) {
                params.truncate(1);
            }
            self.callable_fns = i;
            self.tparams = tparams.clone();
            let body = self.fn_body(&params, &ret, 4);
            self.tparams.clear();
            self.p.fns.push(FnDef { name: format!("f{i}"), tparams, params, ret, body, mutating: false });
        }
        self.callable_fns = self.p.fns.len();
    }

    pub fn program(mut self) -> Program {
        self.gen_types();
        self.budget = 1_000_000;
        self.gen_globals();
        self.budget = 120;
        self.gen_methods();
        self.budget += 80;
        self.gen_traits();
        self.budget += 250;
        self.gen_fns();
        self.budget = 500;
        // main
        self.vars.clear();
        self.depth = 0;
        self.max_depth = 4;
        let n = 6 + self.c.below(20);
        let mut stmts = vec![];
        for _ in 0..n {
            if let Some(s) = self.stmt() {
                stmts.push(s);
            }
        }
        // final observation of everything still in scope
        let mut tail_prints = vec![];
        for v in self.vars.iter().rev().take(10) {
            if v.ty.is_scalar() {
                tail_prints.push(Stmt::Print(Expr::Template(vec![TemplatePart::Text(format!("{}=", v.name)), TemplatePart::Expr(Expr::Var(v.name.clone()))])));
            }
        }
        stmts.extend(tail_prints);
        for (i, g) in self.p.globals.iter().enumerate() {
            if g.ty.is_scalar() {
                stmts.push(Stmt::Print(Expr::Template(vec![TemplatePart::Text(format!("{}=", g.name)), TemplatePart::Expr(Expr::Global(i))])));
            }
        }
        match self.c.weighted(&[10, 2, 1, 1]) {
            1 => {
                self.p.main_returns_i32 = true;
                let e = Expr::Lit(Lit::I32(*self.c.pick(&[0i32, 1, 3, 42, 100])));
                self.p.main = Block { stmts, tail: Some(e) };
                return self.p;
            }
            2 => stmts.push(Stmt::Exit(Expr::Lit(Lit::I32(*self.c.pick(&[0i32, 2, 7, 99]))))),
            3 => stmts.push(Stmt::Fatal("generated failure".into())),
            _ => {}
        }
        self.p.main = Block { stmts, tail: None };
        self.p
    }
}

fn tail_is_local(e: &Expr, name: &str) -> bool {
    match e {
        Expr::Var(n) => n == name,
        Expr::Block(b) => b.tail.as_ref().map(|t| tail_is_local(t, name)).unwrap_or(false),
        _ => false,
    }
}

/// find X with subst(pattern, X) == t
pub fn unify(pattern: &Ty, t: &Ty) -> Option<Ty> {
    match (pattern, t) {
        (Ty::Param(_), t) => Some(t.clone()),
        (Ty::Tuple(ps), Ty::Tuple(ts)) if ps.len() == ts.len() => {
            let mut found: Option<Ty> = None;
            for (p, t) in ps.iter().zip(ts.iter()) {
                if contains_param(p) {
                    let x = unify(p, t)?;
                    match &found {
                        Some(f) if f != &x => return None,
                        _ => found = Some(x),
                    }
                } else if p != t {
                    return None;
                }
            }
            found
        }
        (Ty::Opt(p), Ty::Opt(t)) => unify(p, t),
        _ => None,
    }
}

pub fn contains_param(t: &Ty) -> bool {
    match t {
        Ty::Param(_) => true,
        Ty::Tuple(ts) => ts.iter().any(contains_param),
        Ty::Array(t) | Ty::Vec(t) | Ty::Opt(t) | Ty::BoxOf(t) => contains_param(t),
        Ty::Fun(ps, r) => ps.iter().any(contains_param) || contains_param(r),
        _ => false,
    }
}

pub fn subst(t: &Ty, with: &Ty) -> Ty {
    match t {
        Ty::Param(_) => with.clone(),
        Ty::Tuple(ts) => Ty::Tuple(ts.iter().map(|t| subst(t, with)).collect()),
        Ty::Array(t) => Ty::Array(Box::new(subst(t, with))),
        Ty::Vec(t) => Ty::Vec(Box::new(subst(t, with))),
        Ty::Opt(t) => Ty::Opt(Box::new(subst(t, with))),
        Ty::BoxOf(t) => Ty::BoxOf(Box::new(subst(t, with))),
        Ty::Fun(ps, r) => Ty::Fun(ps.iter().map(|t| subst(t, with)).collect(), Box::new(subst(r, with))),
        t => t.clone(),
    }
}

pub fn generate_wide(c: &mut Choices) -> Program {
    let mut g = Gen::new(c, Profile::Core);
    g.wide = true;
    g.program()
}

pub fn generate(c: &mut Choices, profile: Profile) -> Program {
    Gen::new(c, profile).program()
}
