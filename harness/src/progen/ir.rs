//! RefDora IR: typed program representation shared by the generator, the
//! reference interpreter and the pretty-printer to Dora source.

use std::fmt::Write;

#[derive(Clone, Debug, PartialEq, Eq, Hash, PartialOrd, Ord)]
pub enum Ty {
    Unit,
    Bool,
    U8,
    Char,
    I32,
    I64,
    F32,
    F64,
    Str,
    Tuple(Vec<Ty>),
    Struct(usize),
    Class(usize),
    Enum(usize),
    Array(Box<Ty>),
    Vec(Box<Ty>),
    Opt(Box<Ty>),
    Fun(Vec<Ty>, Box<Ty>),
    Dyn(usize),
    /// type parameter of the enclosing generic function
    Param(usize),
    /// generic class Box[T]
    BoxOf(Box<Ty>),
}

impl Ty {
    pub fn is_int(&self) -> bool {
        matches!(self, Ty::I32 | Ty::I64)
    }
    pub fn is_scalar(&self) -> bool {
        matches!(self, Ty::Bool | Ty::U8 | Ty::Char | Ty::I32 | Ty::I64 | Ty::F32 | Ty::F64 | Ty::Str)
    }
    pub fn is_ref(&self) -> bool {
        matches!(self, Ty::Class(_) | Ty::Array(_) | Ty::Vec(_) | Ty::Fun(..) | Ty::Dyn(_) | Ty::BoxOf(_))
    }
}

#[derive(Clone, Copy, Debug, PartialEq, Eq)]
pub enum BinOp {
    Add,
    Sub,
    Mul,
    Div,
    Mod,
    BitOr,
    BitAnd,
    BitXor,
    Shl,
    Sar,
    Shr,
    Eq,
    Ne,
    Lt,
    Le,
    Gt,
    Ge,
    And,
    Or,
    Same,    // ===
    NotSame, // !==
}

impl BinOp {
    pub fn sym(&self) -> &'static str {
        match self {
            BinOp::Add => "+",
            BinOp::Sub => "-",
            BinOp::Mul => "*",
            BinOp::Div => "/",
            BinOp::Mod => "%",
            BinOp::BitOr => "|",
            BinOp::BitAnd => "&",
            BinOp::BitXor => "^",
            BinOp::Shl => "<<",
            BinOp::Sar => ">>",
            BinOp::Shr => ">>>",
            BinOp::Eq => "==",
            BinOp::Ne => "!=",
            BinOp::Lt => "<",
            BinOp::Le => "<=",
            BinOp::Gt => ">",
            BinOp::Ge => ">=",
            BinOp::And => "&&",
            BinOp::Or => "||",
            BinOp::Same => "===",
            BinOp::NotSame => "!==",
        }
    }
}

#[derive(Clone, Debug)]
pub enum Lit {
    Unit,
    Bool(bool),
    U8(u8),
    Char(char),
    I32(i32),
    I64(i64),
    F32(f32),
    F64(f64),
    Str(String),
}

#[derive(Clone, Debug)]
pub enum Pat {
    Wild,
    Bind(String),
    LitI64(i64),
    LitI32(i32),
    LitBool(bool),
    Tuple(Vec<Pat>),
    Variant(usize, usize, Vec<Pat>),
    Some(Box<Pat>),
    None,
}

#[derive(Clone, Debug)]
pub struct Arm {
    pub pat: Pat,
    pub guard: Option<Expr>,
    pub body: Expr,
}

#[derive(Clone, Debug)]
pub enum Expr {
    Lit(Lit),
    Var(String),
    Global(usize),
    Bin(BinOp, Box<Expr>, Box<Expr>),
    Neg(Box<Expr>),
    Not(Box<Expr>),
    /// method-style intrinsic on a scalar: name, receiver, args  (wrapping_add, to_int64, …)
    Intrinsic(&'static str, Box<Expr>, Vec<Expr>),
    Call(usize, Vec<Ty>, Vec<Expr>),
    /// receiver, owner type, method index, args
    Method(Box<Expr>, Ty, usize, Vec<Expr>),
    /// trait method call through a bound or a trait object: receiver, trait, method index, args
    TraitCall(Box<Expr>, usize, usize, Vec<Expr>),
    Tuple(Vec<Expr>),
    TupleGet(Box<Expr>, usize),
    StructNew(usize, Vec<Expr>),
    ClassNew(usize, Vec<Expr>),
    BoxNew(Ty, Box<Expr>),
    Field(Box<Expr>, Ty, usize),
    EnumNew(usize, usize, Vec<Expr>),
    ArrayNew(Ty, Vec<Expr>),
    ArrayFill(Ty, Box<Expr>, Box<Expr>),
    Index(Box<Expr>, Box<Expr>),
    Len(Box<Expr>),
    VecNew(Ty),
    Some(Ty, Box<Expr>),
    None(Ty),
    /// Option::get_or_panic
    Unwrap(Box<Expr>),
    IsSome(Box<Expr>),
    If(Box<Expr>, Box<Block>, Box<Block>),
    Match(Box<Expr>, Vec<Arm>),
    Block(Box<Block>),
    Lambda(Vec<(String, Ty)>, Ty, Box<Block>),
    CallValue(Box<Expr>, Vec<Expr>),
    AsDyn(Box<Expr>, usize),
    Template(Vec<TemplatePart>),
    ToString(Box<Expr>),
}

#[derive(Clone, Debug)]
pub enum TemplatePart {
    Text(String),
    Expr(Expr),
}

#[derive(Clone, Debug)]
pub enum LValue {
    Var(String),
    Global(usize),
    Field(Box<Expr>, Ty, usize),
    /// field path on a local value-typed variable: var, [(owner ty, field idx)]
    VarField(String, Vec<(Ty, usize)>),
    Index(Box<Expr>, Box<Expr>),
}

#[derive(Clone, Debug)]
pub enum Stmt {
    Let(String, bool, Ty, Expr),
    Assign(LValue, Expr),
    Compound(LValue, BinOp, Expr),
    Expr(Expr),
    Print(Expr),
    /// print without trailing newline
    PrintNoNl(Expr),
    While(Expr, Block),
    ForRange(String, Expr, Expr, Block),
    ForIn(String, Expr, Block),
    If(Expr, Block, Option<Block>),
    Break,
    Continue,
    Return(Option<Expr>),
    Push(Expr, Expr),
    Assert(Expr),
    /// mutating method call on a local struct variable: var, struct, method idx, args
    MutCall(String, usize, usize, Vec<Expr>),
    Exit(Expr),
    Fatal(String),
    /// verbatim text (fault injection for C05; never interpreted)
    Raw(String),
}

#[derive(Clone, Debug, Default)]
pub struct Block {
    pub stmts: Vec<Stmt>,
    pub tail: Option<Expr>,
}

#[derive(Clone, Debug)]
pub struct FnDef {
    pub name: String,
    /// type parameters: optional trait bound
    pub tparams: Vec<Option<usize>>,
    pub params: Vec<(String, Ty)>,
    pub ret: Ty,
    pub body: Block,
    pub mutating: bool,
}

#[derive(Clone, Debug)]
pub struct StructDef {
    pub name: String,
    pub fields: Vec<(String, Ty)>,
    pub methods: Vec<FnDef>,
}

#[derive(Clone, Debug)]
pub struct EnumDef {
    pub name: String,
    pub variants: Vec<(String, Vec<Ty>)>,
}

#[derive(Clone, Debug)]
pub struct TraitDef {
    pub name: String,
    /// required methods: signature only (body ignored); default methods: with body
    pub methods: Vec<FnDef>,
    pub has_default: Vec<bool>,
}

#[derive(Clone, Debug)]
pub struct ImplDef {
    pub trait_id: usize,
    pub for_ty: Ty,
    /// one per trait method; None => use default
    pub methods: Vec<Option<FnDef>>,
}

#[derive(Clone, Debug)]
pub struct GlobalDef {
    pub name: String,
    pub ty: Ty,
    pub init: Expr,
    pub mutable: bool,
}

#[derive(Clone, Debug, Default)]
pub struct Program {
    pub structs: Vec<StructDef>,
    pub classes: Vec<StructDef>,
    pub enums: Vec<EnumDef>,
    pub traits: Vec<TraitDef>,
    pub impls: Vec<ImplDef>,
    pub globals: Vec<GlobalDef>,
    pub fns: Vec<FnDef>,
    pub main: Block,
    pub main_returns_i32: bool,
    /// feature tags recorded by the generator
    pub features: std::collections::BTreeSet<&'static str>,
    /// verbatim top-level items (fault injection for C05)
    pub raw_items: Vec<String>,
}

// ---------------------------------------------------------------------------
// Pretty printer

pub struct Printer<'a> {
    pub p: &'a Program,
    ind: usize,
}

impl<'a> Printer<'a> {
    pub fn new(p: &'a Program) -> Self {
        Printer { p, ind: 0 }
    }
    fn nl(&mut self) -> String {
        let mut s = String::from("\n");
        for _ in 0..self.ind {
            s.push_str("    ");
        }
        s
    }
    pub fn ty(&self, t: &Ty) -> String {
        match t {
            Ty::Unit => "()".into(),
            Ty::Bool => "Bool".into(),
            Ty::U8 => "UInt8".into(),
            Ty::Char => "Char".into(),
            Ty::I32 => "Int32".into(),
            Ty::I64 => "Int64".into(),
            Ty::F32 => "Float32".into(),
            Ty::F64 => "Float64".into(),
            Ty::Str => "String".into(),
            Ty::Tuple(ts) => format!("({})", ts.iter().map(|t| self.ty(t)).collect::<Vec<_>>().join(", ")),
            Ty::Struct(i) => self.p.structs[*i].name.clone(),
            Ty::Class(i) => self.p.classes[*i].name.clone(),
            Ty::Enum(i) => self.p.enums[*i].name.clone(),
            Ty::Array(t) => format!("Array[{}]", self.ty(t)),
            Ty::Vec(t) => format!("Vec[{}]", self.ty(t)),
            Ty::Opt(t) => format!("Option[{}]", self.ty(t)),
            Ty::Fun(ps, r) => format!("({}): {}", ps.iter().map(|t| self.ty(t)).collect::<Vec<_>>().join(", "), self.ty(r)),
            Ty::Dyn(i) => self.p.traits[*i].name.clone(),
            Ty::Param(i) => format!("T{i}"),
            Ty::BoxOf(t) => format!("Bx[{}]", self.ty(t)),
        }
    }
    fn lit(&self, l: &Lit) -> String {
        match l {
            Lit::Unit => "()".into(),
            Lit::Bool(b) => b.to_string(),
            Lit::U8(v) => format!("{v}u8"),
            Lit::Char(c) => format!("'{c}'"),
            Lit::I32(v) => {
                if *v == i32::MIN {
                    "(-2147483647i32 - 1i32)".into()
                } else if *v < 0 {
                    format!("(-{}i32)", -(*v as i64))
                } else {
                    format!("{v}i32")
                }
            }
            Lit::I64(v) => {
                if *v == i64::MIN {
                    "(-9223372036854775807 - 1)".into()
                } else if *v < 0 {
                    format!("(-{})", -(*v as i128))
                } else {
                    format!("{v}")
                }
            }
            Lit::F32(v) => {
                if *v < 0.0 || (*v == 0.0 && v.is_sign_negative()) {
                    format!("(-{:.4}f32)", -*v)
                } else {
                    format!("{:.4}f32", v)
                }
            }
            Lit::F64(v) => {
                if *v < 0.0 || (*v == 0.0 && v.is_sign_negative()) {
                    format!("(-{:.4})", -*v)
                } else {
                    format!("{:.4}", v)
                }
            }
            Lit::Str(s) => format!("\"{s}\""),
        }
    }
    fn pat(&self, p: &Pat) -> String {
        match p {
            Pat::Wild => "_".into(),
            Pat::Bind(n) => n.clone(),
            Pat::LitI64(v) => {
                if *v < 0 {
                    format!("-{}", -(*v as i128))
                } else {
                    v.to_string()
                }
            }
            Pat::LitI32(v) => {
                if *v < 0 {
                    format!("-{}i32", -(*v as i64))
                } else {
                    format!("{v}i32")
                }
            }
            Pat::LitBool(b) => b.to_string(),
            Pat::Tuple(ps) => format!("({})", ps.iter().map(|p| self.pat(p)).collect::<Vec<_>>().join(", ")),
            Pat::Variant(e, v, ps) => {
                let en = &self.p.enums[*e];
                if ps.is_empty() {
                    format!("{}::{}", en.name, en.variants[*v].0)
                } else {
                    format!("{}::{}({})", en.name, en.variants[*v].0, ps.iter().map(|p| self.pat(p)).collect::<Vec<_>>().join(", "))
                }
            }
            Pat::Some(p) => format!("Some({})", self.pat(p)),
            Pat::None => "None".into(),
        }
    }
    /// receiver position: parenthesise anything that is not a simple postfix expression
    fn recv(&mut self, e: &Expr) -> String {
        let s = self.expr(e);
        match e {
            Expr::Var(_) | Expr::Global(_) | Expr::Field(..) | Expr::TupleGet(..) | Expr::Call(..) | Expr::Method(..) | Expr::TraitCall(..) | Expr::Index(..) | Expr::CallValue(..) | Expr::Len(_) | Expr::Intrinsic(..) | Expr::Unwrap(_) => s,
            _ if s.starts_with('(') && s.ends_with(')') && balanced_outer(&s) => s,
            _ => format!("({s})"),
        }
    }
    fn args(&mut self, es: &[Expr]) -> String {
        es.iter().map(|e| self.expr(e)).collect::<Vec<_>>().join(", ")
    }
    fn owner_def(&self, t: &Ty) -> &StructDef {
        match t {
            Ty::Struct(i) => &self.p.structs[*i],
            Ty::Class(i) => &self.p.classes[*i],
            _ => panic!("owner_def on {t:?}"),
        }
    }
    fn field_name(&self, owner: &Ty, idx: usize) -> String {
        match owner {
            Ty::BoxOf(_) => "v".into(),
            _ => self.owner_def(owner).fields[idx].0.clone(),
        }
    }
    pub fn expr(&mut self, e: &Expr) -> String {
        match e {
            Expr::Lit(l) => self.lit(l),
            Expr::Var(n) => n.clone(),
            Expr::Global(i) => self.p.globals[*i].name.clone(),
            Expr::Bin(op, a, b) => format!("({} {} {})", self.expr(a), op.sym(), self.expr(b)),
            Expr::Neg(a) => format!("(-{})", self.expr(a)),
            Expr::Not(a) => format!("(!{})", self.expr(a)),
            Expr::Intrinsic(name, r, args) => format!("{}.{}({})", self.recv(r), name, self.args(args)),
            Expr::Call(f, _, args) if *f == usize::MAX => format!("tr({})", self.args(args)),
            Expr::Call(f, targs, args) => {
                let ta = if targs.is_empty() { String::new() } else { format!("[{}]", targs.iter().map(|t| self.ty(t)).collect::<Vec<_>>().join(", ")) };
                format!("{}{}({})", self.p.fns[*f].name, ta, self.args(args))
            }
            Expr::Method(r, owner, m, args) => {
                let name = self.owner_def(owner).methods[*m].name.clone();
                format!("{}.{}({})", self.recv(r), name, self.args(args))
            }
            Expr::TraitCall(r, t, m, args) => {
                let name = self.p.traits[*t].methods[*m].name.clone();
                format!("{}.{}({})", self.recv(r), name, self.args(args))
            }
            Expr::Tuple(es) => {
                if es.len() == 1 {
                    format!("({},)", self.expr(&es[0]))
                } else {
                    format!("({})", self.args(es))
                }
            }
            Expr::TupleGet(a, i) => format!("{}.{}", self.recv(a), i),
            Expr::StructNew(s, es) => {
                let d = &self.p.structs[*s];
                let names: Vec<String> = d.fields.iter().map(|f| f.0.clone()).collect();
                let n = d.name.clone();
                let parts: Vec<String> = es.iter().zip(names.iter()).map(|(e, f)| format!("{f} = {}", self.expr(e))).collect();
                format!("{}({})", n, parts.join(", "))
            }
            Expr::ClassNew(s, es) => {
                let d = &self.p.classes[*s];
                let names: Vec<String> = d.fields.iter().map(|f| f.0.clone()).collect();
                let n = d.name.clone();
                let parts: Vec<String> = es.iter().zip(names.iter()).map(|(e, f)| format!("{f} = {}", self.expr(e))).collect();
                format!("{}({})", n, parts.join(", "))
            }
            Expr::BoxNew(t, e) => format!("Bx[{}](v = {})", self.ty(t), self.expr(e)),
            Expr::Field(a, owner, i) => format!("{}.{}", self.recv(a), self.field_name(owner, *i)),
            Expr::EnumNew(en, v, es) => {
                let d = &self.p.enums[*en];
                if es.is_empty() {
                    format!("{}::{}", d.name, d.variants[*v].0)
                } else {
                    format!("{}::{}({})", d.name, d.variants[*v].0, self.args(es))
                }
            }
            Expr::ArrayNew(t, es) => format!("Array[{}]::new({})", self.ty(t), self.args(es)),
            Expr::ArrayFill(t, n, v) => format!("Array[{}]::fill({}, {})", self.ty(t), self.expr(n), self.expr(v)),
            Expr::Index(a, i) => format!("{}({})", self.recv(a), self.expr(i)),
            Expr::Len(a) => format!("{}.size()", self.recv(a)),
            Expr::VecNew(t) => format!("Vec[{}]::new()", self.ty(t)),
            Expr::Some(t, e) => format!("Some[{}]({})", self.ty(t), self.expr(e)),
            Expr::None(t) => format!("None[{}]", self.ty(t)),
            Expr::Unwrap(e) => format!("{}.get_or_panic()", self.recv(e)),
            Expr::IsSome(e) => format!("{}.is_some()", self.recv(e)),
            Expr::If(c, t, f) => {
                let c = self.expr(c);
                let t = self.block(t);
                let f = self.block(f);
                format!("if {c} {t} else {f}")
            }
            Expr::Match(s, arms) => {
                let mut r = format!("match {} {{", self.expr(s));
                self.ind += 1;
                for a in arms {
                    r.push_str(&self.nl());
                    let pat = self.pat(&a.pat);
                    let g = match &a.guard {
                        Some(g) => format!(" if {}", self.expr(g)),
                        None => String::new(),
                    };
                    let b = self.expr(&a.body);
                    let _ = write!(r, "{pat}{g} => {b},");
                }
                self.ind -= 1;
                r.push_str(&self.nl());
                r.push('}');
                r
            }
            Expr::Block(b) => self.block(b),
            Expr::Lambda(ps, ret, body) => {
                let ps: Vec<String> = ps.iter().map(|(n, t)| format!("{n}: {}", self.ty(t))).collect();
                let b = self.block(body);
                format!("|{}|: {} {}", ps.join(", "), self.ty(ret), b)
            }
            Expr::CallValue(f, args) => format!("{}({})", self.recv(f), self.args(args)),
            Expr::AsDyn(e, t) => format!("({} as {})", self.expr(e), self.p.traits[*t].name),
            Expr::Template(parts) => {
                let mut r = String::from("\"");
                for p in parts {
                    match p {
                        TemplatePart::Text(t) => r.push_str(t),
                        TemplatePart::Expr(e) => {
                            r.push_str("${");
                            r.push_str(&self.expr(e));
                            r.push('}');
                        }
                    }
                }
                r.push('"');
                r
            }
            Expr::ToString(e) => format!("{}.to_string()", self.recv(e)),
        }
    }
    pub fn block(&mut self, b: &Block) -> String {
        let mut r = String::from("{");
        self.ind += 1;
        for s in &b.stmts {
            r.push_str(&self.nl());
            let t = self.stmt(s);
            r.push_str(&t);
        }
        if let Some(t) = &b.tail {
            r.push_str(&self.nl());
            let t = self.expr(t);
            r.push_str(&t);
        }
        self.ind -= 1;
        r.push_str(&self.nl());
        r.push('}');
        r
    }
    fn lvalue(&mut self, l: &LValue) -> String {
        match l {
            LValue::Var(n) => n.clone(),
            LValue::Global(i) => self.p.globals[*i].name.clone(),
            LValue::Field(e, owner, i) => format!("{}.{}", self.expr(e), self.field_name(owner, *i)),
            LValue::VarField(v, path) => {
                let mut r = v.clone();
                for (owner, i) in path {
                    match owner {
                        Ty::Tuple(_) => {
                            let _ = write!(r, ".{i}");
                        }
                        _ => {
                            let _ = write!(r, ".{}", self.field_name(owner, *i));
                        }
                    }
                }
                r
            }
            LValue::Index(a, i) => format!("{}({})", self.expr(a), self.expr(i)),
        }
    }
    pub fn stmt(&mut self, s: &Stmt) -> String {
        match s {
            Stmt::Let(n, m, t, e) => format!("let {}{}: {} = {};", if *m { "mut " } else { "" }, n, self.ty(t), self.expr(e)),
            Stmt::Assign(l, e) => format!("{} = {};", self.lvalue(l), self.expr(e)),
            Stmt::Compound(l, op, e) => format!("{} {}= {};", self.lvalue(l), op.sym(), self.expr(e)),
            Stmt::Expr(e) => format!("{};", self.expr(e)),
            Stmt::Print(e) => format!("println({});", self.expr(e)),
            Stmt::PrintNoNl(e) => format!("print({});", self.expr(e)),
            Stmt::While(c, b) => {
                let c = self.expr(c);
                format!("while {} {}", c, self.block(b))
            }
            Stmt::ForRange(v, lo, hi, b) => {
                let lo = self.expr(lo);
                let hi = self.expr(hi);
                format!("for {} in std::range({}, {}) {}", v, lo, hi, self.block(b))
            }
            Stmt::ForIn(v, c, b) => {
                let c = self.expr(c);
                format!("for {} in {} {}", v, c, self.block(b))
            }
            Stmt::If(c, t, f) => {
                let c = self.expr(c);
                let t = self.block(t);
                match f {
                    Some(f) => format!("if {} {} else {}", c, t, self.block(f)),
                    None => format!("if {} {}", c, t),
                }
            }
            Stmt::Break => "break;".into(),
            Stmt::Continue => "continue;".into(),
            Stmt::Return(None) => "return;".into(),
            Stmt::Return(Some(e)) => format!("return {};", self.expr(e)),
            Stmt::Push(v, e) => format!("{}.push({});", self.recv(v), self.expr(e)),
            Stmt::Assert(e) => format!("assert({});", self.expr(e)),
            Stmt::MutCall(v, s, m, args) => {
                let name = self.p.structs[*s].methods[*m].name.clone();
                format!("{}.{}({});", v, name, self.args(args))
            }
            Stmt::Exit(e) => format!("std::exit({});", self.expr(e)),
            Stmt::Fatal(m) => format!("std::fatal_error(\"{m}\");"),
            Stmt::Raw(t) => t.clone(),
        }
    }
    fn fn_def(&mut self, f: &FnDef, with_body: bool) -> String {
        let tp = if f.tparams.is_empty() {
            String::new()
        } else {
            let ps: Vec<String> = f
                .tparams
                .iter()
                .enumerate()
                .map(|(i, b)| match b {
                    Some(t) => format!("T{i}: {}", self.p.traits[*t].name),
                    None => format!("T{i}"),
                })
                .collect();
            format!("[{}]", ps.join(", "))
        };
        let ps: Vec<String> = f.params.iter().map(|(n, t)| format!("{n}: {}", self.ty(t))).collect();
        let ret = if f.ret == Ty::Unit { String::new() } else { format!(": {}", self.ty(&f.ret)) };
        let head = format!("{}fn {}{}({}){}", if f.mutating { "mutating " } else { "" }, f.name, tp, ps.join(", "), ret);
        if with_body {
            let b = self.block(&f.body);
            format!("{head} {b}")
        } else {
            format!("{head};")
        }
    }
    pub fn program(mut self) -> String {
        let p = self.p;
        let mut text = String::new();
        let mut item = |s: String| {
            text.push_str(&s);
            text.push('\n');
        };
        item("use std::string::Stringable;".to_string());
        if p.features.contains("generic-class") {
            item("class Bx[T] { v: T }".to_string());
            item("impl[T] Bx[T] { fn get(): T { self.v } fn set(x: T) { self.v = x; } }".to_string());
        }
        for e in &p.enums {
            let vs: Vec<String> = e
                .variants
                .iter()
                .map(|(n, ts)| if ts.is_empty() { n.clone() } else { format!("{}({})", n, ts.iter().map(|t| self.ty(t)).collect::<Vec<_>>().join(", ")) })
                .collect();
            item(format!("enum {} {{ {} }}", e.name, vs.join(", ")));
        }
        for (kw, defs) in [("struct", &p.structs), ("class", &p.classes)] {
            for d in defs.iter() {
                let fs: Vec<String> = d.fields.iter().map(|(n, t)| format!("{n}: {}", self.ty(t))).collect();
                item(format!("{} {} {{ {} }}", kw, d.name, fs.join(", ")));
                if !d.methods.is_empty() {
                    let mut t = format!("impl {} {{", d.name);
                    self.ind += 1;
                    for m in &d.methods {
                        t.push_str(&self.nl());
                        let s = self.fn_def(m, true);
                        t.push_str(&s);
                    }
                    self.ind -= 1;
                    t.push_str("\n}");
                    item(t);
                }
            }
        }
        for tr in &p.traits {
            let mut t = format!("trait {} {{", tr.name);
            self.ind += 1;
            for (m, d) in tr.methods.iter().zip(tr.has_default.iter()) {
                t.push_str(&self.nl());
                let s = self.fn_def(m, *d);
                t.push_str(&s);
            }
            self.ind -= 1;
            t.push_str("\n}");
            item(t);
        }
        for im in &p.impls {
            let mut t = format!("impl {} for {} {{", p.traits[im.trait_id].name, self.ty(&im.for_ty));
            self.ind += 1;
            for m in im.methods.iter().flatten() {
                t.push_str(&self.nl());
                let s = self.fn_def(m, true);
                t.push_str(&s);
            }
            self.ind -= 1;
            t.push_str("\n}");
            item(t);
        }
        for g in &p.globals {
            let e = self.expr(&g.init);
            item(format!("let {}{}: {} = {};", if g.mutable { "mut " } else { "" }, g.name, self.ty(&g.ty), e));
        }
        for r in &p.raw_items {
            item(r.clone());
        }
        item("fn tr(k: Int64): Int64 { println(\"t${k}\"); k }".to_string());
        for f in &p.fns {
            let s = self.fn_def(f, true);
            item(s);
        }
        let b = self.block(&p.main);
        let head = if p.main_returns_i32 { "fn main(): Int32 " } else { "fn main() " };
        item(format!("{head}{b}"));
        text
    }
}

fn balanced_outer(s: &str) -> bool {
    // true if the first '(' closes at the very end
    let mut d = 0i32;
    for (i, ch) in s.char_indices() {
        match ch {
            '(' => d += 1,
            ')' => {
                d -= 1;
                if d == 0 && i != s.len() - 1 {
                    return false;
                }
            }
            _ => {}
        }
    }
    d == 0
}

pub fn print_program(p: &Program) -> String {
    Printer::new(p).program()
}
