//! Mutable traversal of RefDora programs: every block (with nesting depth) and every expression.

use super::ir::*;

pub type BlockFn<'a> = dyn FnMut(&mut Block, usize) + 'a;

pub fn blocks_in_expr(e: &mut Expr, depth: usize, f: &mut BlockFn) {
    match e {
        Expr::Lit(_) | Expr::Var(_) | Expr::Global(_) | Expr::VecNew(_) | Expr::None(_) => {}
        Expr::Bin(_, a, b) | Expr::ArrayFill(_, a, b) | Expr::Index(a, b) => {
            blocks_in_expr(a, depth, f);
            blocks_in_expr(b, depth, f);
        }
        Expr::Neg(a) | Expr::Not(a) | Expr::TupleGet(a, _) | Expr::BoxNew(_, a) | Expr::Field(a, _, _) | Expr::Len(a) | Expr::Some(_, a) | Expr::Unwrap(a) | Expr::IsSome(a) | Expr::AsDyn(a, _) | Expr::ToString(a) => {
            blocks_in_expr(a, depth, f)
        }
        Expr::Intrinsic(_, r, args) | Expr::Method(r, _, _, args) | Expr::TraitCall(r, _, _, args) | Expr::CallValue(r, args) => {
            blocks_in_expr(r, depth, f);
            for a in args {
                blocks_in_expr(a, depth, f);
            }
        }
        Expr::Call(_, _, args) | Expr::Tuple(args) | Expr::StructNew(_, args) | Expr::ClassNew(_, args) | Expr::EnumNew(_, _, args) | Expr::ArrayNew(_, args) => {
            for a in args {
                blocks_in_expr(a, depth, f);
            }
        }
        Expr::If(c, t, e2) => {
            blocks_in_expr(c, depth, f);
            block(t, depth + 1, f);
            block(e2, depth + 1, f);
        }
        Expr::Match(s, arms) => {
            blocks_in_expr(s, depth, f);
            for a in arms {
                if let Some(g) = &mut a.guard {
                    blocks_in_expr(g, depth + 1, f);
                }
                blocks_in_expr(&mut a.body, depth + 1, f);
            }
        }
        Expr::Block(b) => block(b, depth + 1, f),
        Expr::Lambda(_, _, b) => block(b, depth + 1, f),
        Expr::Template(parts) => {
            for p in parts {
                if let TemplatePart::Expr(e) = p {
                    blocks_in_expr(e, depth, f);
                }
            }
        }
    }
}

fn lvalue(l: &mut LValue, depth: usize, f: &mut BlockFn) {
    match l {
        LValue::Field(e, _, _) => blocks_in_expr(e, depth, f),
        LValue::Index(a, i) => {
            blocks_in_expr(a, depth, f);
            blocks_in_expr(i, depth, f);
        }
        _ => {}
    }
}

pub fn block(b: &mut Block, depth: usize, f: &mut BlockFn) {
    f(b, depth);
    for s in &mut b.stmts {
        match s {
            Stmt::Let(_, _, _, e) | Stmt::Expr(e) | Stmt::Print(e) | Stmt::PrintNoNl(e) | Stmt::Assert(e) | Stmt::Exit(e) => blocks_in_expr(e, depth, f),
            Stmt::Assign(l, e) | Stmt::Compound(l, _, e) => {
                lvalue(l, depth, f);
                blocks_in_expr(e, depth, f);
            }
            Stmt::While(c, b) => {
                blocks_in_expr(c, depth, f);
                block(b, depth + 1, f);
            }
            Stmt::ForRange(_, lo, hi, b) => {
                blocks_in_expr(lo, depth, f);
                blocks_in_expr(hi, depth, f);
                block(b, depth + 1, f);
            }
            Stmt::ForIn(_, c, b) => {
                blocks_in_expr(c, depth, f);
                block(b, depth + 1, f);
            }
            Stmt::If(c, t, e) => {
                blocks_in_expr(c, depth, f);
                block(t, depth + 1, f);
                if let Some(e) = e {
                    block(e, depth + 1, f);
                }
            }
            Stmt::Return(Some(e)) => blocks_in_expr(e, depth, f),
            Stmt::Push(a, b) => {
                blocks_in_expr(a, depth, f);
                blocks_in_expr(b, depth, f);
            }
            Stmt::MutCall(_, _, _, args) => {
                for a in args {
                    blocks_in_expr(a, depth, f);
                }
            }
            Stmt::Break | Stmt::Continue | Stmt::Return(None) | Stmt::Fatal(_) | Stmt::Raw(_) => {}
        }
    }
    if let Some(t) = &mut b.tail {
        blocks_in_expr(t, depth, f);
    }
}

/// Visit every block of the program: (block, nesting depth, in_generic_or_impl)
pub fn for_each_block(p: &mut Program, f: &mut BlockFn) {
    for s in &mut p.structs {
        for m in &mut s.methods {
            block(&mut m.body, 1, f);
        }
    }
    for s in &mut p.classes {
        for m in &mut s.methods {
            block(&mut m.body, 1, f);
        }
    }
    for im in &mut p.impls {
        for m in im.methods.iter_mut().flatten() {
            block(&mut m.body, 1, f);
        }
    }
    for func in &mut p.fns {
        block(&mut func.body, if func.tparams.is_empty() { 0 } else { 1 }, f);
    }
    block(&mut p.main, 0, f);
}
