pub mod pgen;
pub mod interp;
pub mod ir;
