pub mod pgen;
pub mod interp;
pub mod ir;
pub mod walk;
