//! textgen — source-text generators shared by C06/C16/C17/C20:
//! token soups, a small grammar-directed generator, repo corpus, token-level
//! mutators, line-ending / multi-byte transforms.

use crate::vcore::Choices;
use std::path::PathBuf;
use std::sync::OnceLock;

pub const KEYWORDS: &[&str] = &[
    "true", "false", "class", "enum", "struct", "trait", "impl", "mod", "use", "package", "extern", "fn", "let",
    "mut", "const", "return", "if", "else", "while", "for", "in", "break", "continue", "match", "self", "super",
    "pub", "static", "mutating", "as", "is", "type", "where", "Self", "ref",
];

pub const OPERATORS: &[&str] = &[
    "+", "-", "*", "/", "%", "+=", "-=", "*=", "/=", "%=", "->", "=>", "(", ")", "[", "]", "{", "}", ",", ";", ".",
    "..", "...", "..=", ":", "::", "=", "==", "===", "!", "!=", "!==", "<", "<=", "<<", "<<=", ">", ">=", ">>", ">>>",
    ">>=", ">>>=", "|", "||", "|=", "&", "&&", "&=", "^", "^=", "~", "@", "_", "?", "#", "$", "\\", "`",
];

pub const IDENTS: &[&str] = &[
    "a", "b", "x", "y", "foo", "bar", "Foo", "Bar", "T", "Int32", "Int64", "String", "Bool", "Option", "Some", "None",
    "Vec", "Array", "main", "std", "println", "f", "g", "äöü", "变量", "𝒳", "x1", "_y", "Float64", "UInt8", "Char",
    "new", "size", "push", "get", "toString", "Result", "Ok", "Err", "Tr", "E", "A", "B", "C", "id", "unreachable",
];

pub const LITERALS: &[&str] = &[
    "0", "1", "42", "1i32", "1i64", "255u8", "256u8", "0x7F", "0xFFFF_FFFFi32", "0b101", "0b2", "1_000", "1.5", "1.5f32",
    "2.0f64", "1e10", "1.0e-3", "9223372036854775807", "9223372036854775808", "-1", "0x", "1f", "1.", ".5", "1u9",
    "'a'", "'\\n'", "'\\''", "'ä'", "'😀'", "''", "'ab'", "'", "\"\"", "\"abc\"", "\"a\\\"b\"", "\"a${x}b\"",
    "\"${1+2}\"", "\"${\"n${y}\"}\"", "\"a${", "\"unterminated", "\"😀é\"", "\"\\u{1F600}\"", "\"}\"", "\"$\"",
    "\"${}\"", "\"\\", "1e", "1e+", "0b", "0xG",
];

pub const TRIVIA: &[&str] = &[
    " ", "  ", "\t", "\n", "\n\n", "\r\n", "\r", " \n", "// c\n", "// cömment 😀\n", "/* c */", "/* multi\nline */",
    "/* nested /* c */ */", "/* unterminated", "//", "/**/", "// c\r\n", "// c\r", "\u{00A0}", "\u{2028}", "\u{FEFF}",
];

/// Random token soup.
pub fn soup(c: &mut Choices, max_tokens: usize) -> String {
    let n = c.below(max_tokens + 1);
    let mut s = String::new();
    for _ in 0..n {
        let fam = c.weighted(&[6, 6, 5, 3, 5]);
        let t = match fam {
            0 => *c.pick(KEYWORDS),
            1 => *c.pick(OPERATORS),
            2 => *c.pick(IDENTS),
            3 => *c.pick(LITERALS),
            _ => *c.pick(TRIVIA),
        };
        s.push_str(t);
        // mostly separate tokens by a space so that keywords stay keywords
        if fam != 4 && c.chance(3, 4) {
            s.push(' ');
        }
    }
    s
}

// ---------------------------------------------------------------------------
// Grammar-directed generator (syntactically valid by construction, not typed).

pub struct Gram<'a, 'b> {
    pub c: &'a mut Choices<'b>,
    pub depth: usize,
    pub max_depth: usize,
    pub out: String,
    pub indent: usize,
}

impl<'a, 'b> Gram<'a, 'b> {
    pub fn new(c: &'a mut Choices<'b>, max_depth: usize) -> Self {
        Gram { c, depth: 0, max_depth, out: String::new(), indent: 0 }
    }
    fn w(&mut self, s: &str) {
        self.out.push_str(s);
    }
    fn nl(&mut self) {
        self.out.push('\n');
        for _ in 0..self.indent {
            self.out.push_str("    ");
        }
    }
    fn ident(&mut self) -> &'static str {
        const ID: &[&str] = &["a", "b", "c", "x", "y", "foo", "bar", "baz", "value", "idx", "ä1", "long_identifier_name"];
        self.c.pick_str(ID)
    }
    fn tyname(&mut self) -> &'static str {
        const TY: &[&str] = &["Int64", "Int32", "Bool", "String", "Foo", "Bar", "T", "Float64", "UInt8", "Char"];
        self.c.pick_str(TY)
    }
    pub fn ty(&mut self) {
        if self.depth >= self.max_depth {
            let t = self.tyname();
            self.w(t);
            return;
        }
        self.depth += 1;
        match self.c.weighted(&[8, 2, 2, 1, 1, 1]) {
            0 => {
                let t = self.tyname();
                self.w(t)
            }
            1 => {
                self.w("Vec[");
                self.ty();
                self.w("]")
            }
            2 => {
                self.w("(");
                self.ty();
                self.w(", ");
                self.ty();
                self.w(")")
            }
            3 => {
                self.w("(");
                self.ty();
                self.w("): ");
                self.ty()
            }
            4 => {
                self.w("std::collections::HashMap[");
                self.ty();
                self.w(", ");
                self.ty();
                self.w("]")
            }
            _ => self.w("Self"),
        }
        self.depth -= 1;
    }
    pub fn pattern(&mut self) {
        if self.depth >= self.max_depth {
            self.w("_");
            return;
        }
        self.depth += 1;
        match self.c.weighted(&[4, 3, 2, 2, 2, 1, 1]) {
            0 => self.w("_"),
            1 => {
                let i = self.ident();
                self.w(i)
            }
            2 => {
                self.w("Some(");
                self.pattern();
                self.w(")")
            }
            3 => {
                self.w("(");
                self.pattern();
                self.w(", ");
                self.pattern();
                self.w(")")
            }
            4 => {
                let l = *self.c.pick(&["0", "1", "true", "'a'", "\"s\"", "None", "Foo::A"]);
                self.w(l)
            }
            5 => {
                self.pattern();
                self.w(" | ");
                self.pattern()
            }
            _ => {
                self.w("mut ");
                let i = self.ident();
                self.w(i)
            }
        }
        self.depth -= 1;
    }
    pub fn expr(&mut self) {
        if self.depth >= self.max_depth {
            let l = *self.c.pick(&["1", "x", "true", "\"s\"", "2.5", "'c'", "self", "a"]);
            self.w(l);
            return;
        }
        self.depth += 1;
        match self.c.weighted(&[6, 6, 4, 3, 3, 2, 2, 2, 2, 2, 2, 1, 1, 1, 1]) {
            0 => {
                let l = *self.c.pick(&["0", "1", "42i32", "x", "y", "true", "false", "\"str\"", "1.5", "'c'", "0xFFu8"]);
                self.w(l)
            }
            1 => {
                self.expr();
                let op = *self.c.pick(&[
                    "+", "-", "*", "/", "%", "==", "!=", "<", "<=", ">", ">=", "&&", "||", "|", "&", "^", "<<", ">>", ">>>", "===",
                    "!==",
                ]);
                self.w(" ");
                self.w(op);
                self.w(" ");
                self.expr()
            }
            2 => {
                let f = self.ident();
                self.w(f);
                self.w("(");
                let n = self.c.below(4);
                for i in 0..n {
                    if i > 0 {
                        self.w(", ");
                    }
                    self.expr();
                }
                self.w(")")
            }
            3 if self.c.chance(1, 4) => {
                // positional access on a tuple / tuple-like value
                let base = *self.c.pick(&["x", "y", "(1, 2)", "(x, true, \"s\")", "a", "self"]);
                self.w(base);
                self.w(".");
                let i = *self.c.pick(&["0", "1", "2", "3", "4", "10", "4294967296"]);
                self.w(i)
            }
            3 => {
                self.expr();
                self.w(".");
                let f = self.ident();
                self.w(f);
                if self.c.chance(1, 2) {
                    self.w("(");
                    if self.c.chance(1, 2) {
                        self.expr();
                    }
                    self.w(")");
                }
            }
            4 => {
                self.w("(");
                self.expr();
                self.w(")")
            }
            5 => {
                self.w("if ");
                self.expr();
                self.w(" ");
                self.block();
                if self.c.chance(2, 3) {
                    self.w(" else ");
                    self.block();
                }
            }
            6 => {
                let op = *self.c.pick(&["-", "!"]);
                self.w(op);
                self.expr()
            }
            7 => {
                self.w("match ");
                self.expr();
                self.w(" {");
                self.indent += 1;
                let n = 1 + self.c.below(3);
                for _ in 0..n {
                    self.nl();
                    self.pattern();
                    if self.c.chance(1, 4) {
                        self.w(" if ");
                        self.expr();
                    }
                    self.w(" => ");
                    self.expr();
                    self.w(",");
                }
                self.indent -= 1;
                self.nl();
                self.w("}")
            }
            8 => {
                self.w("\"a${");
                self.expr();
                self.w("}b\"")
            }
            9 => {
                self.w("|");
                if self.c.chance(1, 2) {
                    let i = self.ident();
                    self.w(i);
                    self.w(": ");
                    self.ty();
                }
                self.w("|");
                if self.c.chance(1, 2) {
                    self.w(": ");
                    self.ty();
                }
                self.w(" ");
                self.block()
            }
            10 => {
                self.w("(");
                self.expr();
                if self.c.chance(1, 2) {
                    // one-element tuple: the comma is mandatory
                    self.w(",)")
                } else {
                    self.w(", ");
                    self.expr();
                    self.w(")")
                }
            }
            11 => {
                self.expr();
                self.w(" as ");
                self.ty()
            }
            12 => {
                self.expr();
                self.w(" is ");
                self.pattern()
            }
            13 => {
                self.w("Foo::");
                let i = self.ident();
                self.w(i);
                self.w("[");
                self.ty();
                self.w("](");
                self.expr();
                self.w(")")
            }
            _ => self.block(),
        }
        self.depth -= 1;
    }
    pub fn block(&mut self) {
        self.w("{");
        self.indent += 1;
        self.depth += 1;
        let n = if self.depth >= self.max_depth { 0 } else { self.c.below(4) };
        for _ in 0..n {
            self.nl();
            self.stmt();
        }
        if self.c.chance(1, 2) && self.depth < self.max_depth {
            self.nl();
            self.expr();
        }
        self.depth -= 1;
        self.indent -= 1;
        self.nl();
        self.w("}");
    }
    pub fn stmt(&mut self) {
        match self.c.weighted(&[5, 4, 2, 2, 2, 1, 1, 1, 1]) {
            0 => {
                self.w("let ");
                if self.c.chance(1, 3) {
                    self.w("mut ");
                }
                self.pattern();
                if self.c.chance(1, 2) {
                    self.w(": ");
                    self.ty();
                }
                if self.c.chance(4, 5) {
                    self.w(" = ");
                    self.expr();
                }
                self.w(";")
            }
            1 => {
                self.expr();
                self.w(";")
            }
            2 => {
                let i = self.ident();
                self.w(i);
                let op = *self.c.pick(&["=", "+=", "-=", "*=", "/=", "%=", "|=", "&=", "^=", "<<=", ">>=", ">>>="]);
                self.w(" ");
                self.w(op);
                self.w(" ");
                self.expr();
                self.w(";")
            }
            3 => {
                self.w("while ");
                self.expr();
                self.w(" ");
                self.block()
            }
            4 => {
                self.w("for ");
                self.pattern();
                self.w(" in ");
                self.expr();
                self.w(" ");
                self.block()
            }
            5 => {
                self.w("return");
                if self.c.chance(1, 2) {
                    self.w(" ");
                    self.expr();
                }
                self.w(";")
            }
            6 => self.w("break;"),
            7 => self.w("continue;"),
            _ => {
                self.w("let ");
                self.pattern();
                self.w(" = ");
                self.expr();
                self.w(" else ");
                self.block();
                self.w(";")
            }
        }
    }
    fn modifiers(&mut self) {
        if self.c.chance(1, 4) {
            self.w("pub ");
        }
    }
    fn type_params(&mut self) {
        if self.c.chance(1, 4) {
            self.w("[T");
            if self.c.chance(1, 2) {
                self.w(": Tr");
            }
            if self.c.chance(1, 3) {
                self.w(", U");
            }
            self.w("]");
        }
    }
    fn fn_item(&mut self, body: bool, in_impl: bool) {
        self.modifiers();
        if in_impl && self.c.chance(1, 5) {
            self.w("static ");
        }
        if in_impl && self.c.chance(1, 6) {
            self.w("mutating ");
        }
        self.w("fn ");
        let n = self.ident();
        self.w(n);
        self.type_params();
        self.w("(");
        let k = self.c.below(4);
        for i in 0..k {
            if i > 0 {
                self.w(", ");
            }
            let p = self.ident();
            self.w(p);
            self.w(": ");
            self.ty();
        }
        self.w(")");
        if self.c.chance(1, 2) {
            self.w(": ");
            self.ty();
        }
        if self.c.chance(1, 8) {
            self.w(" where T: Tr");
        }
        if body {
            self.w(" ");
            self.block();
        } else {
            self.w(";");
        }
    }
    pub fn item(&mut self) {
        match self.c.weighted(&[8, 3, 3, 3, 2, 3, 2, 2, 1, 1, 1]) {
            0 => self.fn_item(true, false),
            1 => {
                self.modifiers();
                self.w("struct ");
                let n = self.tyname();
                self.w(n);
                self.type_params();
                if self.c.chance(1, 3) {
                    self.w("(");
                    self.ty();
                    self.w(", ");
                    self.ty();
                    self.w(")");
                } else {
                    self.w(" { ");
                    let k = self.c.below(4);
                    for _ in 0..k {
                        if self.c.chance(1, 4) {
                            self.w("pub ");
                        }
                        let f = self.ident();
                        self.w(f);
                        self.w(": ");
                        self.ty();
                        self.w(", ");
                    }
                    self.w("}");
                }
            }
            2 => {
                self.modifiers();
                self.w("class ");
                let n = self.tyname();
                self.w(n);
                self.type_params();
                self.w(" { ");
                let k = self.c.below(4);
                for i in 0..k {
                    if i > 0 {
                        self.w(", ");
                    }
                    let f = self.ident();
                    self.w(f);
                    self.w(": ");
                    self.ty();
                }
                self.w(" }");
            }
            3 => {
                self.modifiers();
                self.w("enum ");
                let n = self.tyname();
                self.w(n);
                self.type_params();
                self.w(" { ");
                let k = 1 + self.c.below(4);
                for i in 0..k {
                    self.w(["A", "B", "C", "D"][i]);
                    if self.c.chance(1, 2) {
                        self.w("(");
                        self.ty();
                        self.w(")");
                    }
                    self.w(", ");
                }
                self.w("}");
            }
            4 => {
                self.modifiers();
                self.w("trait Tr");
                self.type_params();
                self.w(" {");
                self.indent += 1;
                let k = self.c.below(3);
                for _ in 0..k {
                    self.nl();
                    let body = self.c.chance(1, 3);
                    self.fn_item(body, true);
                }
                if self.c.chance(1, 4) {
                    self.nl();
                    self.w("type X;");
                }
                self.indent -= 1;
                self.nl();
                self.w("}");
            }
            5 => {
                self.w("impl");
                self.type_params();
                self.w(" ");
                if self.c.chance(1, 2) {
                    self.w("Tr for ");
                }
                self.ty();
                self.w(" {");
                self.indent += 1;
                let k = self.c.below(3);
                for _ in 0..k {
                    self.nl();
                    self.fn_item(true, true);
                }
                self.indent -= 1;
                self.nl();
                self.w("}");
            }
            6 => {
                self.modifiers();
                self.w("let ");
                if self.c.chance(1, 2) {
                    self.w("mut ");
                }
                let n = self.ident();
                self.w(n);
                self.w(": ");
                self.ty();
                self.w(" = ");
                self.expr();
                self.w(";");
            }
            7 => {
                self.modifiers();
                self.w("const ");
                self.w("K");
                self.w(": ");
                self.ty();
                self.w(" = ");
                self.expr();
                self.w(";");
            }
            8 => {
                let u = *self.c.pick(&[
                    "use std::collections::HashMap;",
                    "use std::{Vec, Array};",
                    "use foo::bar as baz;",
                    "use super::x;",
                    "use package::a::{b, c::{d, e}};",
                    "pub use self::m::f;",
                ]);
                self.w(u);
            }
            9 => {
                self.modifiers();
                self.w("mod m {");
                self.indent += 1;
                if self.depth < self.max_depth {
                    self.depth += 1;
                    let k = self.c.below(3);
                    for _ in 0..k {
                        self.nl();
                        self.item();
                    }
                    self.depth -= 1;
                }
                self.indent -= 1;
                self.nl();
                self.w("}");
            }
            _ => {
                self.modifiers();
                self.w("type Al");
                self.type_params();
                self.w(" = ");
                self.ty();
                self.w(";");
            }
        }
    }
    pub fn file(&mut self, max_items: usize) {
        let n = self.c.below(max_items + 1);
        for i in 0..n {
            if i > 0 {
                self.w("\n");
                if self.c.chance(1, 2) {
                    self.w("\n");
                }
            }
            if self.c.chance(1, 6) {
                self.w("// comment\n");
            }
            if self.c.chance(1, 10) {
                self.w("@Test ");
            }
            self.item();
        }
        if self.c.chance(3, 4) {
            self.w("\n");
        }
    }
}

pub fn grammar_program(c: &mut Choices, max_depth: usize, max_items: usize) -> String {
    let mut g = Gram::new(c, max_depth);
    g.file(max_items);
    g.out
}

// ---------------------------------------------------------------------------
// Corpus

static CORPUS: OnceLock<Vec<(PathBuf, String)>> = OnceLock::new();

/// All repository `.dora` files of at most 64 KiB, from the working tree.
pub fn corpus() -> &'static Vec<(PathBuf, String)> {
    CORPUS.get_or_init(|| {
        crate::vcore::repo_dora_files()
            .into_iter()
            .filter_map(|p| std::fs::read_to_string(&p).ok().map(|s| (p, s)))
            .filter(|(_, s)| s.len() <= 64 * 1024)
            .collect()
    })
}

/// Corpus restricted to small files (mutation bases).
pub fn small_corpus(max: usize) -> Vec<&'static (PathBuf, String)> {
    corpus().iter().filter(|(_, s)| s.len() <= max && !s.is_empty()).collect()
}

// ---------------------------------------------------------------------------
// Mutators

fn token_bounds(text: &str) -> Vec<(usize, usize)> {
    let r = dora_parser::lex(text);
    let mut out = Vec::with_capacity(r.starts.len());
    for i in 0..r.starts.len() {
        let s = r.starts[i] as usize;
        let e = if i + 1 < r.starts.len() { r.starts[i + 1] as usize } else { text.len() };
        if e > s && text.is_char_boundary(s) && text.is_char_boundary(e) {
            out.push((s, e));
        }
    }
    out
}

pub const MUTATION_KINDS: &[&str] = &[
    "delete", "duplicate", "swap", "replace", "truncate", "splice", "flip-delim", "insert-multibyte", "insert-token",
    "delete-range", "int-perturb", "ident-swap",
];

/// Apply 1..=k token-level mutations. Returns (text, kinds applied).
pub fn mutate(c: &mut Choices, base: &str, other: &str, k: usize) -> (String, Vec<&'static str>) {
    let mut text = base.to_string();
    let mut kinds = vec![];
    let n = 1 + c.below(k);
    for _ in 0..n {
        let toks = token_bounds(&text);
        if toks.is_empty() {
            text.push_str(c.pick_str(KEYWORDS));
            continue;
        }
        let kind = c.below(MUTATION_KINDS.len());
        kinds.push(MUTATION_KINDS[kind]);
        let (s, e) = toks[c.below(toks.len())];
        match kind {
            0 => {
                text.replace_range(s..e, "");
            }
            1 => {
                let t = text[s..e].to_string();
                text.insert_str(e, &t);
            }
            2 => {
                let (s2, e2) = toks[c.below(toks.len())];
                if e <= s2 {
                    let a = text[s..e].to_string();
                    let b = text[s2..e2].to_string();
                    text.replace_range(s2..e2, &a);
                    text.replace_range(s..e, &b);
                } else if e2 <= s {
                    let a = text[s..e].to_string();
                    let b = text[s2..e2].to_string();
                    text.replace_range(s..e, &b);
                    text.replace_range(s2..e2, &a);
                }
            }
            3 => {
                let fam = c.below(4);
                let t = match fam {
                    0 => *c.pick(KEYWORDS),
                    1 => *c.pick(OPERATORS),
                    2 => *c.pick(IDENTS),
                    _ => *c.pick(LITERALS),
                };
                text.replace_range(s..e, t);
            }
            4 => {
                // truncate at any char boundary
                let mut cut = c.below(text.len() + 1);
                while !text.is_char_boundary(cut) {
                    cut -= 1;
                }
                text.truncate(cut);
            }
            5 => {
                let otoks = token_bounds(other);
                if !otoks.is_empty() {
                    let (os, _) = otoks[c.below(otoks.len())];
                    let (_, oe) = otoks[c.below(otoks.len())];
                    let piece = if os < oe { &other[os..oe] } else { &other[os..] };
                    let piece = if piece.len() > 4096 {
                        let mut cut = 4096;
                        while !piece.is_char_boundary(cut) {
                            cut -= 1;
                        }
                        &piece[..cut]
                    } else {
                        piece
                    };
                    text.replace_range(s..s, piece);
                }
            }
            6 => {
                // flip one delimiter
                let delims: Vec<(usize, char)> = text
                    .char_indices()
                    .filter(|(_, ch)| matches!(ch, '(' | ')' | '[' | ']' | '{' | '}' | '"' | '\'' | ',' | ';'))
                    .collect();
                if !delims.is_empty() {
                    let (pos, ch) = delims[c.below(delims.len())];
                    let repl = match ch {
                        '(' => ")",
                        ')' => "(",
                        '[' => "]",
                        ']' => "[",
                        '{' => "}",
                        '}' => "{",
                        '"' => "",
                        '\'' => "",
                        ',' => ";",
                        _ => ",",
                    };
                    text.replace_range(pos..pos + ch.len_utf8(), repl);
                }
            }
            7 => {
                let ins = *c.pick(&["é", "€", "😀", "𝒳", "\u{0301}", "\u{200B}", "ß", "\u{FEFF}"]);
                // inside or next to the token
                let mut pos = s + c.below(e - s + 1);
                while !text.is_char_boundary(pos) {
                    pos -= 1;
                }
                text.insert_str(pos, ins);
            }
            8 => {
                let fam = c.below(5);
                let t = match fam {
                    0 => *c.pick(KEYWORDS),
                    1 => *c.pick(OPERATORS),
                    2 => *c.pick(IDENTS),
                    3 => *c.pick(LITERALS),
                    _ => *c.pick(TRIVIA),
                };
                text.insert_str(s, t);
                if fam != 4 {
                    text.insert(s + t.len(), ' ');
                }
            }
            10 => {
                // off-by-one / boundary on an integer literal (tuple indices, array sizes, argument values …)
                let ints: Vec<(usize, usize)> = toks.iter().copied().filter(|&(a, b)| text[a..b].chars().all(|ch| ch.is_ascii_digit()) && b - a <= 9).collect();
                if !ints.is_empty() {
                    let (a, b) = ints[c.below(ints.len())];
                    let v: i64 = text[a..b].parse().unwrap_or(0);
                    let nv = match c.below(6) {
                        0 => v + 1,
                        1 => (v - 1).max(0),
                        2 => v + 2,
                        3 => 0,
                        4 => v * 2 + 1,
                        _ => 4294967296,
                    };
                    text.replace_range(a..b, &nv.to_string());
                }
            }
            11 => {
                // replace one identifier by another identifier of the same file (wrong-but-well-formed names)
                let ids: Vec<(usize, usize)> = toks.iter().copied().filter(|&(a, b)| text[a..b].chars().next().map(|ch| ch.is_alphabetic() || ch == '_').unwrap_or(false) && text[a..b].chars().all(|ch| ch.is_alphanumeric() || ch == '_') && !KEYWORDS.contains(&&text[a..b])).collect();
                if ids.len() >= 2 {
                    let (a, b) = ids[c.below(ids.len())];
                    let (a2, b2) = ids[c.below(ids.len())];
                    let repl = text[a2..b2].to_string();
                    text.replace_range(a..b, &repl);
                }
            }
            _ => {
                let (s2, e2) = toks[c.below(toks.len())];
                let (a, b) = if s <= s2 { (s, e2.max(e)) } else { (s2, e.max(e2)) };
                // keep deletions moderate
                let b = b.min(a + 200);
                let mut b2 = b;
                while !text.is_char_boundary(b2) {
                    b2 -= 1;
                }
                if b2 > a {
                    text.replace_range(a..b2, "");
                }
            }
        }
        if text.len() > 64 * 1024 {
            let mut cut = 64 * 1024;
            while !text.is_char_boundary(cut) {
                cut -= 1;
            }
            text.truncate(cut);
        }
    }
    (text, kinds)
}

pub const LINE_ENDINGS: &[&str] = &["lf", "crlf", "cr", "mixed"];

/// Rewrite line endings: 0 = leave, 1 = CRLF, 2 = CR, 3 = mixed (per line choice).
pub fn line_endings(c: &mut Choices, text: &str, style: usize) -> String {
    if style == 0 {
        return text.to_string();
    }
    let mut out = String::with_capacity(text.len() + 16);
    for ch in text.chars() {
        if ch == '\n' {
            let s = if style == 3 { 1 + c.below(3) } else { style };
            match s {
                1 => out.push_str("\r\n"),
                2 => out.push('\r'),
                _ => out.push('\n'),
            }
        } else {
            out.push(ch);
        }
    }
    out
}

/// Clamp nesting depth of brackets so that the (recursive) parser is not asked
/// to go deeper than the bound the properties quantify over.
pub fn max_bracket_depth(text: &str) -> usize {
    let mut d: i64 = 0;
    let mut m = 0;
    for ch in text.chars() {
        match ch {
            '(' | '[' | '{' => {
                d += 1;
                m = m.max(d)
            }
            ')' | ']' | '}' => d = (d - 1).max(0),
            _ => {}
        }
    }
    m as usize
}

/// A text case with a family label.
#[derive(Clone, Debug)]
pub struct TextCase {
    pub family: String,
    pub text: String,
}

/// General text-case generator used by C06/C16/C20: picks a family.
pub fn gen_text_case(c: &mut Choices) -> TextCase {
    let fam = c.weighted(&[3, 3, 6, 2]);
    let (family, mut text) = match fam {
        0 => ("soup".to_string(), soup(c, 60)),
        1 => ("grammar".to_string(), grammar_program(c, 5, 6)),
        2 => {
            let small = small_corpus(6000);
            let (_, base) = small[c.below(small.len())];
            let (_, other) = small[c.below(small.len())];
            let (t, kinds) = mutate(c, base, other, 3);
            (format!("mutant:{}", kinds.join("+")), t)
        }
        _ => {
            let g = grammar_program(c, 4, 4);
            let small = small_corpus(3000);
            let (_, other) = small[c.below(small.len())];
            let (t, kinds) = mutate(c, &g, other, 3);
            (format!("grammar-mutant:{}", kinds.join("+")), t)
        }
    };
    let le = c.weighted(&[5, 2, 1, 2]);
    if le != 0 {
        text = line_endings(c, &text, le);
    }
    if max_bracket_depth(&text) > 64 {
        // outside the stated nesting bound: fall back to the simplest text
        text = String::new();
    }
    TextCase { family: format!("{family}/{}", LINE_ENDINGS[le]), text }
}
