//! Process isolation for in-process oracles that may hard-crash (stack
//! overflow, abort) or hang: a pool of `vh <id> --worker <sub>` children that
//! evaluate rendered cases sent over a pipe. A dead worker is attributed to the
//! case it was evaluating; a case over the time limit is killed and reported as
//! inconclusive (never a violation).

use crate::vcore::*;
use serde_json::{Value, json};
use std::io::{BufRead, BufReader, Write};
use std::process::{Child, ChildStdin, ChildStdout, Command, Stdio};
use std::sync::Mutex;
use std::time::{Duration, Instant};

struct Worker {
    child: Child,
    stdin: ChildStdin,
    stdout: BufReader<ChildStdout>,
    stderr_path: std::path::PathBuf,
}

pub struct Pool {
    property: String,
    sub: String,
    idle: Mutex<Vec<Worker>>,
    deadlines: &'static Mutex<Vec<(u32, Instant)>>,
    pub timeout: Duration,
}

static DEADLINES: Mutex<Vec<(u32, Instant)>> = Mutex::new(Vec::new());
static KILLER: std::sync::Once = std::sync::Once::new();

pub enum Isolated {
    Outcome(Outcome),
    Crash { signal: Option<i32>, code: Option<i32>, stderr_tail: String },
    Timeout,
}

impl Pool {
    pub fn new(property: &str, sub: &str, timeout_s: u64) -> Pool {
        KILLER.call_once(|| {
            std::thread::spawn(|| {
                loop {
                    std::thread::sleep(Duration::from_millis(500));
                    let now = Instant::now();
                    let d = DEADLINES.lock().unwrap();
                    for (pid, dl) in d.iter() {
                        if now > *dl {
                            unsafe { libc::kill(*pid as i32, libc::SIGKILL) };
                        }
                    }
                }
            });
        });
        Pool { property: property.into(), sub: sub.into(), idle: Mutex::new(vec![]), deadlines: &DEADLINES, timeout: Duration::from_secs(timeout_s) }
    }

    fn spawn(&self) -> Worker {
        let exe = std::env::current_exe().expect("current_exe");
        let dir = std::path::Path::new(VERIF_ROOT).join(".build/scratch");
        let _ = std::fs::create_dir_all(&dir);
        static N: std::sync::atomic::AtomicUsize = std::sync::atomic::AtomicUsize::new(0);
        let stderr_path = dir.join(format!("worker-{}-{}.stderr", std::process::id(), N.fetch_add(1, std::sync::atomic::Ordering::SeqCst)));
        let errf = std::fs::File::create(&stderr_path).expect("stderr file");
        let mut child = Command::new(exe)
            .arg(&self.property)
            .arg("--worker")
            .arg(&self.sub)
            .stdin(Stdio::piped())
            .stdout(Stdio::piped())
            .stderr(errf)
            .spawn()
            .expect("spawn worker");
        let stdin = child.stdin.take().unwrap();
        let stdout = BufReader::new(child.stdout.take().unwrap());
        Worker { child, stdin, stdout, stderr_path }
    }

    pub fn eval(&self, rendered: &Value) -> Isolated {
        let mut w = self.idle.lock().unwrap().pop().unwrap_or_else(|| self.spawn());
        let pid = w.child.id();
        let line = json!({"rendered": rendered}).to_string();
        self.deadlines.lock().unwrap().push((pid, Instant::now() + self.timeout));
        let t0 = Instant::now();
        let ok = writeln!(w.stdin, "{line}").and_then(|_| w.stdin.flush()).is_ok();
        let mut resp = String::new();
        let got = ok && w.stdout.read_line(&mut resp).map(|n| n > 0).unwrap_or(false);
        self.deadlines.lock().unwrap().retain(|(p, _)| *p != pid);
        if got {
            if let Ok(v) = serde_json::from_str::<Value>(&resp) {
                self.idle.lock().unwrap().push(w);
                return Isolated::Outcome(outcome_from_json(&v));
            }
        }
        // worker died (or garbage): collect status
        let timed_out = t0.elapsed() >= self.timeout;
        let _ = w.child.kill();
        let status = w.child.wait().ok();
        let stderr = std::fs::read_to_string(&w.stderr_path).unwrap_or_default();
        let _ = std::fs::remove_file(&w.stderr_path);
        if timed_out {
            return Isolated::Timeout;
        }
        use std::os::unix::process::ExitStatusExt;
        let tail: String = stderr.lines().rev().take(6).collect::<Vec<_>>().into_iter().rev().collect::<Vec<_>>().join("\n");
        Isolated::Crash { signal: status.and_then(|s| s.signal()), code: status.and_then(|s| s.code()), stderr_tail: tail }
    }

    pub fn shutdown(&self) {
        for mut w in self.idle.lock().unwrap().drain(..) {
            drop(w.stdin);
            let _ = w.child.wait();
            let _ = std::fs::remove_file(&w.stderr_path);
        }
    }
}

impl Drop for Pool {
    fn drop(&mut self) {
        self.shutdown();
    }
}

pub fn outcome_to_json(o: &Outcome) -> Value {
    json!({
        "fail": o.fail.as_ref().map(|f| json!({"key": f.key, "msg": f.msg})),
        "nontrivial": o.nontrivial,
        "classes": o.classes,
        "hash": format!("{:016x}", o.hash),
        "inconclusive": o.inconclusive,
    })
}

pub fn outcome_from_json(v: &Value) -> Outcome {
    Outcome {
        fail: v["fail"].as_object().map(|f| Failure { key: f["key"].as_str().unwrap_or("").into(), msg: f["msg"].as_str().unwrap_or("").into() }),
        nontrivial: v["nontrivial"].as_bool().unwrap_or(false),
        classes: v["classes"].as_array().map(|a| a.iter().filter_map(|x| x.as_str().map(String::from)).collect()).unwrap_or_default(),
        hash: u64::from_str_radix(v["hash"].as_str().unwrap_or("0"), 16).unwrap_or(0),
        inconclusive: v["inconclusive"].as_str().map(String::from),
    }
}

/// Worker loop: read `{"rendered":…}` lines, evaluate, answer with an outcome line.
pub fn worker_loop<P: Prop>(prop: &P) -> i32 {
    install_panic_hook();
    // protocol goes over a private copy of fd 1; fd 1 itself is pointed at stderr so that
    // code under test that prints to stdout cannot corrupt the protocol
    use std::os::fd::FromRawFd;
    let proto_fd = unsafe { libc::dup(1) };
    unsafe { libc::dup2(2, 1) };
    let mut proto = unsafe { std::fs::File::from_raw_fd(proto_fd) };
    let stdin = std::io::stdin();
    for line in stdin.lock().lines() {
        let Ok(line) = line else { break };
        let Ok(v) = serde_json::from_str::<Value>(&line) else { continue };
        let o = match prop.from_rendered(&v["rendered"]) {
            Some(case) => eval_guarded(prop, &case),
            None => Outcome { inconclusive: Some("worker could not rebuild case".into()), ..Default::default() },
        };
        let _ = writeln!(proto, "{}", outcome_to_json(&o));
        let _ = proto.flush();
    }
    0
}

/// Wrap a Prop so that eval happens in a worker process.
pub struct IsolatedProp<'a, P: Prop> {
    pub inner: &'a P,
    pub pool: Pool,
    /// maps a crash to a failure key (may inspect the case to tag the construct)
    pub crash_key: Box<dyn Fn(&P::Case, Option<i32>, &str) -> String + Sync + Send + 'a>,
}

impl<'a, P: Prop> Prop for IsolatedProp<'a, P> {
    type Case = P::Case;
    fn name(&self) -> &str {
        self.inner.name()
    }
    fn generate(&self, c: &mut Choices) -> P::Case {
        self.inner.generate(c)
    }
    fn eval(&self, case: &P::Case) -> Outcome {
        let rendered = self.inner.render(case);
        match self.pool.eval(&rendered) {
            Isolated::Outcome(o) => o,
            Isolated::Timeout => Outcome { inconclusive: Some(format!("case exceeded {}s in worker (HANG-SUSPECT)", self.pool.timeout.as_secs())), hash: hash64(&rendered.to_string()), ..Default::default() },
            Isolated::Crash { signal, code, stderr_tail } => {
                let key = (self.crash_key)(case, signal, &stderr_tail);
                Outcome::fail(hash64(&rendered.to_string()), key, format!("worker process died (signal {:?}, exit code {:?}) while evaluating this case; stderr tail:\n{}", signal, code, stderr_tail))
            }
        }
    }
    fn render(&self, case: &P::Case) -> Value {
        self.inner.render(case)
    }
    fn from_rendered(&self, v: &Value) -> Option<P::Case> {
        self.inner.from_rendered(v)
    }
    fn minimize(&self, case: &P::Case, fails: &dyn Fn(&P::Case) -> bool) -> Option<P::Case> {
        self.inner.minimize(case, fails)
    }
}
