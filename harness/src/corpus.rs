//! corpusgen — the repository's runnable programs with the `//=` directives of tools/pytester.

use std::path::{Path, PathBuf};

#[derive(Clone, Debug, Default)]
pub struct CorpusProgram {
    /// the test file that carries the directives
    pub test_file: PathBuf,
    /// the file that is compiled (differs with `//= file`)
    pub source: PathBuf,
    pub args: Vec<String>,
    pub compile_args: Vec<String>,
    pub runtime_args: String,
    /// expected failure: Some(status) ; Some(-1) = "any failure"
    pub expect_status: Option<i32>,
    pub expect_stdout: Option<String>,
    pub ignore: bool,
    pub boots_only: bool,
    pub unstable: Option<&'static str>,
}

fn unquote(s: &str) -> String {
    s.trim().trim_matches('"').to_string()
}

pub fn parse_program(path: &Path) -> Option<CorpusProgram> {
    let text = std::fs::read_to_string(path).ok()?;
    if !text.contains("fn main") && !text.contains("//= file") {
        return None;
    }
    let mut p = CorpusProgram { test_file: path.to_path_buf(), source: path.to_path_buf(), ..Default::default() };
    for line in text.lines() {
        let Some(d) = line.trim().strip_prefix("//=") else { continue };
        let d = d.trim();
        let (key, rest) = d.split_once(' ').unwrap_or((d, ""));
        match key {
            "ignore" => p.ignore = true,
            "flaky" => p.unstable = Some("flaky"),
            "timeout" => p.unstable = Some("long-running"),
            "boots" => p.boots_only = true,
            "file" => p.source = Path::new("/repo").join(rest.trim()),
            "args" => p.args = rest.split_whitespace().map(String::from).collect(),
            "compile-args" => p.compile_args = unquote(rest).split_whitespace().map(String::from).collect(),
            "runtime-args" => p.runtime_args = unquote(rest),
            "error" => {
                let r = rest.trim();
                p.expect_status = Some(match r {
                    "div0" => 101,
                    "assert" => 102,
                    "array" => 103,
                    "nil" => 104,
                    "cast" => 105,
                    "oom" => 106,
                    "stack-overflow" => 107,
                    "overflow" => 109,
                    "shift" => 110,
                    _ if r.starts_with("code") => r[4..].trim().parse().unwrap_or(-1),
                    _ => -1,
                });
            }
            _ => {}
        }
    }
    let so = path.with_extension("stdout");
    if so.exists() {
        p.expect_stdout = std::fs::read_to_string(so).ok();
    }
    let s = path.to_string_lossy();
    for (pat, why) in [("/thread/", "thread interleaving"), ("/io/", "file system"), ("/snapshot/", "heap snapshot files"), ("/atomic/", "thread interleaving"), ("/bench/", "long-running"), ("sleep", "wall clock"), ("timestamp", "wall clock")] {
        if s.contains(pat) {
            p.unstable = Some(why);
        }
    }
    if text.contains("std::thread") || text.contains("spawn(") {
        p.unstable = Some("thread interleaving");
    }
    if text.contains("std::timestamp") || text.contains("std::sleep") || text.contains("std::argv") && p.args.is_empty() {
        p.unstable.get_or_insert("wall clock / environment");
    }
    Some(p)
}

pub fn runtime_corpus() -> Vec<CorpusProgram> {
    let mut files = vec![];
    collect(Path::new("/repo/test/rt"), &mut files);
    files.sort();
    files.iter().filter_map(|f| parse_program(f)).collect()
}

fn collect(dir: &Path, out: &mut Vec<PathBuf>) {
    let Ok(rd) = std::fs::read_dir(dir) else { return };
    for e in rd.flatten() {
        let p = e.path();
        if p.is_dir() {
            collect(&p, out);
        } else if p.extension().map(|x| x == "dora").unwrap_or(false) {
            out.push(p);
        }
    }
}
