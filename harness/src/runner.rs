//! runner — drives the real `dora compile` and the produced executables.

use std::io::Read;
use std::path::{Path, PathBuf};
use std::process::{Command, Stdio};
use std::sync::atomic::{AtomicU64, Ordering};
use std::time::{Duration, Instant};

#[derive(Clone, Copy, Debug, PartialEq, Eq, Hash)]
pub enum Backend {
    Cannon,
    Boots,
}

impl Backend {
    pub fn name(&self) -> &'static str {
        match self {
            Backend::Cannon => "baseline",
            Backend::Boots => "optimizing",
        }
    }
    pub const BOTH: [Backend; 2] = [Backend::Cannon, Backend::Boots];
}

#[derive(Clone, Debug)]
pub struct Tools {
    pub dir: PathBuf,
}

impl Tools {
    pub fn release() -> Tools {
        Tools { dir: PathBuf::from(std::env::var("VERIF_DORA_RELEASE").unwrap_or_else(|_| "/verif/.build/target/release".into())) }
    }
    pub fn debug() -> Tools {
        Tools { dir: PathBuf::from(std::env::var("VERIF_DORA_DEBUG").unwrap_or_else(|_| "/verif/.build/target/debug".into())) }
    }
    pub fn dora(&self) -> PathBuf {
        self.dir.join("dora")
    }
    pub fn has_boots(&self) -> bool {
        self.dir.join("dora-boots-compiler").exists()
    }
    pub fn boots_failure(&self) -> Option<String> {
        std::fs::read_to_string(self.dir.join(".boots-failed")).ok()
    }
}

#[derive(Clone, Debug, Default)]
pub struct ProcResult {
    pub status: Option<i32>,
    pub signal: Option<i32>,
    pub stdout: Vec<u8>,
    pub stderr: Vec<u8>,
    pub timed_out: bool,
    pub wall: Duration,
    /// the process was killed because it had become quiescent: every thread asleep and no CPU time consumed
    /// over several seconds although it had not exited (see `run_cmd_watch`)
    pub quiescent: bool,
}

impl ProcResult {
    pub fn stdout_str(&self) -> String {
        String::from_utf8_lossy(&self.stdout).into_owned()
    }
    pub fn stderr_str(&self) -> String {
        String::from_utf8_lossy(&self.stderr).into_owned()
    }
    pub fn ok(&self) -> bool {
        self.status == Some(0) && !self.timed_out
    }
}

const OUT_CAP: usize = 4 << 20;

/// (all threads sleeping, total utime+stime ticks) of a process, from /proc.
fn proc_activity(pid: i32) -> Option<(bool, u64)> {
    let mut all_sleeping = true;
    let mut ticks = 0u64;
    let mut n = 0;
    for e in std::fs::read_dir(format!("/proc/{pid}/task")).ok()? {
        let e = e.ok()?;
        let st = std::fs::read_to_string(e.path().join("stat")).ok()?;
        let rest = &st[st.rfind(')')? + 1..];
        let f: Vec<&str> = rest.split_whitespace().collect();
        // f[0] = state, f[11] = utime, f[12] = stime (fields 3, 14, 15 of proc(5))
        if f.len() < 13 {
            return None;
        }
        if f[0] != "S" {
            all_sleeping = false;
        }
        ticks += f[11].parse::<u64>().ok()? + f[12].parse::<u64>().ok()?;
        n += 1;
    }
    if n == 0 { None } else { Some((all_sleeping, ticks)) }
}

/// Run a command with a timeout, capturing stdout/stderr (capped).
pub fn run_cmd(cmd: Command, timeout: Duration) -> ProcResult {
    run_cmd_watch(cmd, timeout, None)
}

/// Like `run_cmd`; with `quiescent = Some(d)` the process is additionally sampled once per second and
/// killed (result.quiescent = true) when, for `d` in a row, every one of its threads is in interruptible
/// sleep and its accumulated CPU time has not advanced by a single tick. For a program that neither reads
/// input nor sleeps this means no thread can ever run again (deadlock / lost wake-up) — unlike a plain
/// timeout it is independent of machine load: a thread that merely waits for a CPU is in state R.
pub fn run_cmd_watch(mut cmd: Command, timeout: Duration, quiescent: Option<Duration>) -> ProcResult {
    let t0 = Instant::now();
    cmd.stdin(Stdio::null()).stdout(Stdio::piped()).stderr(Stdio::piped());
    // own process group so that a timeout kills grandchildren (gcc, compiler binaries) too
    unsafe {
        use std::os::unix::process::CommandExt;
        cmd.pre_exec(|| {
            libc::setpgid(0, 0);
            Ok(())
        });
    }
    let mut child = match cmd.spawn() {
        Ok(c) => c,
        Err(e) => {
            return ProcResult { status: Some(127), stderr: format!("spawn failed: {e}").into_bytes(), ..Default::default() };
        }
    };
    let mut so = child.stdout.take().unwrap();
    let mut se = child.stderr.take().unwrap();
    let t1 = std::thread::spawn(move || {
        let mut buf = Vec::new();
        let mut chunk = [0u8; 65536];
        loop {
            match so.read(&mut chunk) {
                Ok(0) | Err(_) => break,
                Ok(n) => {
                    if buf.len() < OUT_CAP {
                        buf.extend_from_slice(&chunk[..n]);
                    }
                }
            }
        }
        buf
    });
    let t2 = std::thread::spawn(move || {
        let mut buf = Vec::new();
        let mut chunk = [0u8; 65536];
        loop {
            match se.read(&mut chunk) {
                Ok(0) | Err(_) => break,
                Ok(n) => {
                    if buf.len() < OUT_CAP {
                        buf.extend_from_slice(&chunk[..n]);
                    }
                }
            }
        }
        buf
    });
    let pid = child.id() as i32;
    let mut timed_out = false;
    let mut was_quiescent = false;
    let mut last_sample = Instant::now();
    let mut idle_since: Option<(Instant, u64)> = None;
    let status = loop {
        match child.try_wait() {
            Ok(Some(st)) => break Some(st),
            Ok(None) => {
                if let Some(qd) = quiescent {
                    if last_sample.elapsed() >= Duration::from_millis(500) {
                        last_sample = Instant::now();
                        match proc_activity(pid) {
                            Some((true, ticks)) => match idle_since {
                                Some((since, t)) if t == ticks => {
                                    if since.elapsed() >= qd {
                                        was_quiescent = true;
                                    }
                                }
                                _ => idle_since = Some((Instant::now(), ticks)),
                            },
                            _ => idle_since = None,
                        }
                    }
                }
                if was_quiescent || t0.elapsed() > timeout {
                    timed_out = !was_quiescent;
                    unsafe {
                        libc::kill(-pid, libc::SIGKILL);
                        libc::kill(pid, libc::SIGKILL);
                    }
                    break child.wait().ok();
                }
                std::thread::sleep(Duration::from_millis(if t0.elapsed() < Duration::from_millis(200) { 2 } else { 10 }));
            }
            Err(_) => break None,
        }
    };
    let stdout = t1.join().unwrap_or_default();
    let stderr = t2.join().unwrap_or_default();
    use std::os::unix::process::ExitStatusExt;
    ProcResult {
        status: status.and_then(|s| s.code()),
        signal: status.and_then(|s| s.signal()),
        stdout,
        stderr,
        timed_out,
        wall: t0.elapsed(),
        quiescent: was_quiescent,
    }
}

static SCRATCH_N: AtomicU64 = AtomicU64::new(0);

/// A scratch directory under /verif/.build/scratch, removed on drop.
pub struct Scratch {
    pub path: PathBuf,
}

impl Scratch {
    pub fn new(tag: &str) -> Scratch {
        let n = SCRATCH_N.fetch_add(1, Ordering::SeqCst);
        let path = PathBuf::from(format!("/verif/.build/scratch/{}-{}-{}", tag, std::process::id(), n));
        let _ = std::fs::remove_dir_all(&path);
        std::fs::create_dir_all(&path).expect("scratch dir");
        Scratch { path }
    }
    pub fn file(&self, name: &str) -> PathBuf {
        self.path.join(name)
    }
}

impl Drop for Scratch {
    fn drop(&mut self) {
        let _ = std::fs::remove_dir_all(&self.path);
    }
}

#[derive(Clone, Debug, Default)]
pub struct CompileOpts {
    pub gc: Option<String>,
    pub extra: Vec<String>,
}

/// `dora compile <src> -o <out> [--cannon] [--gc=…] extra…` with DORA_FLAGS cleared.
pub fn compile(tools: &Tools, src: &Path, out: &Path, backend: Backend, opts: &CompileOpts, timeout: Duration) -> ProcResult {
    let mut cmd = Command::new(tools.dora());
    cmd.arg("compile").arg(src).arg("-o").arg(out);
    if backend == Backend::Cannon {
        cmd.arg("--cannon");
    }
    if let Some(gc) = &opts.gc {
        cmd.arg(format!("--gc={gc}"));
    }
    for e in &opts.extra {
        cmd.arg(e);
    }
    cmd.env_remove("DORA_FLAGS");
    cmd.env("TMPDIR", src.parent().unwrap_or(Path::new("/tmp")));
    cmd.current_dir(src.parent().unwrap_or(Path::new(".")));
    run_cmd(cmd, timeout)
}

/// Run an executable with extra environment variables and quiescence (deadlock) detection.
pub fn run_exe_watch(exe: &Path, dora_flags: &str, envs: &[(&str, String)], timeout: Duration, quiescent: Duration, cwd: &Path) -> ProcResult {
    let mut cmd = Command::new(exe);
    if dora_flags.is_empty() {
        cmd.env_remove("DORA_FLAGS");
    } else {
        cmd.env("DORA_FLAGS", dora_flags);
    }
    for (k, v) in envs {
        cmd.env(k, v);
    }
    cmd.current_dir(cwd);
    run_cmd_watch(cmd, timeout, Some(quiescent))
}

pub fn run_exe(exe: &Path, dora_flags: &str, timeout: Duration, cwd: &Path) -> ProcResult {
    let mut cmd = Command::new(exe);
    if dora_flags.is_empty() {
        cmd.env_remove("DORA_FLAGS");
    } else {
        cmd.env("DORA_FLAGS", dora_flags);
    }
    cmd.current_dir(cwd);
    run_cmd(cmd, timeout)
}

/// How a run ended, in the vocabulary of the properties.
#[derive(Clone, Debug, PartialEq, Eq)]
pub enum Ending {
    /// return from main / std::exit with this status
    Exit(i32),
    /// documented trap: (status, message)
    Trap(i32, String),
    /// fatal_error / unreachable / abort: status 1 with a message
    Fatal(String),
    Signal(i32),
    /// a Rust panic inside the runtime
    RuntimePanic(String),
    Timeout,
    /// killed because no thread of the process could ever run again (see `run_cmd_watch`)
    Quiescent,
    /// an exit status with no matching message
    Unexplained(i32, String),
}

pub const TRAPS: &[(i32, &str)] = &[
    (101, "division by 0"),
    (102, "assert failed"),
    (103, "array index out of bounds"),
    (104, "nil check failed"),
    (105, "cast failed"),
    (106, "out of memory"),
    (107, "stack overflow"),
    (108, "illegal state"),
    (109, "overflow"),
    (110, "shift amount out of bounds"),
];

pub fn classify(r: &ProcResult) -> Ending {
    if r.quiescent {
        return Ending::Quiescent;
    }
    if r.timed_out {
        return Ending::Timeout;
    }
    if let Some(s) = r.signal {
        return Ending::Signal(s);
    }
    let code = r.status.unwrap_or(-1);
    let stderr = r.stderr_str();
    let first = stderr.lines().next().unwrap_or("").trim().to_string();
    if stderr.contains("panicked at") || stderr.contains("RUST_BACKTRACE") {
        return Ending::RuntimePanic(stderr.lines().take(3).collect::<Vec<_>>().join(" | "));
    }
    if let Some((_, msg)) = TRAPS.iter().find(|(c, _)| *c == code) {
        if first == *msg {
            return Ending::Trap(code, first);
        }
        return Ending::Unexplained(code, first);
    }
    if code == 1 && !first.is_empty() {
        return Ending::Fatal(first);
    }
    if first.is_empty() || code == 0 {
        return Ending::Exit(code);
    }
    // non-zero exit with stderr text: explicit exit after printing to stderr is legal
    Ending::Exit(code)
}

pub fn ending_defined(e: &Ending) -> bool {
    matches!(e, Ending::Exit(_) | Ending::Trap(..) | Ending::Fatal(_))
}
