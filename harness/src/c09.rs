//! C09 (program level) — mutexes, conditions, joins and atomics keep their promises.
//!
//! Generated multi-threaded Dora workloads with closed-form invariants, built with both code generators and
//! every collector and run repeatedly under seeded schedule perturbation (`DORA_VERIF_PERTURB`, the hook in
//! dora-runtime/src/verif.rs) and GC stress. The wait-queue primitives under the deterministic scheduler are
//! the other half of this check (binary `vsched C09`, merged as part `waitlists`).

use crate::runner::*;
use crate::vcore::*;
use serde_json::{Value, json};
use std::time::Duration;

#[derive(Clone, Debug)]
pub struct MtCase {
    pub kind: String,
    pub label: String,
    pub source: String,
    pub expected: String,
    pub backend: Backend,
    pub gc: String,
    pub flags: String,
    /// one run per entry; `None` = no perturbation
    pub perturb: Vec<Option<u64>>,
    /// workload forces collections / allocates while threads are queued
    pub moves_objects: bool,
}

pub struct MtWorkloads {
    pub tools: Tools,
}

const PRELUDE: &str = "use std::thread::{AtomicInt32, AtomicInt64, Condition, Mutex};\nuse std::Thread;\n\n";

fn subst(t: &str, kv: &[(&str, String)]) -> String {
    let mut s = t.to_string();
    for (k, v) in kv {
        s = s.replace(&format!("@{k}@"), v);
    }
    assert!(!s.contains('@'), "unsubstituted parameter in workload template: {}", s.lines().find(|l| l.contains('@')).unwrap_or(""));
    s
}

/// statement that provokes collector activity; `k` selects the kind
fn gc_stmt(k: usize) -> &'static str {
    match k {
        0 => "",
        1 => "std::force_collect();",
        2 => "std::force_minor_collect();",
        3 => "Array[Int64]::zero(4000);",
        _ => "churn(40);",
    }
}

const CHURN: &str = r#"class Node { next: Option[Node], payload: Array[Int64] }

fn churn(n: Int64): Int64 {
    let mut head: Option[Node] = None;
    let mut i = 0;
    while i < n {
        head = Some[Node](Node(next = head, payload = Array[Int64]::zero(8)));
        i = i + 1;
    }
    let mut c = 0;
    while head.is_some() {
        let nd = head.get_or_panic();
        c = c + 1 + nd.payload.size() - 8;
        head = nd.next;
    }
    c
}

"#;

const W_COUNTER: &str = r#"class Shared {
    outer: Mutex,
    mtx: Mutex,
    value: Int64,
    inside: Int64,
    overlaps: Int64,
    side: AtomicInt64,
}

fn worker(s: Shared, id: Int64) {
    let mut i = 0;
    while i < @K@ {
        let seen = @LOCK_OPEN@s.mtx.lock[Int64](||: Int64 {
            if s.inside != 0 { s.overlaps = s.overlaps + 1; }
            s.inside = 1;
            let v = s.value;
            if i % @GCEVERY@ == id { @GC_IN@ }
            s.value = v + 1;
            s.inside = 0;
            v
        })@LOCK_CLOSE@;
        if seen % @GCEVERY2@ == 0 { @GC_OUT@ s.side.fetch_add(1); }
        i = i + 1;
    }
}

fn start(s: Shared, id: Int64): Thread {
    std::thread::spawn(|| { worker(s, id); })
}

fn main() {
    let s = Shared(outer = Mutex::new(), mtx = Mutex::new(), value = 0, inside = 0, overlaps = 0, side = AtomicInt64::new(0));
    let threads = Vec[Thread]::new();
    let mut t = 0;
    while t < @N@ {
        threads.push(start(s, t));
        t = t + 1;
    }
    for th in threads { th.join(); }
    println("counter=${s.value} overlaps=${s.overlaps} side=${s.side.get()}");
}
"#;

const W_QUEUE: &str = r#"class BQ {
    mtx: Mutex,
    nonEmpty: Condition,
    nonFull: Condition,
    buf: Array[Int64],
    head: Int64,
    count: Int64,
    maxcount: Int64,
}

impl BQ {
    fn put(v: Int64) {
        self.mtx.lock[()](|| {
            while self.count == self.buf.size() {
                self.nonFull.wait(self.mtx);
            }
            let pos = (self.head + self.count) % self.buf.size();
            self.buf(pos) = v;
            self.count = self.count + 1;
            if self.count > self.maxcount { self.maxcount = self.count; }
            @IN_OPEN@self.nonEmpty.@NOTIFY@();@IN_CLOSE@
        });
        @OUT_OPEN@self.nonEmpty.@NOTIFY@();@OUT_CLOSE@
    }

    fn take(): Int64 {
        let v = self.mtx.lock[Int64](||: Int64 {
            while self.count == 0 {
                self.nonEmpty.wait(self.mtx);
            }
            let v = self.buf(self.head);
            self.head = (self.head + 1) % self.buf.size();
            self.count = self.count - 1;
            @IN_OPEN@self.nonFull.@NOTIFY@();@IN_CLOSE@
            v
        });
        @OUT_OPEN@self.nonFull.@NOTIFY@();@OUT_CLOSE@
        v
    }
}

class Stats { sum: AtomicInt64, items: AtomicInt64, order_errors: AtomicInt64 }

fn producer(q: BQ, id: Int64) {
    let mut i = 0;
    while i < @K@ {
        q.put(id * 1000000 + i);
        if i % @GCEVERY@ == id { @GC_OUT@ }
        i = i + 1;
    }
}

fn consumer(q: BQ, st: Stats) {
    let last = Array[Int64]::fill(@P@, -1);
    let mut sum = 0;
    let mut items = 0;
    let mut errors = 0;
    while true {
        let v = q.take();
        if v < 0 { break; }
        let p = v / 1000000;
        let seq = v % 1000000;
        if seq <= last(p) { errors = errors + 1; }
        last(p) = seq;
        sum = sum + v;
        items = items + 1;
        if items % @GCEVERY2@ == 5 { @GC_IN@ }
    }
    st.sum.fetch_add(sum);
    st.items.fetch_add(items);
    st.order_errors.fetch_add(errors);
}

fn start_producer(q: BQ, id: Int64): Thread { std::thread::spawn(|| { producer(q, id); }) }
fn start_consumer(q: BQ, st: Stats): Thread { std::thread::spawn(|| { consumer(q, st); }) }

fn main() {
    let q = BQ(mtx = Mutex::new(), nonEmpty = Condition::new(), nonFull = Condition::new(), buf = Array[Int64]::zero(@CAP@), head = 0, count = 0, maxcount = 0);
    let st = Stats(sum = AtomicInt64::new(0), items = AtomicInt64::new(0), order_errors = AtomicInt64::new(0));
    let producers = Vec[Thread]::new();
    let consumers = Vec[Thread]::new();
    let mut t = 0;
    while t < @C@ { consumers.push(start_consumer(q, st)); t = t + 1; }
    t = 0;
    while t < @P@ { producers.push(start_producer(q, t)); t = t + 1; }
    for th in producers { th.join(); }
    t = 0;
    while t < @C@ { q.put(-1); t = t + 1; }
    for th in consumers { th.join(); }
    println("items=${st.items.get()} sum=${st.sum.get()} order_errors=${st.order_errors.get()} left=${q.count} over=${q.maxcount > q.buf.size()}");
}
"#;

const W_RING: &str = r#"class Ring { mtx: Mutex, conds: Array[Condition], turn: Int64, log: Int64, steps: Int64, bad: Int64 }

fn player(r: Ring, me: Int64, n: Int64, rounds: Int64) {
    let mut k = 0;
    while k < rounds {
        r.mtx.lock[()](|| {
            while r.turn != me {
                r.conds(me % r.conds.size()).wait(r.mtx);
            }
            if r.steps % n != me { r.bad = r.bad + 1; }
            r.log = (r.log * 31 + me + 1) % 1000000007;
            r.steps = r.steps + 1;
            r.turn = (me + 1) % n;
            if k % @GCEVERY@ == me { @GC_IN@ }
            @IN_OPEN@r.conds(r.turn % r.conds.size()).@NOTIFY@();@IN_CLOSE@
        });
        @OUT_OPEN@r.conds(((me + 1) % n) % r.conds.size()).@NOTIFY@();@OUT_CLOSE@
        k = k + 1;
    }
}

fn start(r: Ring, me: Int64, n: Int64, rounds: Int64): Thread { std::thread::spawn(|| { player(r, me, n, rounds); }) }

fn main() {
    let conds = Array[Condition]::fill(@NCOND@, Condition::new());
    let mut i = 0;
    while i < conds.size() { conds(i) = Condition::new(); i = i + 1; }
    let r = Ring(mtx = Mutex::new(), conds = conds, turn = 0, log = 0, steps = 0, bad = 0);
    let threads = Vec[Thread]::new();
    let mut t = 0;
    while t < @N@ { threads.push(start(r, t, @N@, @K@)); t = t + 1; }
    for th in threads { th.join(); }
    println("steps=${r.steps} bad=${r.bad} log=${r.log}");
}
"#;

const W_BARRIER: &str = r#"class Barrier { mtx: Mutex, cond: Condition, n: Int64, arrived: Int64, generation: Int64 }

impl Barrier {
    fn arrive() {
        let last = self.mtx.lock[Bool](||: Bool {
            self.arrived = self.arrived + 1;
            if self.arrived == self.n {
                self.arrived = 0;
                self.generation = self.generation + 1;
                @IN_OPEN@self.cond.notify_all();@IN_CLOSE@
                true
            } else {
                let g = self.generation;
                while self.generation == g {
                    self.cond.wait(self.mtx);
                }
                false
            }
        });
        if last { @OUT_OPEN@self.cond.notify_all();@OUT_CLOSE@ }
    }
}

class Board { slots: Array[Int64], errors: AtomicInt64, keep: Array[Array[Int64]] }

fn worker(b: Barrier, bd: Board, me: Int64, rounds: Int64) {
    let mut r = 1;
    while r <= rounds {
        bd.slots(me) = r;
        if r % 7 == me { bd.keep(me) = Array[Int64]::fill(64, r); }
        if r % @GCEVERY@ == me { @GC_OUT@ }
        b.arrive();
        let mut j = 0;
        while j < bd.slots.size() {
            if bd.slots(j) < r { bd.errors.fetch_add(1); }
            j = j + 1;
        }
        b.arrive();
        r = r + 1;
    }
}

fn start(b: Barrier, bd: Board, me: Int64, rounds: Int64): Thread { std::thread::spawn(|| { worker(b, bd, me, rounds); }) }

fn main() {
    let n = @N@;
    let b = Barrier(mtx = Mutex::new(), cond = Condition::new(), n = n, arrived = 0, generation = 0);
    let bd = Board(slots = Array[Int64]::zero(n), errors = AtomicInt64::new(0), keep = Array[Array[Int64]]::fill(n, Array[Int64]::zero(0)));
    let threads = Vec[Thread]::new();
    let mut t = 0;
    while t < n { threads.push(start(b, bd, t, @K@)); t = t + 1; }
    for th in threads { th.join(); }
    let mut sum = 0;
    for x in bd.slots { sum = sum + x; }
    println("generation=${b.generation} errors=${bd.errors.get()} slotsum=${sum}");
}
"#;

const W_JOIN: &str = r#"class Cell { data: Array[Int64], total: Int64, done: Bool, prev: Option[Thread], prevcell: Option[Cell] }

fn fill(c: Cell, id: Int64) {
    if c.prev.is_some() {
        c.prev.get_or_panic().join();
        let pc = c.prevcell.get_or_panic();
        if !pc.done { c.total = -1000000000; } else { c.total = pc.total; }
    }
    let mut i = 0;
    while i < c.data.size() {
        c.data(i) = id * 1000 + i;
        c.total = c.total + c.data(i);
        i = i + 1;
    }
    if id % 2 == 0 { @GC_OUT@ }
    c.done = true;
}

fn start(c: Cell, id: Int64): Thread { std::thread::spawn(|| { fill(c, id); }) }

fn main() {
    let cells = Vec[Cell]::new();
    let threads = Vec[Thread]::new();
    let mut t = 0;
    while t < @N@ {
        let c = Cell(data = Array[Int64]::zero(@LEN@), total = 0, done = false, prev = None, prevcell = None);
        if t % @CHAIN@ != 0 { c.prev = Some[Thread](threads(t - 1)); c.prevcell = Some[Cell](cells(t - 1)); }
        cells.push(c);
        threads.push(start(c, t));
        t = t + 1;
    }
    let mut sum = 0;
    let mut notdone = 0;
    t = @N@ - 1;
    while t >= 0 {
        threads(t).join();
        @JOIN_TWICE@
        if !cells(t).done { notdone = notdone + 1; }
        sum = sum + cells(t).total;
        for x in cells(t).data { sum = sum + x; }
        t = t - 1;
    }
    println("sum=${sum} notdone=${notdone}");
}
"#;

const W_ATOMICS: &str = r#"class Box { a32: AtomicInt32, a64: AtomicInt64, cas: AtomicInt64, flag: AtomicInt32, plain: Int64, inside: Int64, overlaps: Int64, oldsum: AtomicInt64, cas32: AtomicInt32, token: AtomicInt64, tokens_seen: AtomicInt64 }

fn worker(b: Box, me: Int64, k: Int64) {
    let mut i = 0;
    let mut olds = 0;
    let mut tok = me + 1;
    while i < k {
        b.a32.fetch_add(1i32);
        olds = olds + b.a64.fetch_add(@STEP@);
        while true {
            let old = b.cas.get();
            if b.cas.compare_exchange(old, old + 3) == old { break; }
        }
        while true {
            let old = b.cas32.get();
            if b.cas32.compare_exchange(old, old + 1i32) == old { break; }
        }
        while b.flag.exchange(1i32) != 0i32 { }
        if b.inside != 0 { b.overlaps = b.overlaps + 1; }
        b.inside = 1;
        b.plain = b.plain + 1;
        b.inside = 0;
        b.flag.set(0i32);
        // tokens circulate through exchange: none may be lost or duplicated
        tok = b.token.exchange(tok);
        if i % @GCEVERY@ == me { @GC_OUT@ }
        i = i + 1;
    }
    b.oldsum.fetch_add(olds);
    b.tokens_seen.fetch_add(tok);
}

fn start(b: Box, me: Int64, k: Int64): Thread { std::thread::spawn(|| { worker(b, me, k); }) }

fn main() {
    let b = Box(a32 = AtomicInt32::new(0i32), a64 = AtomicInt64::new(0), cas = AtomicInt64::new(0), flag = AtomicInt32::new(0i32), plain = 0, inside = 0, overlaps = 0, oldsum = AtomicInt64::new(0), cas32 = AtomicInt32::new(0i32), token = AtomicInt64::new(1000), tokens_seen = AtomicInt64::new(0));
    let threads = Vec[Thread]::new();
    let mut t = 0;
    while t < @N@ { threads.push(start(b, t, @K@)); t = t + 1; }
    for th in threads { th.join(); }
    println("a32=${b.a32.get()} a64=${b.a64.get()} cas=${b.cas.get()} cas32=${b.cas32.get()} plain=${b.plain} overlaps=${b.overlaps} oldsum=${b.oldsum.get()} tokens=${b.tokens_seen.get() + b.token.get()}");
}
"#;

const W_GATE: &str = r#"class Gate { mtx: Mutex, cond: Condition, waiting: Int64, flag: Bool, early: Int64, woken: Int64 }

fn waiter(g: Gate) {
    g.mtx.lock[()](|| {
        g.waiting = g.waiting + 1;
        g.cond.wait(g.mtx);
        if !g.flag { g.early = g.early + 1; }
        g.woken = g.woken + 1;
    });
}

fn start(g: Gate): Thread { std::thread::spawn(|| { waiter(g); }) }

fn main() {
    let g = Gate(mtx = Mutex::new(), cond = Condition::new(), waiting = 0, flag = false, early = 0, woken = 0);
    // notifications while nobody waits: must have no effect
    let mut i = 0;
    while i < @PRE@ { g.cond.notify_one(); g.cond.notify_all(); i = i + 1; }
    let threads = Vec[Thread]::new();
    let n = @N@;
    let mut t = 0;
    while t < n { threads.push(start(g)); t = t + 1; }
    // all waiters are enqueued once `waiting == n` is seen under the mutex (wait() enqueues before it unlocks)
    let mut ready = false;
    while !ready {
        ready = g.mtx.lock[Bool](||: Bool { g.waiting == n });
    }
    @GC_OUT@
    i = 0;
    while i < @SPIN@ { g.mtx.lock[()](|| { }); i = i + 1; }
    let before = g.mtx.lock[Int64](||: Int64 { g.woken });
    g.mtx.lock[()](|| { g.flag = true; @IN_OPEN@g.cond.notify_one();@IN_CLOSE@ });
    @OUT_OPEN@g.cond.notify_one();@OUT_CLOSE@
    let mut one = false;
    while !one { one = g.mtx.lock[Bool](||: Bool { g.woken >= 1 }); }
    i = 0;
    while i < @SPIN@ { g.mtx.lock[()](|| { }); i = i + 1; }
    let after_one = g.mtx.lock[Int64](||: Int64 { g.woken });
    g.mtx.lock[()](|| { @IN_OPEN@g.cond.notify_all();@IN_CLOSE@ });
    @OUT_OPEN@g.cond.notify_all();@OUT_CLOSE@
    for th in threads { th.join(); }
    println("before=${before} after_one=${after_one} woken=${g.woken} early=${g.early}");
}
"#;

pub const KINDS: &[&str] = &["counter", "queue", "ring", "barrier", "join", "atomics", "gate"];

/// Build one workload. Returns (kind, label, source, expected stdout, moves objects).
pub fn gen_workload(c: &mut Choices, heavy_gc: bool) -> (String, String, String, String, bool) {
    let kind = KINDS[c.below(KINDS.len())];
    // under per-allocation stress the iteration counts are kept small (each slow-path allocation collects)
    let scale = if heavy_gc { 10 } else { 1 };
    let n = 2 + c.below(7) as i64; // 2..8 threads
    let gc_in = c.below(5);
    let gc_out = c.below(5);
    let gce = *c.pick(&[50i64, 7, 200, 1000, 13]);
    let gce2 = *c.pick(&[300i64, 40, 900, 5]);
    let moves = gc_in != 0 || gc_out != 0;
    // notifications are issued inside the critical section or right after it (both are legal uses of the API)
    let notify_outside = c.chance(1, 2);
    let (io, ic, oo, oc) = if notify_outside { ("/* ", " */", "", "") } else { ("", "", "/* ", " */") };
    let mut kv: Vec<(&str, String)> = vec![
        ("IN_OPEN", io.to_string()),
        ("IN_CLOSE", ic.to_string()),
        ("OUT_OPEN", oo.to_string()),
        ("OUT_CLOSE", oc.to_string()),
        ("N", n.to_string()),
        ("GC_IN", gc_stmt(gc_in).to_string()),
        ("GC_OUT", gc_stmt(gc_out).to_string()),
        ("GCEVERY", (gce.max(n + 1)).to_string()),
        ("GCEVERY2", gce2.to_string()),
    ];
    let (body, expected, label): (&str, String, String) = match kind {
        "counter" => {
            let k = *c.pick(&[2000i64, 300, 5000, 20000]) / scale;
            let nested = c.chance(1, 3);
            kv.push(("K", k.to_string()));
            kv.push(("LOCK_OPEN", if nested { "s.outer.lock[Int64](||: Int64 { ".into() } else { String::new() }));
            kv.push(("LOCK_CLOSE", if nested { " })".into() } else { String::new() }));
            // side: `seen` takes every value 0..n*k-1 exactly once
            let total = n * k;
            let side = (total + gce2 - 1) / gce2;
            (W_COUNTER, format!("counter={total} overlaps=0 side={side}\n"), format!("counter:n{n}:k{k}:nested{}", nested as u8))
        }
        "queue" => {
            let p = 1 + c.below(4) as i64;
            let cons = 1 + c.below(4) as i64;
            let cap = *c.pick(&[4i64, 1, 2, 16, 64]);
            let k = *c.pick(&[3000i64, 500, 10000]) / scale;
            let notify = if c.chance(1, 2) { "notify_one" } else { "notify_all" };
            kv.push(("P", p.to_string()));
            kv.push(("C", cons.to_string()));
            kv.push(("CAP", cap.to_string()));
            kv.push(("K", k.to_string()));
            kv.push(("NOTIFY", notify.to_string()));
            let items = p * k;
            let sum: i64 = (0..p).map(|id| id * 1_000_000 * k + k * (k - 1) / 2).sum();
            (W_QUEUE, format!("items={items} sum={sum} order_errors=0 left=0 over=false\n"), format!("queue:p{p}:c{cons}:cap{cap}:k{k}:{notify}"))
        }
        "ring" => {
            let k = *c.pick(&[500i64, 100, 3000]) / scale.min(5);
            // one condition per player allows notify_one; a shared condition needs notify_all
            let per_player = c.chance(1, 2);
            let ncond = if per_player { n } else { *c.pick(&[1i64, 2]) };
            let notify = if per_player && c.chance(1, 2) { "notify_one" } else { "notify_all" };
            kv.push(("K", k.to_string()));
            kv.push(("NCOND", ncond.to_string()));
            kv.push(("NOTIFY", notify.to_string()));
            let mut log: i64 = 0;
            for s in 0..(n * k) {
                log = (log * 31 + (s % n) + 1) % 1_000_000_007;
            }
            (W_RING, format!("steps={} bad=0 log={log}\n", n * k), format!("ring:n{n}:k{k}:conds{ncond}:{notify}"))
        }
        "barrier" => {
            let k = *c.pick(&[200i64, 30, 1000]) / scale.min(5);
            kv.push(("K", k.to_string()));
            (W_BARRIER, format!("generation={} errors=0 slotsum={}\n", 2 * k, n * k), format!("barrier:n{n}:k{k}"))
        }
        "join" => {
            let len = if heavy_gc { *c.pick(&[100i64, 1, 300]) } else { *c.pick(&[100i64, 1, 1000, 20000]) };
            let chain = *c.pick(&[2i64, 1, 3, 100]);
            let twice = c.chance(1, 2);
            kv.push(("LEN", len.to_string()));
            kv.push(("CHAIN", chain.to_string()));
            kv.push(("JOIN_TWICE", if twice { "threads(t).join();".into() } else { String::new() }));
            let mut totals = vec![0i64; n as usize];
            let mut sum = 0i64;
            for t in 0..n {
                let own: i64 = (0..len).map(|i| t * 1000 + i).sum();
                let base = if t % chain != 0 { totals[(t - 1) as usize] } else { 0 };
                totals[t as usize] = base + own;
                sum += totals[t as usize] + own;
            }
            (W_JOIN, format!("sum={sum} notdone=0\n"), format!("join:n{n}:len{len}:chain{chain}:twice{}", twice as u8))
        }
        "atomics" => {
            let k = *c.pick(&[5000i64, 500, 30000]) / scale;
            let step = *c.pick(&[1i64, 3, 65537]);
            kv.push(("K", k.to_string()));
            kv.push(("STEP", step.to_string()));
            let nk = n * k;
            // fetch_add returns every multiple of step below nk*step exactly once
            let oldsum = step.wrapping_mul(nk * (nk - 1) / 2);
            let tokens: i64 = 1000 + (1..=n).sum::<i64>();
            (W_ATOMICS, format!("a32={nk} a64={} cas={} cas32={nk} plain={nk} overlaps=0 oldsum={oldsum} tokens={tokens}\n", nk.wrapping_mul(step), 3 * nk), format!("atomics:n{n}:k{k}:step{step}"))
        }
        _ => {
            let pre = *c.pick(&[5i64, 0, 1, 100]);
            let spin = *c.pick(&[2000i64, 100, 20000]);
            kv.push(("PRE", pre.to_string()));
            kv.push(("SPIN", spin.to_string()));
            (W_GATE, format!("before=0 after_one=1 woken={n} early=0\n"), format!("gate:n{n}:pre{pre}:spin{spin}"))
        }
    };
    let source = format!("{PRELUDE}{CHURN}{}", subst(body, &kv));
    let label = format!("{label}:gc{gc_in}{gc_out}:{}", if notify_outside { "notify-outside-lock" } else { "notify-inside-lock" });
    (kind.to_string(), label, source, expected, moves)
}

impl Prop for MtWorkloads {
    type Case = MtCase;
    fn name(&self) -> &str {
        "workloads"
    }
    fn generate(&self, c: &mut Choices) -> MtCase {
        let backend = if c.chance(1, 2) { Backend::Boots } else { Backend::Cannon };
        let gc = c.pick_str(&["swiper", "copy", "sweep", "swiper", "copy", "zero"]).to_string();
        let mut flags: Vec<&str> = vec![];
        let stress = c.weighted(&[5, 2, 2]);
        match stress {
            1 => flags.push("--gc-stress"),
            2 => flags.push("--gc-stress-minor"),
            _ => {}
        }
        // a full collection of the generational collector costs ~60 ms (mostly page-table work): "a full
        // collection at every single allocation" is not affordable there, every-allocation stress uses minor collections
        let no_tlab = c.chance(1, 4) && !(gc == "swiper" && stress == 1);
        if no_tlab {
            flags.push("--disable-tlab");
        }
        if gc == "swiper" {
            match c.below(3) {
                1 => flags.push("--gc-worker=2"),
                2 => flags.push("--gc-worker=8"),
                _ => {}
            }
        }
        let heavy = stress != 0 && no_tlab;
        let (kind, label, source, expected, moves) = gen_workload(c, heavy || gc == "zero");
        let reps = 3;
        let mut perturb = vec![None];
        for _ in 1..reps {
            perturb.push(Some(1 + (c.raw() as u64 % 1_000_000)));
        }
        MtCase { kind, label, source, expected, backend, gc, flags: flags.join(" "), perturb, moves_objects: moves }
    }
    fn eval(&self, case: &MtCase) -> Outcome {
        let h = hash64(&(&case.source, case.backend, &case.gc, &case.flags, &case.perturb));
        let scratch = Scratch::new("c09");
        let src = scratch.file("w.dora");
        std::fs::write(&src, &case.source).unwrap();
        let exe = scratch.file("w");
        let cr = compile(&self.tools, &src, &exe, case.backend, &CompileOpts { gc: Some(case.gc.clone()), extra: vec![] }, Duration::from_secs(240));
        if !cr.ok() {
            // the workloads are fixed templates: a compile failure is a harness problem or a compiler defect outside C09
            return Outcome { inconclusive: Some(format!("workload {} did not compile: {}", case.label, first_lines(&crate::c01::strip_warnings(&cr.stderr_str()), 6))), hash: h, ..Default::default() };
        }
        let mut contended = false;
        for p in &case.perturb {
            let envs: Vec<(&str, String)> = match p {
                Some(s) => vec![("DORA_VERIF_PERTURB", s.to_string())],
                None => vec![],
            };
            let rr = run_exe_watch(&exe, &case.flags, &envs, Duration::from_secs(180), Duration::from_secs(6), &scratch.path);
            let e = classify(&rr);
            let cfg = format!("{} generator, --gc={} DORA_FLAGS={:?} DORA_VERIF_PERTURB={:?}", case.backend.name(), case.gc, case.flags, p);
            match &e {
                Ending::Timeout => {
                    return Outcome { inconclusive: Some(format!("{}: still consuming CPU after 180 s ({cfg})", case.label)), hash: h, ..Default::default() };
                }
                Ending::Quiescent => {
                    return Outcome::fail(
                        h,
                        format!("deadlock:{}", case.kind),
                        format!("{cfg}: the process stopped making progress — every thread asleep, no CPU time used for 6 s — without having finished (deadlock or lost wake-up)\nstdout so far: {:?}\nstderr: {}", truncate_str(&rr.stdout_str(), 200), truncate_str(&rr.stderr_str(), 400)),
                    );
                }
                Ending::Trap(106, _) if case.gc == "zero" => {
                    // the non-reclaiming collector may legitimately run out of memory
                    continue;
                }
                Ending::Exit(0) => {}
                other => {
                    let what = match other {
                        Ending::Signal(s) => format!("signal-{s}"),
                        Ending::RuntimePanic(_) => "runtime-panic".into(),
                        Ending::Trap(c, _) => format!("trap-{c}"),
                        Ending::Fatal(_) => "fatal".into(),
                        Ending::Exit(c) => format!("exit-{c}"),
                        _ => "other".into(),
                    };
                    return Outcome::fail(h, format!("abnormal-end:{}:{what}", case.kind), format!("{cfg}: ended with {:?}\nstdout: {:?}\nstderr: {}", other, truncate_str(&rr.stdout_str(), 200), truncate_str(&rr.stderr_str(), 600)));
                }
            }
            let out = rr.stdout_str();
            if out != case.expected {
                // name the first field that differs
                let field = out
                    .split_whitespace()
                    .zip(case.expected.split_whitespace())
                    .find(|(a, b)| a != b)
                    .map(|(a, _)| a.split('=').next().unwrap_or("").to_string())
                    .unwrap_or_else(|| "shape".into());
                return Outcome::fail(h, format!("invariant:{}:{field}", case.kind), format!("{cfg}: printed {:?}, the workload's invariant requires {:?}", out, case.expected));
            }
            if p.is_some() {
                contended = true;
            }
        }
        Outcome::pass(h, contended)
            .class(format!("kind:{}", case.kind))
            .class(format!("gc:{}", case.gc))
            .class(format!("generator:{}", case.backend.name()))
            .class_if(case.moves_objects && (case.gc == "swiper" || case.gc == "copy"), "collections-while-threads-queued(moving-collector)")
            .class_if(case.flags.contains("--gc-stress"), "gc-stress")
            .class_if(case.label.contains("notify_one"), "notify_one")
            .class_if(case.label.contains("notify-outside-lock") && ["queue", "ring", "barrier", "gate"].contains(&case.kind.as_str()), "notification-outside-the-critical-section")
            .class_if(case.label.contains("notify_all"), "notify_all")
    }
    fn render(&self, case: &MtCase) -> Value {
        json!({"kind": case.kind, "label": case.label, "source": case.source, "expected": case.expected, "generator": case.backend.name(), "gc": case.gc, "flags": case.flags,
               "perturb": case.perturb, "moves_objects": case.moves_objects})
    }
    fn from_rendered(&self, v: &Value) -> Option<MtCase> {
        Some(MtCase {
            kind: v["kind"].as_str()?.into(),
            label: v["label"].as_str()?.into(),
            source: v["source"].as_str()?.into(),
            expected: v["expected"].as_str()?.into(),
            backend: if v["generator"].as_str()? == "baseline" { Backend::Cannon } else { Backend::Boots },
            gc: v["gc"].as_str()?.into(),
            flags: v["flags"].as_str().unwrap_or("").into(),
            perturb: v["perturb"].as_array()?.iter().map(|x| x.as_u64()).collect(),
            moves_objects: v["moves_objects"].as_bool().unwrap_or(false),
        })
    }
}

pub fn main(mode: Mode) -> i32 {
    let p = MtWorkloads { tools: Tools::release() };
    match mode {
        Mode::Worker(_) => 2,
        Mode::Minimize(_, doc) => {
            let mut ctx = Ctx::new("C09", "quick");
            ctx.minimize_stored(&p, &doc, 60)
        }
        Mode::Replay(_, doc) => {
            let mut ctx = Ctx::new("C09", "quick");
            ctx.replay(&p, &doc)
        }
        Mode::Run(tier) => {
            let mut ctx = Ctx::new("C09", &tier);
            if !p.tools.has_boots() {
                println!("INCONCLUSIVE property=C09 the optimizing compiler could not be bootstrapped from this tree");
                return 2;
            }
            ctx.rule = "program level (sub-check `workloads`): a case is a generated multi-threaded Dora workload (2-8 threads) with a closed-form invariant — locked counter with an inside-flag (optionally under two nested mutexes), bounded queue with two conditions (1-4 producers/consumers, capacity 1-64, notify_one or notify_all, per-producer FIFO check), turn-taking ring over shared or per-player conditions, reusable barrier with notify_all, join chains with plain-field visibility and repeated joins, atomic fetch_add / compare_exchange loops / exchange spin lock / exchange token circulation on AtomicInt32/64, a gate that checks that notifications without waiter have no effect and that notify_one wakes exactly one waiter — with forced full/minor collections and allocation churn at generated points, x {baseline, optimizing} x {swiper, copy, sweep, zero} x {-, --gc-stress, --gc-stress-minor} x --disable-tlab x --gc-worker; notifications issued inside the critical section or right after it; each built once and run 3 times: unperturbed and under 2 generated seeds of the runtime's schedule perturbation hook (DORA_VERIF_PERTURB). oracle: exit 0 and exactly the invariant line; a run whose threads are all asleep and which consumed no CPU for 6 s is a deadlock / lost wake-up (violation); a run still consuming CPU at 180 s is inconclusive; non-trivial = case that completed at least one perturbed run. primitive level: part `waitlists` (deterministic scheduler over the real WaitLists / DoraThread code, binary vsched)".into();
            ctx.assumptions = vec![
                "program level explores only the schedules the OS produces under seeded perturbation; the deterministic-scheduler part explores sequentially consistent interleavings of the wait-queue primitives".into(),
                "quiescence (all threads in interruptible sleep, zero CPU ticks for 6 s) is taken as proof that the workload cannot progress: the workloads neither read input nor sleep".into(),
            ];
            ctx.run_regressions(&p);
            ctx.run_known_reproducers(&p);
            let n = ctx.n(112, 4000);
            ctx.run_search(&p, n, 40, 0);
            for k in KINDS {
                ctx.require_class(&format!("workloads/kind:{k}"));
            }
            ctx.require_class("workloads/collections-while-threads-queued(moving-collector)");
            ctx.require_class("workloads/notification-outside-the-critical-section");
            ctx.merge_part("waitlists");
            ctx.finish()
        }
    }
}
