//! C19 — distinct functions get distinct, valid linker symbols (string level).
//! The program-level part (symbol sets of emitted .s files) lives in asmscan.

use crate::vcore::*;
use dora_symbol::{demangle_name, mangle_name, mangle_name_with_max_len};
use serde_json::{Value, json};
use std::collections::HashMap;

pub struct Symbols;

#[derive(Clone, Debug)]
pub struct SymCase {
    pub names: Vec<String>,
    pub max_len: usize,
    pub kind: String,
}

const SEGS: &[&str] = &[
    "std", "::", "Vec", "[", "]", "Int64", "Int32", ",", " ", "_", "_5F", "_H", "<impl", ">", "#", "☃", "é", "a", "b", "Z", "0", "9", "$", ".", "-",
    "(", ")", ":", "for", "traits", "Add", "main", "x", "_3A", "H", "_HDEADBEEF", "𝒳", "\u{0}", "\n", "~", "__", "5F", "boots::interface::compile",
    "std::collections::HashMap[", "lambda", "thunk", "@", "/", "+",
];

fn gen_base(c: &mut Choices, long: bool) -> String {
    let mut s = String::new();
    let n = 1 + c.below(if long { 40 } else { 14 });
    for _ in 0..n {
        s.push_str(c.pick_str(SEGS));
    }
    if long {
        // long common prefix: repeat a unit until 150..5000 bytes
        let target = *c.pick(&[120usize, 150, 160, 166, 170, 190, 199, 200, 201, 230, 400, 1000, 5000]);
        let unit = if s.is_empty() { "a".to_string() } else { s.clone() };
        while s.len() < target {
            s.push_str(&unit);
        }
        // cut near the target on a char boundary
        let mut cut = target + c.below(8);
        cut = cut.min(s.len());
        while !s.is_char_boundary(cut) {
            cut -= 1;
        }
        s.truncate(cut);
    }
    s
}

/// One small edit of `base`; returns None when the edit is the identity.
fn edit(c: &mut Choices, base: &str) -> Option<String> {
    let mut chars: Vec<char> = base.chars().collect();
    if chars.is_empty() {
        return Some(c.pick_str(SEGS).to_string());
    }
    // bias positions to the tail and to the region that maps around the truncation point
    let pos = match c.weighted(&[3, 3, 2]) {
        0 => c.below(chars.len()),
        1 => chars.len() - 1 - c.below(chars.len().min(48)),
        _ => (c.below(80) + 30).min(chars.len() - 1),
    };
    match c.weighted(&[5, 2, 2, 2, 2]) {
        0 => {
            let repl = *c.pick(&['a', 'b', 'A', '0', '_', ':', '[', ']', ',', ' ', 'H', '☃', 'é', '\u{1}', '5', 'F']);
            if chars[pos] == repl {
                return None;
            }
            chars[pos] = repl;
        }
        1 => {
            chars.remove(pos);
        }
        2 => {
            let ins = *c.pick(&['a', '_', ':', 'H', '0', 'é']);
            chars.insert(pos, ins);
        }
        3 => {
            // escaped look-alike: '_' <-> "_5F", ':' <-> "_3A"
            let s: String = chars.iter().collect();
            let cand = if s.contains("_5F") {
                s.replacen("_5F", "_", 1)
            } else if s.contains('_') {
                s.replacen('_', "_5F", 1)
            } else if s.contains(':') {
                s.replacen(':', "_3A", 1)
            } else {
                format!("{s}_")
            };
            return if cand != base { Some(cand) } else { None };
        }
        _ => {
            if pos + 1 < chars.len() {
                if chars[pos] == chars[pos + 1] {
                    return None;
                }
                chars.swap(pos, pos + 1);
            } else {
                chars.push('x');
            }
        }
    }
    let s: String = chars.into_iter().collect();
    if s == base { None } else { Some(s) }
}

pub fn check_names(names: &[String], max_len: usize) -> Result<(usize, usize), (String, String)> {
    let mut seen: HashMap<String, &String> = HashMap::new();
    let mut shortened = 0;
    for n in names {
        let m = guarded(|| mangle_name_with_max_len(n, max_len)).map_err(|p| (p.key(), format!("mangle panicked on {:?}: {}", n, p.message)))?;
        let full = mangle_name(n);
        if let Some(bad) = m.chars().find(|ch| !(ch.is_ascii_alphanumeric() || *ch == '_')) {
            return Err(("charset".into(), format!("symbol {m:?} for {n:?} contains {bad:?}")));
        }
        if m.len() > max_len {
            return Err(("length".into(), format!("symbol for {n:?} has {} chars, limit {max_len}", m.len())));
        }
        if full.len() <= max_len {
            if m != full {
                return Err(("unshortened-differs".into(), format!("name {n:?} fits ({} <= {max_len}) but was changed: {m:?}", full.len())));
            }
            match demangle_name(&m) {
                Some(d) if &d == n => {}
                other => return Err(("demangle".into(), format!("demangle(mangle({n:?})) = {other:?}"))),
            }
        } else {
            shortened += 1;
            let again = mangle_name_with_max_len(n, max_len);
            if again != m {
                return Err(("nondeterministic".into(), format!("two calls differ for {n:?}")));
            }
        }
        if let Some(prev) = seen.get(&m) {
            if *prev != n {
                return Err(("collision".into(), format!("names {:?} and {:?} both get symbol {m:?} (max_len {max_len})", prev, n)));
            }
        }
        seen.insert(m, n);
    }
    Ok((shortened, names.len()))
}

fn common_prefix(a: &str, b: &str) -> usize {
    a.bytes().zip(b.bytes()).take_while(|(x, y)| x == y).count()
}

impl Prop for Symbols {
    type Case = SymCase;
    fn name(&self) -> &str {
        "mangle"
    }
    fn generate(&self, c: &mut Choices) -> SymCase {
        let long = c.chance(3, 5);
        let base = gen_base(c, long);
        let mut names = vec![base.clone()];
        let k = 1 + c.below(12);
        for _ in 0..k {
            if let Some(e) = edit(c, &base) {
                if !names.contains(&e) {
                    names.push(e);
                }
            }
        }
        let max_len = *c.pick(&[200usize, 200, 200, 34, 35, 40, 64, 120, 199, 201, 300]);
        SymCase { names, max_len, kind: if long { "long".into() } else { "short".into() } }
    }
    fn eval(&self, case: &SymCase) -> Outcome {
        let h = hash64(&(&case.names, case.max_len));
        match check_names(&case.names, case.max_len) {
            Ok((shortened, _)) => {
                let base_m = mangle_name(&case.names[0]);
                let past_cut = case.names.iter().skip(1).any(|n| common_prefix(&mangle_name(n), &base_m) >= case.max_len.saturating_sub(34));
                let esc_only = case.names.iter().skip(1).any(|n| {
                    let strip = |s: &str| s.replace("_5F", "_").replace("_3A", ":");
                    strip(n) == strip(&case.names[0])
                });
                Outcome::pass(h, (past_cut && shortened > 0) || esc_only)
                    .class_if(shortened > 0, "shortened")
                    .class_if(shortened == 0, "all-unshortened")
                    .class_if(past_cut && shortened > 0, "pair-differs-only-past-truncation-point")
                    .class_if(esc_only, "pair-differs-only-in-escaped-chars")
                    .class_if(case.names.iter().any(|n| !n.is_ascii()), "multi-byte")
            }
            Err((k, m)) => Outcome::fail(h, k, m),
        }
    }
    fn render(&self, case: &SymCase) -> Value {
        json!({"names": case.names, "max_len": case.max_len, "kind": case.kind})
    }
    fn from_rendered(&self, v: &Value) -> Option<SymCase> {
        Some(SymCase {
            names: v["names"].as_array()?.iter().filter_map(|x| x.as_str().map(String::from)).collect(),
            max_len: v["max_len"].as_u64()? as usize,
            kind: v["kind"].as_str().unwrap_or("replay").into(),
        })
    }
    fn minimize(&self, case: &SymCase, fails: &dyn Fn(&SymCase) -> bool) -> Option<SymCase> {
        // keep only a failing pair if possible
        for i in 0..case.names.len() {
            for j in (i + 1)..case.names.len() {
                let c2 = SymCase { names: vec![case.names[i].clone(), case.names[j].clone()], max_len: case.max_len, kind: case.kind.clone() };
                if fails(&c2) {
                    return Some(c2);
                }
            }
        }
        for i in 0..case.names.len() {
            let c2 = SymCase { names: vec![case.names[i].clone()], max_len: case.max_len, kind: case.kind.clone() };
            if fails(&c2) {
                return Some(c2);
            }
        }
        None
    }
}

/// Systematic sweep: every single-byte variant of a few long ASCII names, for several limits.
pub fn sweep_cases() -> Vec<SymCase> {
    let mut out = vec![];
    let bases = [
        format!("std::collections::HashMap[{}]::insert", vec!["Int64"; 40].join(", ")),
        format!("pkg::{}::f", "m".repeat(260)),
        format!("a{}", "::b_c".repeat(60)),
    ];
    for base in bases.iter() {
        for &max_len in &[200usize, 120, 64] {
            let bytes = base.as_bytes();
            let mut names = vec![base.clone()];
            for i in 0..bytes.len() {
                for repl in [b'Q', b'_'] {
                    if bytes[i] != repl {
                        let mut v = bytes.to_vec();
                        v[i] = repl;
                        names.push(String::from_utf8(v).unwrap());
                    }
                }
            }
            out.push(SymCase { names, max_len, kind: "sweep".into() });
        }
    }
    out
}

/// Cross-process determinism: a fresh process must produce the same shortened symbols.
pub fn cross_process(ctx: &mut Ctx) {
    let names: Vec<String> = sweep_cases().into_iter().flat_map(|c| c.names.into_iter().step_by(37)).collect();
    let local: Vec<String> = names.iter().map(|n| mangle_name_with_max_len(n, 200)).collect();
    let exe = std::env::current_exe().unwrap();
    let input = names.join("\n");
    use std::io::Write;
    let mut child = std::process::Command::new(exe)
        .args(["C19", "--worker", "mangle200"])
        .stdin(std::process::Stdio::piped())
        .stdout(std::process::Stdio::piped())
        .spawn()
        .expect("spawn");
    child.stdin.take().unwrap().write_all(input.as_bytes()).unwrap();
    let out = child.wait_with_output().unwrap();
    let remote: Vec<String> = String::from_utf8_lossy(&out.stdout).lines().map(String::from).collect();
    ctx.evaluations += names.len() as u64;
    *ctx.classes.entry("cross-process/compared".into()).or_insert(0) += names.len() as u64;
    if remote != local {
        let i = remote.iter().zip(local.iter()).position(|(a, b)| a != b).unwrap_or(0);
        ctx.report_failure(
            "cross-process",
            &Failure { key: "nondeterministic-across-processes".into(), msg: format!("name {:?}: this process {:?}, fresh process {:?}", names.get(i), local.get(i), remote.get(i)) },
            || json!({"rendered": {"names": [names.get(i)], "max_len": 200, "kind": "cross-process"}}),
        );
    }
}

pub fn main(mode: Mode) -> i32 {
    let p = Symbols;
    match mode {
        Mode::Worker(_) => {
            use std::io::BufRead;
            for l in std::io::stdin().lock().lines() {
                println!("{}", mangle_name_with_max_len(&l.unwrap_or_default(), 200));
            }
            0
        }
        Mode::Replay(_, doc) => {
            let mut ctx = Ctx::new("C19", "quick");
            ctx.replay(&p, &doc)
        }
        Mode::Minimize(..) => 2,
        Mode::Run(tier) => {
            let mut ctx = Ctx::new("C19", &tier);
            start_watchdog(120, "C19");
            ctx.rule = "string level: a case is a base name built from display-name separators, escaped look-alikes (_ vs _5F, _H…), multi-byte chars and long repeated prefixes (120–5000 bytes) plus up to 12 single edits of it (byte replaced/removed/inserted/swapped, escape look-alike), and a length limit from {34,35,40,64,120,199,200,201,300}; plus a systematic sweep of every single-byte variant of three long names; oracle: distinct names -> distinct symbols, charset [A-Za-z0-9_], prefix dora_, length <= limit, unshortened names unchanged and demangle back, shortening deterministic within and across processes. non-trivial = case containing a pair that differs only past the truncation point of a shortened symbol, or only in escaped characters; distinct by content hash. Program level (all labels of emitted assembly unique/valid) is checked by the assembly scanner, see sub-check asm-labels".into();
            ctx.assumptions = vec!["a collision of the 128-bit FNV hash itself can only be found by luck".into()];
            ctx.run_regressions(&p);
            ctx.run_enum(&p, sweep_cases());
            cross_process(&mut ctx);
            let n = ctx.n(60_000, 3_000_000);
            ctx.run_search(&p, n, 120, 600);
            // program level: labels of emitted assembly (needs the built tools)
            let tools = crate::runner::Tools::release();
            if tools.dora().exists() && tools.has_boots() {
                let lp = crate::c10::Labels { tools };
                ctx.run_regressions(&lp);
                let n = ctx.n(40, 600);
                ctx.run_search(&lp, n, 30, 0);
                ctx.require_class("asm-labels/has-shortened-symbol");
            } else {
                ctx.extra.insert("asm_labels".into(), json!("skipped: tools not built"));
            }
            ctx.require_class("mangle/pair-differs-only-past-truncation-point");
            ctx.require_class("mangle/pair-differs-only-in-escaped-chars");
            ctx.finish()
        }
    }
}
