//! C03 — garbage collection is invisible to programs and reclaims garbage.

use crate::c01::{ProgCase, expected_from_json, expected_to_json, make_case};
use crate::progen::pgen;
use crate::runner::*;
use crate::vcore::*;
use serde_json::{Value, json};
use std::time::Duration;

#[derive(Clone, Debug)]
pub struct GcConfig {
    pub gc: String,
    pub flags: String,
}

#[derive(Clone, Debug)]
pub struct GcCase {
    pub prog: ProgCase,
    pub label: String,
    pub backend: Backend,
    pub debug_runtime: bool,
    pub configs: Vec<GcConfig>,
    /// churn program with bounded live set: must not run out of memory under a reclaiming collector
    pub reclaim: Option<String>,
}

pub struct GcInvisible {
    pub release: Tools,
    pub debug: Tools,
}

fn gen_config(c: &mut Choices) -> GcConfig {
    let gc = c.pick_str(&["swiper", "copy", "sweep", "zero", "swiper", "copy"]).to_string();
    let mut flags: Vec<String> = vec![];
    match c.weighted(&[4, 3, 2]) {
        1 => flags.push("--gc-stress".into()),
        2 => flags.push("--gc-stress-minor".into()),
        _ => {}
    }
    if c.chance(1, 3) {
        flags.push("--disable-tlab".into());
    }
    if gc == "swiper" {
        match c.below(4) {
            1 => flags.push("--gc-worker=1".into()),
            2 => flags.push("--gc-worker=2".into()),
            3 => flags.push("--gc-worker=8".into()),
            _ => {}
        }
        if c.chance(1, 2) {
            flags.push("--gc-verify".into());
        }
        if c.chance(1, 4) {
            flags.push(c.pick_str(&["--gc-young-size=1M", "--gc-young-size=4M", "--gc-young-size=16M"]).to_string());
        }
    }
    if gc != "zero" && c.chance(1, 3) {
        flags.push(c.pick_str(&["--max-heap-size=32M", "--max-heap-size=64M", "--max-heap-size=256M"]).to_string());
    }
    GcConfig { gc, flags: flags.join(" ") }
}

const CHURN: &str = r#"class Node { next: Option[Node], payload: Array[Int64], tag: String }
class Holder { keep: Vec[Node], newest: Option[Node] }
fn main() {
    let h = Holder(keep = Vec[Node]::new(), newest = None[Node]);
    let mut i = 0;
    let mut sum = 0;
    while i < ROUNDS {
        let n = Node(next = h.newest, payload = Array[Int64]::fill(PAYLOAD, i), tag = "n${i}");
        if i % KEEP_EVERY == 0 {
            if h.keep.size() >= 64 { h.keep.remove_at(0); }
            h.keep.push(n);
            h.newest = Some[Node](n);
        } else {
            h.newest = None[Node];
        }
        if i % 97 == 0 { for k in h.keep { sum = sum + k.payload(0) + k.tag.size(); } }
        i = i + 1;
    }
    println("sum=${sum} kept=${h.keep.size()}");
}
"#;

fn churn_program(c: &mut Choices, heap_mb: i64) -> (String, String) {
    // live set (<= 64 nodes) stays below 1/8 of the heap
    let payload = if heap_mb >= 32 { *c.pick(&[4i64, 64, 1000, 20000]) } else { *c.pick(&[4i64, 1, 64, 400, 3]) };
    // total allocation >= 20x the heap
    let rounds = ((heap_mb * 22) << 20) / ((payload + 8) * 8);
    let keep_every = *c.pick(&[3i64, 10, 50]);
    let src = CHURN.replace("ROUNDS", &rounds.to_string()).replace("PAYLOAD", &payload.to_string()).replace("KEEP_EVERY", &keep_every.to_string());
    // reference result computed here
    let mut keep: Vec<(i64, usize)> = vec![];
    let mut sum: i64 = 0;
    for i in 0..rounds {
        if i % keep_every == 0 {
            if keep.len() >= 64 {
                keep.remove(0);
            }
            keep.push((i, format!("n{i}").len()));
        }
        if i % 97 == 0 {
            for (p, t) in &keep {
                sum += p + *t as i64;
            }
        }
    }
    (src, format!("sum={sum} kept={}\n", keep.len()))
}

/// "Ageing" programs: a small pool of objects with three reference fields whose fields are re-pointed to fresh
/// objects at generated moments between forced minor/full collections and bursts of garbage that push the
/// allocation pointer into new young pages. Exercises survivor ageing, promotion with old-to-young references in
/// any field position, the write barrier and the remembered set. The expected output is computed here by
/// interpreting the same script.
fn ageing_program(c: &mut Choices) -> (String, String) {
    let k = 2 + c.below(6); // pool size
    let nsteps = 20 + c.below(140);
    let pad = *c.pick(&[0i64, 3, 40, 600]);
    let mut body = String::new();
    let mut expected = String::new();
    // model: pool[i] = Some([a, b, c]) values (0 = None)
    let mut pool: Vec<Option<[i64; 3]>> = vec![None; k];
    let mut counter: i64 = 0;
    let mut checks = 0;
    for step in 0..nsteps {
        match c.weighted(&[4, 8, 5, 1, 4, 3, 3]) {
            6 => {
                // interior reference (`ref mut` to a field of a heap object) held across a collection, next to an
                // ordinary reference to the same object
                let i = c.below(k);
                if let Some(vals) = pool[i].as_mut() {
                    let f = c.below(3);
                    if vals[f] != 0 {
                        let fname = ["a", "b", "c"][f];
                        counter += 1;
                        let helper = c.pick_str(&["upd", "upd2"]);
                        let how = c.below(3);
                        body.push_str(&format!("    {{ let q = ps({i}).get_or_panic().{fname}.get_or_panic(); let old = {helper}(q, ref mut q.v, {how}, {counter}); if old != {} {{ println(\"ref-old ${{old}}\"); }} }}\n", vals[f]));
                        vals[f] = counter;
                    }
                }
            }
            0 => {
                let i = c.below(k);
                let mut vals = [0i64; 3];
                let mut args = vec![];
                for f in 0..3 {
                    if c.chance(2, 3) {
                        counter += 1;
                        vals[f] = counter;
                        args.push(format!("Some[Q](Q(v = {counter}, pad = Array[Int64]::zero({pad})))"));
                    } else {
                        args.push("None[Q]".to_string());
                    }
                }
                pool[i] = Some(vals);
                body.push_str(&format!("    ps({i}) = Some[P](P(a = {}, b = {}, c = {}));\n", args[0], args[1], args[2]));
            }
            1 => {
                let i = c.below(k);
                if let Some(vals) = pool[i].as_mut() {
                    let f = c.below(3);
                    let fname = ["a", "b", "c"][f];
                    if c.chance(5, 6) {
                        counter += 1;
                        vals[f] = counter;
                        body.push_str(&format!("    ps({i}).get_or_panic().{fname} = Some[Q](Q(v = {counter}, pad = Array[Int64]::zero({pad})));\n"));
                    } else {
                        vals[f] = 0;
                        body.push_str(&format!("    ps({i}).get_or_panic().{fname} = None[Q];\n"));
                    }
                }
            }
            2 => body.push_str("    std::force_minor_collect();\n"),
            3 => body.push_str("    std::force_collect();\n"),
            4 => {
                let n = *c.pick(&[3000i64, 100, 20000, 1]);
                body.push_str(&format!("    garbage({n});\n"));
            }
            _ => {
                checks += 1;
                let mut sum: i64 = 0;
                for (i, p) in pool.iter().enumerate() {
                    if let Some(v) = p {
                        sum = (sum * 31 + (i as i64 + 1) * 7 + v[0] * 3 + v[1] * 5 + v[2] * 11) % 1_000_000_007;
                    }
                }
                body.push_str(&format!("    println(\"check {step} ${{checksum(ps)}}\");\n"));
                expected.push_str(&format!("check {step} {sum}\n"));
            }
        }
    }
    let _ = checks;
    let mut sum: i64 = 0;
    for (i, p) in pool.iter().enumerate() {
        if let Some(v) = p {
            sum = (sum * 31 + (i as i64 + 1) * 7 + v[0] * 3 + v[1] * 5 + v[2] * 11) % 1_000_000_007;
        }
    }
    expected.push_str(&format!("final {sum}\n"));
    let src = format!(
        r#"class Q {{ v: Int64, pad: Array[Int64] }}
class P {{ a: Option[Q], b: Option[Q], c: Option[Q] }}
fn val(q: Option[Q]): Int64 {{ if q.is_some() {{ q.get_or_panic().v }} else {{ 0 }} }}
fn checksum(ps: Array[Option[P]]): Int64 {{
    let mut sum = 0;
    let mut i = 0;
    while i < ps.size() {{
        if ps(i).is_some() {{
            let p = ps(i).get_or_panic();
            sum = (sum * 31 + (i + 1) * 7 + val(p.a) * 3 + val(p.b) * 5 + val(p.c) * 11) % 1000000007;
        }}
        i = i + 1;
    }}
    sum
}}
fn weight(q: Q, k: Int64): Int64 {{ garbage(1); q.v + k }}
fn upd(q: Q, r: ref mut Int64, how: Int64, nv: Int64): Int64 {{
    if how == 0 {{ std::force_minor_collect(); }} else if how == 1 {{ std::force_collect(); }} else {{ garbage(3000); }}
    let old = r;
    r = nv;
    if q.v != nv {{ println("ref-write-lost ${{q.v}} ${{nv}}"); }}
    old
}}
fn weight2(q: Q, p: Q): Int64 {{ garbage(1); q.v + p.v }}
fn upd2(q: Q, r: ref mut Int64, how: Int64, nv: Int64): Int64 {{
    let keep = q;
    if how == 0 {{ std::force_minor_collect(); }} else if how == 1 {{ std::force_collect(); }} else {{ garbage(3000); }}
    let old = r;
    r = nv;
    if keep.v != nv {{ println("ref-write-lost ${{keep.v}} ${{nv}}"); }}
    old
}}
fn garbage(n: Int64) {{
    let mut i = 0;
    while i < n {{
        Q(v = i, pad = Array[Int64]::zero(i % 7));
        i = i + 1;
    }}
}}
fn main() {{
    let ps = Array[Option[P]]::fill({k}, None[P]);
{body}    println("final ${{checksum(ps)}}");
}}
"#
    );
    (src, expected)
}

impl Prop for GcInvisible {
    type Case = GcCase;
    fn name(&self) -> &str {
        "gc-matrix"
    }
    fn generate(&self, c: &mut Choices) -> GcCase {
        let backend = if c.chance(1, 2) { Backend::Cannon } else { Backend::Boots };
        let debug_runtime = c.chance(1, 4);
        let kind = c.weighted(&[5, 3, 2, 4]);
        let n = 3 + c.below(2);
        let mut configs: Vec<GcConfig> = (0..n).map(|_| gen_config(c)).collect();
        // corpus programs may allocate a lot: no every-allocation stress there either
        if kind == 1 {
            for cfg in configs.iter_mut() {
                if cfg.flags.contains("stress") {
                    cfg.flags = cfg.flags.replace("--disable-tlab", "").replace("  ", " ").trim().to_string();
                }
                // corpus programs allocate freely; a collection of the generational collector at every TLAB refill
                // (60 ms for a full one) does not finish within the limit — stress stays on for copy and sweep
                if cfg.gc == "swiper" {
                    cfg.flags = cfg.flags.replace("--gc-stress-minor", "").replace("--gc-stress", "").replace("  ", " ").trim().to_string();
                }
            }
        }
        match kind {
            0 => {
                let prog = make_case(c, pgen::Profile::Alloc);
                // "a collection at every single allocation" (stress + no TLAB) costs ~0.4 ms per allocation:
                // keep it for programs without churn loops, otherwise stress with TLABs
                if prog.features.iter().any(|f| f == "churn-loop") {
                    for cfg in configs.iter_mut() {
                        if cfg.flags.contains("stress") {
                            cfg.flags = cfg.flags.replace("--disable-tlab", "").replace("  ", " ").trim().to_string();
                        }
                    }
                }
                GcCase { prog, label: "generated".into(), backend, debug_runtime, configs, reclaim: None }
            }
            1 => {
                static CORPUS: std::sync::OnceLock<Vec<crate::c02::DiffCase>> = std::sync::OnceLock::new();
                let all = CORPUS.get_or_init(|| crate::c02::corpus_cases(true).0.into_iter().filter(|c| c.expect_status.is_none() && c.args.is_empty()).collect());
                let base = &all[c.below(all.len())];
                GcCase { prog: ProgCase { source: base.source.clone(), expected: None, stats: vec![], features: vec![] }, label: base.label.clone(), backend, debug_runtime, configs, reclaim: None }
            }
            3 => {
                let (src, out) = ageing_program(c);
                // every-allocation stress is affordable (few thousand allocations at most outside `garbage`)
                for cfg in configs.iter_mut() {
                    if cfg.flags.contains("--gc-stress") && !cfg.flags.contains("--gc-stress-minor") && cfg.gc == "swiper" {
                        cfg.flags = cfg.flags.replace("--gc-stress", "--gc-stress-minor");
                    }
                    if cfg.flags.contains("stress") {
                        cfg.flags = cfg.flags.replace("--disable-tlab", "").replace("  ", " ").trim().to_string();
                    }
                }
                // the generational collector is always among the configurations
                if !configs.iter().any(|c| c.gc == "swiper") {
                    configs[0] = GcConfig { gc: "swiper".into(), flags: c.pick_str(&["--gc-verify", "", "--gc-verify --gc-young-size=1M", "--gc-worker=2"]).into() };
                }
                GcCase {
                    prog: ProgCase { source: src, expected: Some(crate::progen::interp::Expected { stdout: out, status: 0, message: None, kind: "exit" }), stats: vec![("forced-collection".into(), 1)], features: vec!["churn-loop".into()] },
                    label: "ageing".into(),
                    backend,
                    debug_runtime,
                    configs,
                    reclaim: None,
                }
            }
            _ => {
                // reclamation: small heap, a reclaiming collector; stress only with TLABs (cost). Half of the cases use a very
                // small heap, where object-by-object allocation (--disable-tlab) is affordable and free-list reuse is exercised
                let heap_mb = *c.pick(&[32i64, 4, 2, 8]);
                let (src, out) = churn_program(c, heap_mb);
                for cfg in configs.iter_mut() {
                    if cfg.gc == "zero" {
                        cfg.gc = c.pick_str(&["copy", "sweep", "swiper"]).into();
                    }
                    let no_tlab = heap_mb < 32 && cfg.flags.contains("--disable-tlab");
                    let mut keep: Vec<&str> = cfg.flags.split_whitespace().filter(|f| f.starts_with("--gc-worker") || (heap_mb >= 32 && f.starts_with("--gc-young-size"))).collect();
                    if no_tlab {
                        keep.push("--disable-tlab");
                    }
                    cfg.flags = format!("{} --max-heap-size={}M", keep.join(" "), if cfg.gc == "swiper" { heap_mb.max(8) } else { heap_mb }).trim().to_string();
                }
                GcCase {
                    prog: ProgCase { source: src, expected: Some(crate::progen::interp::Expected { stdout: out.clone(), status: 0, message: None, kind: "exit" }), stats: vec![], features: vec![] },
                    label: "churn".into(),
                    backend,
                    debug_runtime: false,
                    configs,
                    reclaim: Some(out),
                }
            }
        }
    }
    fn eval(&self, case: &GcCase) -> Outcome {
        let h = hash64(&(&case.prog.source, format!("{:?}{:?}{}", case.configs, case.backend, case.debug_runtime)));
        let tools = if case.debug_runtime { &self.debug } else { &self.release };
        if case.label == "generated" && case.prog.expected.is_none() {
            return Outcome::pass(h, false).class("skipped:reference-step-limit");
        }
        let scratch = Scratch::new("c03");
        let src = scratch.file("prog.dora");
        std::fs::write(&src, &case.prog.source).unwrap();
        let mut baseline: Option<(String, Ending, String)> = None;
        let mut collected = 0usize;
        for cfg in &case.configs {
            let exe = scratch.file(&format!("prog-{}", cfg.gc));
            if !exe.exists() {
                let cr = compile(tools, &src, &exe, case.backend, &CompileOpts { gc: Some(cfg.gc.clone()), extra: vec![] }, Duration::from_secs(300));
                if cr.timed_out {
                    return Outcome { inconclusive: Some("compile timed out".into()), hash: h, ..Default::default() };
                }
                if !cr.ok() {
                    let sig = crate::c01::compile_failure_signature(&cr.stderr_str());
                    if sig.starts_with("error") {
                        return Outcome::pass(h, false).class("rejected-by-front-end(skipped)");
                    }
                    return Outcome { inconclusive: Some(format!("compile failed: {sig}")), hash: h, ..Default::default() };
                }
            }
            let timeout = 120;
            let rr = run_exe(&exe, &cfg.flags, Duration::from_secs(timeout), &scratch.path);
            if rr.timed_out {
                return Outcome { inconclusive: Some(format!("run timed out under --gc={} {}", cfg.gc, cfg.flags)), hash: h, ..Default::default() };
            }
            let ending = classify(&rr);
            let out = rr.stdout_str();
            let cfg_s = format!("--gc={} DORA_FLAGS={:?} {} generator {} runtime", cfg.gc, cfg.flags, case.backend.name(), if case.debug_runtime { "debug" } else { "release" });
            if !ending_defined(&ending) {
                let kind = match &ending {
                    Ending::Signal(s) => format!("signal-{s}"),
                    Ending::RuntimePanic(m) => format!("runtime-panic:{}", normalise_msg(m.split('|').nth(1).unwrap_or(m).trim())),
                    _ => "undefined".into(),
                };
                return Outcome::fail(h, format!("crash:{}:{kind}", cfg.gc), format!("[{cfg_s}] the run ended with {:?}\nstderr: {}", ending, truncate_str(&rr.stderr_str(), 800)));
            }
            // out of memory: allowed only for programs that really retain a lot (never for churn / tiny generated programs on >= 32M)
            if let Ending::Trap(106, _) = ending {
                if case.reclaim.is_some() || (case.label == "generated" && cfg.gc != "zero") {
                    return Outcome::fail(h, format!("out-of-memory-with-small-live-set:{}", cfg.gc), format!("[{cfg_s}] out of memory although the live set is bounded"));
                }
            }
            if cfg.gc != "zero" {
                collected += 1;
            }
            if let Some(exp) = &case.prog.expected {
                let ok_end = match (&ending, exp.kind) {
                    (Ending::Exit(c), "exit") => *c == exp.status,
                    (Ending::Trap(c, m), "trap") => *c == exp.status && Some(m) == exp.message.as_ref(),
                    (Ending::Fatal(m), "fatal") => Some(m.as_str()) == exp.message.as_ref().map(|x| format!("fatal error: {x}")).as_deref(),
                    _ => false,
                };
                if !ok_end || out != exp.stdout {
                    let la: Vec<&str> = out.lines().collect();
                    let lb: Vec<&str> = exp.stdout.lines().collect();
                    let i = la.iter().zip(lb.iter()).position(|(x, y)| x != y).unwrap_or(la.len().min(lb.len()));
                    return Outcome::fail(h, format!("result-differs-from-reference:{}", cfg.gc), format!("[{cfg_s}] ended {:?}, reference says {} {}; first differing output line {}: {:?} vs reference {:?}", ending, exp.kind, exp.status, i + 1, la.get(i), lb.get(i)));
                }
            }
            match &baseline {
                None => baseline = Some((out, ending, cfg_s)),
                Some((bo, be, bc)) => {
                    // a zero collector may legitimately run out of memory where others do not
                    let oom_zero = cfg.gc == "zero" && matches!(ending, Ending::Trap(106, _));
                    if !oom_zero && (bo != &out || be != &ending) {
                        return Outcome::fail(h, format!("result-depends-on-gc-configuration:{}", cfg.gc), format!("[{cfg_s}] gives {:?} / {} bytes of output, but [{bc}] gave {:?} / {} bytes", ending, out.len(), be, bo.len()));
                    }
                }
            }
        }
        let executed = |k: &str| case.prog.stats.iter().any(|(n, v)| n == k && *v > 0);
        let nontrivial = collected >= 2 && (case.label != "generated" || executed("forced-collection") || case.prog.features.iter().any(|f| f == "churn-loop"));
        let mut o = Outcome::pass(h, nontrivial).class(format!("family:{}", case.label.split(':').next().unwrap_or(""))).class(format!("generator:{}", case.backend.name())).class_if(case.debug_runtime, "debug-runtime");
        for cfg in &case.configs {
            o = o.class(format!("gc:{}", cfg.gc));
            for f in cfg.flags.split_whitespace() {
                o = o.class(format!("flag:{}", f.split('=').next().unwrap_or(f)));
            }
        }
        o
    }
    fn render(&self, case: &GcCase) -> Value {
        json!({"label": case.label, "source": case.prog.source, "expected": expected_to_json(&case.prog.expected), "backend": case.backend.name(), "debug_runtime": case.debug_runtime,
               "configs": case.configs.iter().map(|c| json!({"gc": c.gc, "flags": c.flags})).collect::<Vec<_>>(), "reclaim": case.reclaim, "features": case.prog.features})
    }
    fn from_rendered(&self, v: &Value) -> Option<GcCase> {
        Some(GcCase {
            prog: ProgCase { source: v["source"].as_str()?.into(), expected: expected_from_json(&v["expected"]), stats: vec![("forced-collection".into(), 1)], features: vec![] },
            label: v["label"].as_str().unwrap_or("replay").into(),
            backend: if v["backend"].as_str() == Some("baseline") { Backend::Cannon } else { Backend::Boots },
            debug_runtime: v["debug_runtime"].as_bool().unwrap_or(false),
            configs: v["configs"].as_array()?.iter().map(|c| GcConfig { gc: c["gc"].as_str().unwrap_or("swiper").into(), flags: c["flags"].as_str().unwrap_or("").into() }).collect(),
            reclaim: v["reclaim"].as_str().map(String::from),
        })
    }
}

pub fn main(mode: Mode) -> i32 {
    let p = GcInvisible { release: Tools::release(), debug: Tools::debug() };
    match mode {
        Mode::Worker(_) => 2,
        Mode::Minimize(_, doc) => {
            let mut ctx = Ctx::new("C03", "quick");
            ctx.minimize_stored(&p, &doc, 100)
        }
        Mode::Replay(_, doc) => {
            let mut ctx = Ctx::new("C03", "quick");
            ctx.replay(&p, &doc)
        }
        Mode::Run(tier) => {
            let mut ctx = Ctx::new("C03", &tier);
            if !p.release.has_boots() {
                println!("INCONCLUSIVE property=C03 the optimizing compiler could not be bootstrapped from this tree");
                return 2;
            }
            ctx.rule = "cases: a program x a generated list of 3-4 collector configurations x a code generator x (release|debug) runtime. programs: typed-generator programs in the allocation-heavy profile (churn loops allocating classes/arrays/tuples with strings/strings, forced full and minor collections at generated points, closures capturing references, old objects pointing to fresh ones) with the reference interpreter's expected result; runnable corpus programs (the ones about interior references and collectors, test/rt/ref and test/rt/gc, always and in full); a parametrised churn program (linked nodes with payload arrays and strings, bounded live set <= 64 nodes, total allocation >= 20x the 32 MiB heap) with a closed-form expected result (half of them on a 2-8 MiB heap where --disable-tlab is affordable, so free-list reuse and promotion under pressure occur); 'ageing' programs: a pool of 2-7 objects with three reference fields that are re-pointed to fresh objects at generated moments between forced minor/full collections and bursts of garbage (survivor ageing, promotion with old-to-young references in any field position, write barrier, remembered set), expected output computed by interpreting the same script. configurations: gc in {swiper, copy, sweep, zero} x {-, --gc-stress, --gc-stress-minor} x --disable-tlab x --gc-worker in {1,2,8} x --gc-verify x young/heap sizes. oracle: every configuration gives the reference result (or, for corpus programs, the same result as the first configuration); no signal, no runtime-internal panic (covers --gc-verify failures and debug assertions); bounded-live-set programs never end in 'out of memory' under a reclaiming collector. non-trivial = case in which >= 2 reclaiming configurations ran a program that forces or provokes collections; distinct by (source, configurations, generator, runtime) hash".into();
            ctx.assumptions = vec!["multi-threaded allocation is covered only through C09's workloads".into()];
            ctx.run_regressions(&p);
            ctx.run_known_reproducers(&p);
            // sentinel part of the corpus, always run in full: the repository's programs about interior references
            // (`ref`) and about the collectors — each under the generational collector with heap verification
            // and under the copying collector, with both code generators
            {
                let all = crate::c02::corpus_cases(true).0;
                let mut cases = vec![];
                for base in all.iter().filter(|c| (c.label.contains("test/rt/ref/") || c.label.contains("test/rt/gc/")) && c.expect_status.is_none() && c.args.is_empty()) {
                    for backend in Backend::BOTH {
                        cases.push(GcCase {
                            prog: ProgCase { source: base.source.clone(), expected: None, stats: vec![("forced-collection".into(), 1)], features: vec![] },
                            label: format!("sentinel:{}", base.label),
                            backend,
                            debug_runtime: false,
                            configs: vec![GcConfig { gc: "swiper".into(), flags: "--gc-verify".into() }, GcConfig { gc: "copy".into(), flags: String::new() }],
                            reclaim: None,
                        });
                    }
                }
                ctx.run_enum(&p, cases);
            }
            let n = ctx.n(44, 1500);
            ctx.run_search(&p, n, 2700, 0);
            ctx.require_class("gc-matrix/family:ageing");
            ctx.require_class("gc-matrix/family:churn");
            ctx.require_class("gc-matrix/gc:swiper");
            ctx.require_class("gc-matrix/gc:copy");
            ctx.require_class("gc-matrix/gc:sweep");
            ctx.require_class("gc-matrix/family:churn");
            ctx.require_class("gc-matrix/flag:--gc-stress");
            ctx.finish()
        }
    }
}
